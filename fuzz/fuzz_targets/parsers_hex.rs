//! libFuzzer target for property C17 (parsers_hex): the input bytes go through the same check functions
//! as the generated sections of vh-parsers (`vh_parsers::fuzz_entry`). Panics in the code under test
//! are caught and classified there; signatures listed in /verif/known_findings*.json are skipped so
//! that the search continues behind known defects; anything else aborts (= crash artifact).
//! Build/run: `cargo +nightly fuzz run --release --features parsers parsers_hex`.
#![no_main]
use libfuzzer_sys::fuzz_target;
use std::sync::OnceLock;

static KNOWN: OnceLock<Vec<String>> = OnceLock::new();

fuzz_target!(|data: &[u8]| {
    let known = KNOWN.get_or_init(|| {
        let root = std::env::var("VERIF_ROOT").unwrap_or_else(|_| "/verif".into());
        vh_core::load_known(std::path::Path::new(&root), "C17")
            .into_iter()
            .map(|k| k.signature)
            .collect()
    });
    for f in vh_parsers::fuzz_entry("parsers_hex", data) {
        if !known.contains(&f.sig) {
            eprintln!("C17 violation in parsers_hex: {} :: {}", f.sig, f.detail);
            std::process::abort();
        }
    }
});
