//! libFuzzer target: the record decoders (header + typed payload) under the C12 byte oracle.
//! Input = the bytes of a kad record value. A panic or an oracle failure aborts (= crash artifact).
#![no_main]
#[path = "../../harness/vh-protocol/src/c12_oracle.rs"]
mod c12_oracle;
use c12_oracle::*;
use libfuzzer_sys::fuzz_target;

fuzz_target!(|data: &[u8]| {
    let hint = ALL_KINDS[data.first().copied().unwrap_or(0) as usize % 8];
    let mut f = Findings::default();
    judge_record_bytes(data, hint, &mut f);
    if let Some((sig, detail)) = f.fails.first() {
        panic!("C12 oracle: {sig}: {detail}");
    }
});
