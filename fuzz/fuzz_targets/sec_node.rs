//! libFuzzer target over the generated sections of vh-node (C03 C04 C07 C09): the input bytes are the random
//! stream of the section's proptest strategy, the check is the section's own (`vh_core::secfuzz`).
//! The section is chosen by VERIF_FUZZ_SECTION=<prop>:<section>.
#![no_main]
use libfuzzer_sys::fuzz_target;

thread_local! {
    static TABLE: vh_core::secfuzz::Table = vh_node::fuzz_table();
}

fuzz_target!(|data: &[u8]| {
    TABLE.with(|t| vh_core::secfuzz::target_one(t, data));
});
