//! libFuzzer target: the Request / Response decoders (CBOR as libp2p's request_response::cbor codec)
//! under the C12 byte oracle. First input byte selects the decoder (even = Request, odd = Response).
#![no_main]
#[path = "../../harness/vh-protocol/src/c12_oracle.rs"]
mod c12_oracle;
use c12_oracle::*;
use libfuzzer_sys::fuzz_target;

fuzz_target!(|data: &[u8]| {
    let Some((sel, body)) = data.split_first() else { return };
    let mut f = Findings::default();
    if sel & 1 == 0 {
        judge_request_bytes(body, &mut f);
    } else {
        judge_response_bytes(body, &mut f);
    }
    if let Some((sig, detail)) = f.fails.first() {
        panic!("C12 oracle: {sig}: {detail}");
    }
});
