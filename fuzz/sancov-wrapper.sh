#!/bin/bash
# RUSTC_WRAPPER for the section-fuzz targets (sec_*): coverage instrumentation only for the code under
# test and the harness crates. libFuzzer's per-execution cost grows with the number of instrumented
# counters; with all of libp2p / tokio / alloy instrumented a 0.2 ms case cost 20 ms.
rustc="$1"; shift
crate=""
prev=""
for a in "$@"; do
  if [ "$prev" = "--crate-name" ]; then crate="$a"; fi
  prev="$a"
done
case "$crate" in
  ant_*|evmlib|autonomi|vh_*|sec_*|verif_fuzz) exec "$rustc" "$@" ;;
esac
out=()
for a in "$@"; do
  case "$a" in
    -Cpasses=sancov-module|-Cllvm-args=-sanitizer-coverage-*) ;;
    *) out+=("$a") ;;
  esac
done
exec "$rustc" "${out[@]}"
