#!/bin/bash
# Build the whole harness offline from files on disk (first build ~2-4 min on 16 cores).
set -e
cd "$(dirname "$0")/harness"
export CARGO_NET_OFFLINE=true
cargo build --release --offline --workspace 2>&1 | tail -5
