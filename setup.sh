#!/bin/bash
# Build the whole harness offline from files on disk (first build ~5-8 min on 16 cores).
# Every check builds its crate with `cargo build -p <crate>`; cargo unifies features over the selected
# packages only, so a `--workspace` build would produce differently-featured dependency builds and the
# first run of every check would rebuild them. Build package by package instead, exactly as ./check does.
set -e
ROOT="$(cd "$(dirname "$0")" && pwd)"
export CARGO_NET_OFFLINE=true
cd "$ROOT/harness"
for c in vh-store vh-node vh-protocol vh-registers vh-parsers vh-bootstrap vh-client vh-mgmt; do
  cargo build --release --offline -p "$c" 2>&1 | tail -1
done
# the 1 KiB-chunk build of vh-client (C14/C15) and the other pre-built children
"$ROOT/harness/pre-C14.sh"
# the hooked antnode C20 starts as a subprocess (same command as vh-mgmt's ensure_antnode)
cargo build --release --offline --locked --manifest-path /repo/ant-node/Cargo.toml --features verif-hooks --bin antnode --target-dir "$ROOT/harness/target-antnode" 2>&1 | tail -1
echo "setup done"
