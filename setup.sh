#!/bin/bash
# Build the whole harness offline from files on disk (first build ~3-5 min on 16 cores).
set -e
ROOT="$(cd "$(dirname "$0")" && pwd)"
export CARGO_NET_OFFLINE=true
cd "$ROOT/harness"
cargo build --release --offline --workspace 2>&1 | tail -3
# the 1 KiB-chunk build of vh-client (C14/C15)
"$ROOT/harness/pre-C14.sh"
echo "setup done"
