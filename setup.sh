#!/bin/bash
# Build the whole harness offline from files on disk (first build ~2-4 min on 16 cores).
set -e
cd "$(dirname "$0")/harness"
export CARGO_NET_OFFLINE=true
cargo build --release --offline --workspace 2>&1 | tail -5
# the 1 KiB-chunk build of vh-client (C14/C15)
"$(dirname "$0")/harness/pre-C14.sh"
