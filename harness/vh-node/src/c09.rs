//! C09 — records held by a node replicate to in-range neighbours and replicas converge.
//!
//! 2–3 real nodes that are each other's closest peers; generated initial store contents (chunks,
//! a register, a transaction set, a scratchpad — possibly in diverging versions, possibly missing);
//! R rounds of interval replication on every node with every message of the exchange (replication
//! lists, fetch queries and replies, local commands, events) delivered in a generated order.

use crate::sim::*;
use ant_networking::verif_hooks::LocalSwarmCmd;
use ant_protocol::storage::{try_deserialize_record, RecordType, Scratchpad, Transaction};
use ant_protocol::NetworkAddress;
use ant_registers::{RegisterOp, SignedRegister};
use libp2p::kad::RecordKey;
use libp2p::PeerId;
use proptest::prelude::*;
use serde::{Deserialize, Serialize};
use std::collections::{BTreeMap, BTreeSet};
use vh_core::{pick_idx, Ctx, Report, RunCfg};
use vh_fix as fix;

const OWNER: u64 = 70;
const META: u64 = 5;

#[derive(Clone, Debug, Serialize, Deserialize)]
pub struct NodeContent {
    /// bit i: chunk i held
    pub chunks: u8,
    /// register: None, or the subset of the 3-op pool it holds (bits)
    pub reg: Option<u8>,
    /// transaction set: subset of 4 transactions (0 = none held)
    pub txs: u8,
    /// scratchpad counter (0 = none held)
    pub pad: u8,
}

#[derive(Clone, Debug, Serialize, Deserialize)]
pub struct Case {
    pub nodes: Vec<NodeContent>,
    pub rounds: u8,
    pub sched: Vec<u16>,
    /// also present a replication list from a stranger / from the node itself
    pub stranger: bool,
    /// also present a list from a peer that is in the routing table but not among the K closest
    #[serde(default)]
    pub far_known: bool,
    /// at the end: a peer that WAS a replication target of node 0 leaves its routing table and then
    /// presents a list (stale per-peer state must not stand in for "is among my closest")
    #[serde(default)]
    pub ex_target: bool,
}

fn content_strategy() -> impl Strategy<Value = NodeContent> {
    (0u8..16, proptest::option::weighted(0.6, 1u8..8), prop_oneof![2 => Just(0u8), 3 => 1u8..16], prop_oneof![2 => Just(0u8), 3 => 1u8..5])
        .prop_map(|(chunks, reg, txs, pad)| NodeContent { chunks, reg, txs, pad })
}

pub fn case_strategy() -> BoxedStrategy<Case> {
    (proptest::collection::vec(content_strategy(), 2..=vh_core::depth(3, 4)), 2u8..=(vh_core::depth(4, 6) as u8), proptest::collection::vec(any::<u16>(), 0..vh_core::depth(60, 160)), prop_oneof![3 => Just(false), 1 => Just(true)], prop_oneof![5 => Just(false), 1 => Just(true)], prop_oneof![2 => Just(false), 1 => Just(true)])
        .prop_map(|(nodes, rounds, sched, stranger, far_known, ex_target)| Case { nodes, rounds, sched, stranger, far_known, ex_target })
        .boxed()
}

thread_local! {
    static REG_OPS: std::cell::RefCell<Option<Vec<RegisterOp>>> = const { std::cell::RefCell::new(None) };
}
fn reg_ops() -> Vec<RegisterOp> {
    REG_OPS.with(|c| c.borrow_mut().get_or_insert_with(|| fix::register_ops(OWNER, META, 3, &[OWNER])).clone())
}

struct Keys {
    chunks: Vec<(RecordKey, Vec<u8>)>,
    reg: RecordKey,
    tx: RecordKey,
    pad: RecordKey,
}

fn pad_of(counter: u8) -> Scratchpad {
    fix::scratchpad(OWNER + 1, 1, fix::pseudo_bytes(900 + counter as u64, 24), counter as u64, fix::Sig::Valid)
}

pub fn check(case: &Case, ctx: &mut Ctx) {
    let n = case.nodes.len();
    let seeds: Vec<u64> = (0..n as u64).map(|i| 300 + i).collect();
    let mut cl = Cluster::new(&seeds, None);
    let ops = reg_ops();
    let base = fix::register_base(OWNER, META, Some(vec![]));
    let keys = Keys {
        chunks: (0..4u64).map(|i| {
            let c = fix::chunk(700 + i, 30 + i as usize);
            let r = fix::chunk_record(&c);
            (r.key.clone(), r.value)
        }).collect(),
        reg: fix::register_key(OWNER, META),
        tx: fix::transaction_key(OWNER + 2),
        pad: fix::scratchpad_key(OWNER + 1),
    };
    // ---- initial contents, through the store's accepting path ------------------------------------
    for (i, c) in case.nodes.iter().enumerate() {
        for (j, (k, v)) in keys.chunks.iter().enumerate() {
            if c.chunks & (1 << j) != 0 {
                cl.seed_record(i, fix::record(k.clone(), v.clone()));
            }
        }
        if let Some(bits) = c.reg {
            let chosen: Vec<RegisterOp> = (0..3).filter(|b| bits & (1 << b) != 0).map(|b| ops[b].clone()).collect();
            cl.seed_record(i, fix::register_record(keys.reg.clone(), &fix::signed_register(&base, OWNER, chosen)));
        }
        if c.txs != 0 {
            let list: Vec<Transaction> = (0..4).filter(|b| c.txs & (1 << b) != 0).map(|b| fix::transaction(OWNER + 2, b as u64, true)).collect();
            cl.seed_record(i, fix::transactions_record(keys.tx.clone(), &list));
        }
        if c.pad != 0 {
            cl.seed_record(i, fix::scratchpad_record(&pad_of(c.pad)));
        }
    }
    // ---- expected converged state ----------------------------------------------------------------
    let chunk_union: u8 = case.nodes.iter().fold(0, |a, c| a | c.chunks);
    let reg_held: Vec<u8> = case.nodes.iter().filter_map(|c| c.reg).collect();
    let reg_union: Option<u8> = if reg_held.is_empty() { None } else { Some(reg_held.iter().fold(0, |a, b| a | b)) };
    let tx_union: u8 = case.nodes.iter().fold(0, |a, c| a | c.txs);
    let pad_max: u8 = case.nodes.iter().map(|c| c.pad).max().unwrap_or(0);
    let reg_diverged = reg_held.iter().collect::<BTreeSet<_>>().len() > 1;
    let tx_versions: BTreeSet<u8> = case.nodes.iter().map(|c| c.txs).filter(|t| *t != 0).collect();
    let pad_versions: BTreeSet<u8> = case.nodes.iter().map(|c| c.pad).filter(|t| *t != 0).collect();
    let mutable_diverged = reg_diverged || tx_versions.len() > 1 || pad_versions.len() > 1;
    let chunk_missing_somewhere = case.nodes.iter().any(|c| c.chunks != chunk_union);

    // ---- a replication list from a stranger / from the node itself must trigger nothing -----------
    if case.stranger {
        let missing: Vec<(NetworkAddress, RecordType)> = vec![(NetworkAddress::from_record_key(&RecordKey::new(&fix::h32("c09-bait", &[1]))), RecordType::Chunk), (NetworkAddress::from_record_key(&RecordKey::new(&fix::h32("c09-bait", &[2]))), RecordType::Chunk)];
        for holder in [fix::peer(999), cl.nodes[0].peer] {
            let d = &mut cl.nodes[0].driver;
            let list = missing.clone();
            cl.rt.block_on(async move { d.verif_on_replicate(NetworkAddress::from_peer(holder), list) });
            cl.run_tasks();
            cl.collect();
            let queued = cl.nodes[0].driver.verif_fetcher_to_be_fetched().len() + cl.nodes[0].driver.verif_fetcher_on_going().len();
            let fetch_event = cl.pending.iter().any(|a| matches!(a, Action::Event(_, ant_networking::NetworkEvent::KeysToFetchForReplication(_))));
            if queued > 0 || fetch_event {
                ctx.fail("replication_list_from_non_neighbour_acted_upon", format!("holder {} (self={}): {queued} entries queued, fetch event {fetch_event}", holder, holder == cl.nodes[0].peer));
            }
            cl.settle();
        }
    }

    // ---- a list from a peer the node knows, but which is not among its K closest -----------------
    if case.far_known {
        use sha2::{Digest, Sha256};
        let me = cl.nodes[0].peer;
        let dist = |p: &libp2p::PeerId| -> [u8; 32] {
            let a: [u8; 32] = Sha256::digest(me.to_bytes()).into();
            let b: [u8; 32] = Sha256::digest(p.to_bytes()).into();
            let mut x = [0u8; 32];
            for i in 0..32 {
                x[i] = a[i] ^ b[i];
            }
            x
        };
        let mut inserted: Vec<libp2p::PeerId> = vec![];
        for i in 0..28u64 {
            let p = fix::peer(400 + i);
            if cl.add_peer(0, p) {
                inserted.push(p);
            }
        }
        // the other cluster nodes are known as well
        let mut all: Vec<libp2p::PeerId> = inserted.clone();
        all.extend(cl.nodes.iter().skip(1).map(|n| n.peer));
        all.sort_by_key(|p| dist(p));
        if all.len() >= 21 {
            let far = *all.last().unwrap();
            let near = all[0];
            let bait = |n: u64| vec![(NetworkAddress::from_record_key(&RecordKey::new(&fix::h32("c09-bait-far", &[n]))), RecordType::Chunk)];
            for (holder, is_far) in [(far, true), (near, false)] {
                let d = &mut cl.nodes[0].driver;
                let list = bait(is_far as u64);
                cl.rt.block_on(async move { d.verif_on_replicate(NetworkAddress::from_peer(holder), list) });
                cl.run_tasks();
                cl.collect();
                let queued = cl.nodes[0].driver.verif_fetcher_to_be_fetched().len() + cl.nodes[0].driver.verif_fetcher_on_going().len();
                let fetch_event = cl.pending.iter().any(|a| matches!(a, Action::Event(_, ant_networking::NetworkEvent::KeysToFetchForReplication(_))));
                if is_far && (queued > 0 || fetch_event) {
                    ctx.fail("replication_list_from_known_but_distant_peer_acted_upon", format!("{} peers known; the sender is the farthest of them, yet {queued} entries queued / fetch event {fetch_event}", all.len()));
                }
                if !is_far {
                    ctx.label_if(queued > 0 || fetch_event, "list_from_close_peer_acted_upon");
                }
                // drop what the bait started so that the rounds below start clean
                let keys: Vec<_> = cl.nodes[0].driver.verif_fetcher_on_going().into_iter().chain(cl.nodes[0].driver.verif_fetcher_to_be_fetched()).collect();
                for (k, t, _) in keys {
                    let d = &mut cl.nodes[0].driver;
                    cl.rt.block_on(async move {
                        let _ = d.verif_handle_local_cmd(LocalSwarmCmd::FetchCompleted((k, t)));
                    });
                }
                cl.settle();
            }
            ctx.label("far_known_sender");
        }
        // restore the cluster topology: the extra peers leave the routing table again
        for p in &inserted {
            let d = &mut cl.nodes[0].driver;
            let p = *p;
            cl.rt.block_on(async move { d.verif_remove_peer(&p) });
        }
        cl.settle();
    }

    // ---- rounds of interval replication, generated delivery order ---------------------------------
    // "after enough rounds": the generated number of rounds runs first; after that rounds go on for as
    // long as they still change some node's store (at most 8 more), and convergence is judged at that
    // fixpoint — a round that changes nothing cannot be followed by one that does.
    let mut si = 0usize;
    let mut _round = 0usize;
    let mut before_round: Vec<BTreeMap<Vec<u8>, Vec<u8>>> = vec![];
    let mut extra_rounds = 0usize;
    loop {
        if _round >= case.rounds as usize {
            let now: Vec<BTreeMap<Vec<u8>, Vec<u8>>> = (0..n).map(|i| cl.snapshot(i)).collect();
            if now == before_round {
                break;
            }
            if _round >= case.rounds as usize + 8 {
                ctx.label("inconclusive_no_fixpoint_within_8_extra_rounds");
                return;
            }
            if _round > case.rounds as usize {
                extra_rounds += 1;
            }
        }
        before_round = (0..n).map(|i| cl.snapshot(i)).collect();
        _round += 1;
        let mut held_at_trigger: Vec<BTreeSet<Vec<u8>>> = vec![];
        let lists_before = cl.replicate_lists.len();
        for i in 0..n {
            held_at_trigger.push(cl.local_list(i).keys().map(|a| a.to_record_key().to_vec()).collect());
            let d = &mut cl.nodes[i].driver;
            cl.rt.block_on(async move {
                d.verif_reset_replication_throttle();
                let _ = d.verif_handle_local_cmd(LocalSwarmCmd::TriggerIntervalReplication);
            });
        }
        let sched = case.sched.clone();
        let s = &mut si;
        cl.settle_with(|pending| {
            let c = sched.get(*s).copied().unwrap_or(0);
            *s += 1;
            pick_idx(c, pending.len())
        });
        if cl.inconclusive {
            ctx.label("inconclusive_timeout");
            return;
        }
        if std::env::var_os("VERIF_DEBUG").is_some() {
            eprintln!("--- round {_round} wire:");
            for (f, t, w) in cl.wire.drain(..) {
                eprintln!("   {f} -> {t:?}: {}", vh_core::one_line(&w, 100));
            }
            for i in 0..n {
                let r = cl.local_get(i, &keys.reg).map(|r| {
                    let reg: SignedRegister = try_deserialize_record(&r).expect("reg");
                    (0..3).filter(|b| reg.ops().contains(&ops[*b])).fold(0u8, |a, b| a | (1 << b))
                });
                eprintln!("   node {i} register ops {r:?}");
            }
        }
        // a node advertises every record it holds to its replication targets (all neighbours here)
        for i in 0..n {
            if held_at_trigger[i].is_empty() {
                continue;
            }
            for j in 0..n {
                if i == j {
                    continue;
                }
                let sent: Vec<&(usize, usize, Vec<(NetworkAddress, RecordType)>)> = cl.replicate_lists[lists_before..].iter().filter(|(f, t, _)| *f == i && *t == j).collect();
                if sent.is_empty() {
                    ctx.fail("no_replication_list_sent_to_neighbour", format!("node {i} holds {} records but sent no list to node {j}", held_at_trigger[i].len()));
                    continue;
                }
                let advertised: BTreeSet<Vec<u8>> = sent.iter().flat_map(|(_, _, ks)| ks.iter().map(|(a, _)| a.to_record_key().to_vec())).collect();
                for k in &held_at_trigger[i] {
                    if !advertised.contains(k) {
                        ctx.fail("held_record_not_advertised", format!("node {i} -> node {j}: record {} missing from the list of {}", hex::encode(&k[..6]), advertised.len()));
                    }
                }
            }
        }
        if ctx.failed() {
            return;
        }
    }

    // ---- convergence -------------------------------------------------------------------------------
    let snaps: Vec<BTreeMap<Vec<u8>, Vec<u8>>> = (0..n).map(|i| cl.snapshot(i)).collect();
    for i in 0..n {
        for (j, (k, v)) in keys.chunks.iter().enumerate() {
            if chunk_union & (1 << j) != 0 {
                match snaps[i].get(&k.to_vec()) {
                    Some(got) if got == v => {}
                    Some(_) => ctx.fail("replicated_chunk_not_byte_identical", format!("node {i} chunk {j}")),
                    None => ctx.fail("held_chunk_not_replicated_to_neighbour", format!("node {i} lacks chunk {j} after {} rounds (held by a neighbour)", case.rounds)),
                }
            }
        }
        if let Some(want) = reg_union {
            match snaps[i].get(&keys.reg.to_vec()) {
                None => ctx.fail("held_register_not_replicated_to_neighbour", format!("node {i} lacks the register after {} rounds", case.rounds)),
                Some(v) => {
                    let r: SignedRegister = try_deserialize_record(&fix::record(keys.reg.clone(), v.clone())).expect("register decodes");
                    let have: u8 = (0..3).filter(|b| r.ops().contains(&ops[*b])).fold(0, |a, b| a | (1 << b));
                    if have != want {
                        ctx.fail("diverged_register_not_converged_by_replication", format!("node {i} holds ops {have:03b}, union over the neighbourhood is {want:03b} (initial {:?})", case.nodes.iter().map(|c| c.reg).collect::<Vec<_>>()));
                    }
                }
            }
        }
        if tx_union != 0 {
            match snaps[i].get(&keys.tx.to_vec()) {
                None => ctx.fail("held_transactions_not_replicated_to_neighbour", format!("node {i} lacks the transaction set after {} rounds", case.rounds)),
                Some(v) => {
                    let t: Vec<Transaction> = try_deserialize_record(&fix::record(keys.tx.clone(), v.clone())).expect("transactions decode");
                    let have: u8 = (0..4).filter(|b| t.contains(&fix::transaction(OWNER + 2, *b as u64, true))).fold(0, |a, b| a | (1 << b));
                    if have != tx_union {
                        ctx.fail("diverged_transaction_set_not_converged_by_replication", format!("node {i} holds {have:04b}, union {tx_union:04b} (initial {:?})", case.nodes.iter().map(|c| c.txs).collect::<Vec<_>>()));
                    }
                }
            }
        }
        if pad_max != 0 {
            match snaps[i].get(&keys.pad.to_vec()) {
                None => ctx.fail("held_scratchpad_not_replicated_to_neighbour", format!("node {i} lacks the scratchpad after {} rounds", case.rounds)),
                Some(v) => {
                    let p: Scratchpad = try_deserialize_record(&fix::record(keys.pad.clone(), v.clone())).expect("scratchpad decodes");
                    if p.count() != pad_max as u64 {
                        ctx.fail("diverged_scratchpad_not_converged_by_replication", format!("node {i} holds counter {}, highest in the neighbourhood is {pad_max} (initial {:?})", p.count(), case.nodes.iter().map(|c| c.pad).collect::<Vec<_>>()));
                    }
                }
            }
        }
    }
    // nothing but the seeded objects exists anywhere
    let known: BTreeSet<Vec<u8>> = keys.chunks.iter().map(|(k, _)| k.to_vec()).chain([keys.reg.to_vec(), keys.tx.to_vec(), keys.pad.to_vec()]).collect();
    for (i, s) in snaps.iter().enumerate() {
        for k in s.keys() {
            if !known.contains(k) {
                ctx.fail("unknown_record_appeared", format!("node {i}: {}", hex::encode(&k[..6])));
            }
        }
    }
    // ---- a former replication target that has left the routing table presents a list -------------
    if case.ex_target {
        let x = fix::peer(777);
        let holds_something = !cl.local_list(0).is_empty();
        if cl.add_peer(0, x) && holds_something {
            {
                let d = &mut cl.nodes[0].driver;
                cl.rt.block_on(async move {
                    d.verif_reset_replication_throttle();
                    let _ = d.verif_handle_local_cmd(LocalSwarmCmd::TriggerIntervalReplication);
                });
            }
            cl.settle();
            let sent_to_x = cl.wire.iter().any(|(from, to, what)| *from == 0 && to.is_none() && what.contains("Replicate"));
            {
                let d = &mut cl.nodes[0].driver;
                cl.rt.block_on(async move { d.verif_remove_peer(&x) });
            }
            cl.settle();
            let bait = vec![(NetworkAddress::from_record_key(&RecordKey::new(&fix::h32("c09-bait-ex", &[1]))), RecordType::Chunk), (NetworkAddress::from_record_key(&RecordKey::new(&fix::h32("c09-bait-ex", &[2]))), RecordType::Chunk)];
            let d = &mut cl.nodes[0].driver;
            cl.rt.block_on(async move { d.verif_on_replicate(NetworkAddress::from_peer(x), bait) });
            cl.run_tasks();
            cl.collect();
            let queued = cl.nodes[0].driver.verif_fetcher_to_be_fetched().iter().chain(cl.nodes[0].driver.verif_fetcher_on_going().iter()).filter(|(_, _, h)| *h == x).count();
            let fetch_event = cl.pending.iter().any(|a| matches!(a, Action::Event(_, ant_networking::NetworkEvent::KeysToFetchForReplication(ks)) if ks.iter().any(|(h, _)| *h == x)));
            if queued > 0 || fetch_event {
                ctx.fail("replication_list_from_former_neighbour_acted_upon", format!("the sender received this node's list (sent: {sent_to_x}), then left the routing table; its own list queued {queued} entries / fetch event {fetch_event}"));
            }
            ctx.label_if(sent_to_x, "former_replication_target_presents_a_list");
            cl.settle();
        }
    }
    ctx.label(format!("nodes_{n}"));
    ctx.label_if(extra_rounds > 0, "rounds_continued_until_fixpoint");
    ctx.label_if(mutable_diverged, "mutable_record_diverging");
    ctx.label_if(chunk_missing_somewhere, "immutable_record_missing_on_a_node");
    ctx.label_if(case.stranger, "stranger_list");
    ctx.nontrivial_if(mutable_diverged && chunk_missing_somewhere);
}


// ------------------------------------------------------------------------------------------------
// forced fetch: the rest of the replication pipeline behind the fetcher's "do I need this?" filter
// ------------------------------------------------------------------------------------------------

#[derive(Clone, Debug, Serialize, Deserialize)]
pub struct ForcedCase {
    pub a: NodeContent,
    pub b: NodeContent,
    /// which node fetches the other's copy of everything, in this order (false: a<-b, true: b<-a)
    pub fetches: Vec<bool>,
    pub sched: Vec<u16>,
}

pub fn forced_strategy() -> BoxedStrategy<ForcedCase> {
    (content_strategy(), content_strategy(), proptest::collection::vec(any::<bool>(), 2..6), proptest::collection::vec(any::<u16>(), 0..40))
        .prop_map(|(a, b, fetches, sched)| ForcedCase { a, b, fetches, sched })
        .boxed()
}

/// Both nodes are told (as the fetcher would tell them through KeysToFetchForReplication) to fetch the
/// neighbour's copy of every record the neighbour holds. After both directions have happened, the two
/// stores must hold the same merged register / transaction set and the highest scratchpad, and
/// byte-identical chunks.
pub fn check_forced(case: &ForcedCase, ctx: &mut Ctx) {
    let mut cl = Cluster::new(&[310, 311], None);
    let ops = reg_ops();
    let base = fix::register_base(OWNER, META, Some(vec![]));
    let reg_key = fix::register_key(OWNER, META);
    let tx_key = fix::transaction_key(OWNER + 2);
    let pad_key = fix::scratchpad_key(OWNER + 1);
    let chunks: Vec<(RecordKey, Vec<u8>)> = (0..4u64).map(|i| { let r = fix::chunk_record(&fix::chunk(700 + i, 30 + i as usize)); (r.key.clone(), r.value) }).collect();
    for (i, c) in [&case.a, &case.b].iter().enumerate() {
        for (j, (k, v)) in chunks.iter().enumerate() {
            if c.chunks & (1 << j) != 0 {
                cl.seed_record(i, fix::record(k.clone(), v.clone()));
            }
        }
        if let Some(bits) = c.reg {
            let chosen: Vec<RegisterOp> = (0..3).filter(|b| bits & (1 << b) != 0).map(|b| ops[b].clone()).collect();
            cl.seed_record(i, fix::register_record(reg_key.clone(), &fix::signed_register(&base, OWNER, chosen)));
        }
        if c.txs != 0 {
            let list: Vec<Transaction> = (0..4).filter(|b| c.txs & (1 << b) != 0).map(|b| fix::transaction(OWNER + 2, b as u64, true)).collect();
            cl.seed_record(i, fix::transactions_record(tx_key.clone(), &list));
        }
        if c.pad != 0 {
            cl.seed_record(i, fix::scratchpad_record(&pad_of(c.pad)));
        }
    }
    let mut dirs = case.fetches.clone();
    // make sure both directions happen, the second one last so that everything has been exchanged
    dirs.push(false);
    dirs.push(true);
    dirs.push(false);
    let mut si = 0usize;
    for d in dirs {
        let (to, from) = if d { (1usize, 0usize) } else { (0usize, 1usize) };
        let holder = cl.nodes[from].peer;
        let keys: Vec<(libp2p::PeerId, RecordKey)> = cl.local_list(from).keys().map(|a| (holder, a.to_record_key())).collect();
        if keys.is_empty() {
            continue;
        }
        cl.pending.push(Action::Event(to, ant_networking::NetworkEvent::KeysToFetchForReplication(keys)));
        let sched = case.sched.clone();
        let s = &mut si;
        cl.settle_with(|pending| {
            let c = sched.get(*s).copied().unwrap_or(0);
            *s += 1;
            pick_idx(c, pending.len())
        });
        if cl.inconclusive {
            ctx.label("inconclusive_timeout");
            return;
        }
    }
    let (sa, sb) = (cl.snapshot(0), cl.snapshot(1));
    let chunk_union = case.a.chunks | case.b.chunks;
    let reg_union = match (case.a.reg, case.b.reg) { (None, None) => None, (x, y) => Some(x.unwrap_or(0) | y.unwrap_or(0)) };
    let tx_union = case.a.txs | case.b.txs;
    let pad_max = case.a.pad.max(case.b.pad);
    for (n, s) in [(0, &sa), (1, &sb)] {
        for (j, (k, v)) in chunks.iter().enumerate() {
            if chunk_union & (1 << j) != 0 && s.get(&k.to_vec()) != Some(v) {
                ctx.fail("fetched_chunk_not_stored_byte_identically", format!("node {n} chunk {j}"));
            }
        }
        if let Some(want) = reg_union {
            match s.get(&reg_key.to_vec()) {
                None => ctx.fail("fetched_register_not_stored", format!("node {n}")),
                Some(v) => {
                    let r: SignedRegister = try_deserialize_record(&fix::record(reg_key.clone(), v.clone())).expect("register decodes");
                    let have: u8 = (0..3).filter(|b| r.ops().contains(&ops[*b])).fold(0, |a, b| a | (1 << b));
                    if have != want {
                        ctx.fail("fetched_register_version_not_merged", format!("node {n} holds ops {have:03b} after fetching the neighbour's copy, union is {want:03b} (initial {:?} / {:?})", case.a.reg, case.b.reg));
                    }
                }
            }
        }
        if tx_union != 0 {
            match s.get(&tx_key.to_vec()) {
                None => ctx.fail("fetched_transactions_not_stored", format!("node {n}")),
                Some(v) => {
                    let t: Vec<Transaction> = try_deserialize_record(&fix::record(tx_key.clone(), v.clone())).expect("transactions decode");
                    let have: u8 = (0..4).filter(|b| t.contains(&fix::transaction(OWNER + 2, *b as u64, true))).fold(0, |a, b| a | (1 << b));
                    if have != tx_union {
                        ctx.fail("fetched_transaction_set_not_merged", format!("node {n} holds {have:04b}, union {tx_union:04b}"));
                    }
                }
            }
        }
        if pad_max != 0 {
            match s.get(&pad_key.to_vec()) {
                None => ctx.fail("fetched_scratchpad_not_stored", format!("node {n}")),
                Some(v) => {
                    let p: Scratchpad = try_deserialize_record(&fix::record(pad_key.clone(), v.clone())).expect("scratchpad decodes");
                    if p.count() != pad_max as u64 {
                        ctx.fail("fetched_higher_scratchpad_not_applied", format!("node {n} holds counter {}, neighbour had {pad_max}", p.count()));
                    }
                }
            }
        }
    }
    let diverged = (case.a.reg.is_some() && case.b.reg.is_some() && case.a.reg != case.b.reg) || (case.a.txs != 0 && case.b.txs != 0 && case.a.txs != case.b.txs) || (case.a.pad != 0 && case.b.pad != 0 && case.a.pad != case.b.pad);
    let same_size_diverged = case.a.reg.zip(case.b.reg).map(|(x, y)| x != y && x.count_ones() == y.count_ones()).unwrap_or(false);
    ctx.label_if(diverged, "mutable_record_diverging");
    ctx.label_if(same_size_diverged, "registers_diverging_with_equal_op_count");
    ctx.nontrivial_if(diverged);
}


// ------------------------------------------------------------------------------------------------
// advertisement completeness when a responsible range is set
// ------------------------------------------------------------------------------------------------

#[derive(Clone, Debug, Serialize, Deserialize)]
pub struct RangeCase {
    pub content: NodeContent,
    /// responsible range of the advertising node = distance of one of its held records (monotone pick)
    pub range_at: u16,
    pub exact: bool,
}

fn range_strategy() -> BoxedStrategy<RangeCase> {
    (content_strategy(), any::<u16>(), any::<bool>()).prop_map(|(content, range_at, exact)| RangeCase { content, range_at, exact }).boxed()
}

/// "A node advertises every record it holds to its replication targets" — also the records that lie
/// beyond its own responsible range (those are exactly the ones a closer node should pull in).
fn check_range(case: &RangeCase, ctx: &mut Ctx) {
    use sha2::{Digest, Sha256};
    let mut cl = Cluster::new(&[320, 321], None);
    let ops = reg_ops();
    let base = fix::register_base(OWNER, META, Some(vec![]));
    let c = &case.content;
    for j in 0..4u64 {
        if c.chunks & (1 << j) != 0 {
            cl.seed_record(0, fix::chunk_record(&fix::chunk(700 + j, 30 + j as usize)));
        }
    }
    if let Some(bits) = c.reg {
        let chosen: Vec<RegisterOp> = (0..3).filter(|b| bits & (1 << b) != 0).map(|b| ops[b].clone()).collect();
        cl.seed_record(0, fix::register_record(fix::register_key(OWNER, META), &fix::signed_register(&base, OWNER, chosen)));
    }
    if c.txs != 0 {
        let list: Vec<Transaction> = (0..4).filter(|b| c.txs & (1 << b) != 0).map(|b| fix::transaction(OWNER + 2, b as u64, true)).collect();
        cl.seed_record(0, fix::transactions_record(fix::transaction_key(OWNER + 2), &list));
    }
    if c.pad != 0 {
        cl.seed_record(0, fix::scratchpad_record(&pad_of(c.pad)));
    }
    let held: BTreeSet<Vec<u8>> = cl.local_list(0).keys().map(|a| a.to_record_key().to_vec()).collect();
    if held.is_empty() {
        ctx.label("nothing_held");
        return;
    }
    // distances of the held records from node 0 (harness metric)
    let me: [u8; 32] = Sha256::digest(cl.nodes[0].peer.to_bytes()).into();
    let mut dists: Vec<U256> = held
        .iter()
        .map(|k| {
            let h: [u8; 32] = Sha256::digest(k).into();
            let mut x = [0u8; 32];
            for i in 0..32 {
                x[i] = me[i] ^ h[i];
            }
            U256::from_be_bytes(x)
        })
        .collect();
    dists.sort();
    let at = dists[pick_idx(case.range_at, dists.len())];
    let range = if case.exact { at } else { at.saturating_sub(U256::from(1u8)) };
    let outside = dists.iter().filter(|d| **d > range).count();
    {
        let d = &mut cl.nodes[0].driver;
        cl.rt.block_on(async move {
            d.verif_set_distance_range(range);
            d.verif_reset_replication_throttle();
            let _ = d.verif_handle_local_cmd(LocalSwarmCmd::TriggerIntervalReplication);
        });
    }
    cl.settle();
    let sent: Vec<&(usize, usize, Vec<(NetworkAddress, RecordType)>)> = cl.replicate_lists.iter().filter(|(f, t, _)| *f == 0 && *t == 1).collect();
    ctx.label_if(outside > 0, "holds_records_beyond_its_range");
    ctx.nontrivial_if(outside > 0);
    if sent.is_empty() {
        ctx.fail("no_replication_list_sent_to_neighbour", format!("node 0 holds {} records (range set), no list reached node 1", held.len()));
        return;
    }
    let advertised: BTreeSet<Vec<u8>> = sent.iter().flat_map(|(_, _, ks)| ks.iter().map(|(a, _)| a.to_record_key().to_vec())).collect();
    let missing: Vec<String> = held.difference(&advertised).map(|k| hex::encode(&k[..6])).collect();
    if !missing.is_empty() {
        ctx.fail("held_record_beyond_range_not_advertised", format!("node 0 holds {} records, {outside} of them beyond its responsible range; not advertised: {missing:?}", held.len()));
    }
}



// ------------------------------------------------------------------------------------------------
// section advert_fanout: "a node advertises every record it holds to its replication targets" — to ALL
// of them, also when more peers than a close group has members lie within its responsible range.
// One real node, a routing table of 6..16 further peers, a range reaching the r-th closest of them.
// ------------------------------------------------------------------------------------------------

#[derive(Clone, Debug, Serialize, Deserialize)]
pub struct FanoutCase {
    pub peers: u8,
    /// the responsible range reaches exactly the peer of this closeness rank (monotone pick)
    pub rank: u16,
    pub records: u8,
    pub seed: u8,
}

pub fn fanout_strategy() -> BoxedStrategy<FanoutCase> {
    (6u8..=16, any::<u16>(), 1u8..4, any::<u8>()).prop_map(|(peers, rank, records, seed)| FanoutCase { peers, rank, records, seed }).boxed()
}

pub fn check_fanout(case: &FanoutCase, ctx: &mut Ctx) {
    use sha2::{Digest, Sha256};
    let mut cl = Cluster::new(&[360], None);
    let me: [u8; 32] = Sha256::digest(cl.nodes[0].peer.to_bytes()).into();
    let dist = |bytes: &[u8]| -> U256 {
        let h: [u8; 32] = Sha256::digest(bytes).into();
        let mut x = [0u8; 32];
        for i in 0..32 {
            x[i] = me[i] ^ h[i];
        }
        U256::from_be_bytes(x)
    };
    let mut known: Vec<(U256, PeerId)> = vec![];
    for i in 0..case.peers as u64 {
        let p = fix::peer(5000 + case.seed as u64 * 64 + i);
        if cl.add_peer(0, p) {
            known.push((dist(&p.to_bytes()), p));
        }
    }
    known.sort();
    if known.len() < 6 {
        ctx.label("routing_table_took_fewer_than_six_peers");
        return;
    }
    for j in 0..case.records as u64 {
        cl.seed_record(0, fix::chunk_record(&fix::chunk(7700 + case.seed as u64 * 8 + j, 24 + j as usize)));
    }
    let held: BTreeSet<Vec<u8>> = cl.local_list(0).keys().map(|a| a.to_record_key().to_vec()).collect();
    // the range reaches the peer of rank r (r >= 5: at least a close group lies within it)
    let r = 4 + pick_idx(case.rank, known.len() - 4);
    let range = known[r].0;
    let want: Vec<PeerId> = known.iter().filter(|(d, _)| *d <= range).map(|(_, p)| *p).collect();
    {
        let d = &mut cl.nodes[0].driver;
        cl.rt.block_on(async move {
            d.verif_set_distance_range(range);
            d.verif_reset_replication_throttle();
            let _ = d.verif_handle_local_cmd(LocalSwarmCmd::TriggerIntervalReplication);
        });
    }
    cl.settle();
    let got: BTreeSet<PeerId> = cl.replicate_to_strangers.iter().filter(|(f, _, _)| *f == 0).map(|(_, p, _)| *p).collect();
    ctx.label_if(want.len() > 5, "more_peers_in_range_than_a_close_group_has_members");
    ctx.label(format!("peers_in_range_{}", want.len().min(12)));
    ctx.nontrivial_if(want.len() > 5);
    ctx.canon = Some(format!("{case:?}"));
    let missed: Vec<usize> = want.iter().enumerate().filter(|(_, p)| !got.contains(*p)).map(|(i, _)| i).collect();
    if !missed.is_empty() {
        ctx.fail(
            "in_range_neighbour_received_no_replication_list",
            format!("{} routing-table peers lie within the node's responsible range (ranks 0..{}); no list went to the peers of closeness rank {missed:?} ({} lists sent)", want.len(), want.len() - 1, got.len()),
        );
        return;
    }
    for (_, p, keys) in cl.replicate_to_strangers.iter().filter(|(f, p, _)| *f == 0 && want.contains(p)) {
        let advertised: BTreeSet<Vec<u8>> = keys.iter().map(|(a, _)| a.to_record_key().to_vec()).collect();
        if !held.is_subset(&advertised) {
            ctx.fail("held_record_not_advertised_to_an_in_range_neighbour", format!("the list for {p:?} carries {} of the {} held records", advertised.len(), held.len()));
            return;
        }
    }
}

// ------------------------------------------------------------------------------------------------
// section full_node: a node whose store is FULL still converges on the mutable records it holds —
// including the one that is its farthest record, which sits exactly on the bound the replication
// fetcher applies once the store has refused a record with MaxRecords.
// ------------------------------------------------------------------------------------------------

#[derive(Clone, Debug, Serialize, Deserialize)]
pub struct FullCase {
    /// chunks node 0 holds besides the mutable record (store capacity = this + 1)
    pub chunks: u8,
    /// false: register, true: transaction set
    pub tx: bool,
    /// versions held by node 0 / node 1 (bit sets over 3 ops / 4 transactions, non-zero)
    pub v0: u8,
    pub v1: u8,
    /// the mutable record is node 0's farthest record (otherwise one chunk lies beyond it)
    pub mutable_is_farthest: bool,
    pub rounds: u8,
    pub sched: Vec<u16>,
}

fn full_strategy() -> BoxedStrategy<FullCase> {
    (1u8..5, any::<bool>(), 1u8..8, 1u8..8, prop_oneof![3 => Just(true), 1 => Just(false)], 2u8..4, proptest::collection::vec(any::<u16>(), 0..40))
        .prop_map(|(chunks, tx, v0, v1, mutable_is_farthest, rounds, sched)| FullCase { chunks, tx, v0, v1, mutable_is_farthest, rounds, sched })
        .boxed()
}

fn check_full(case: &FullCase, ctx: &mut Ctx) {
    let cap = case.chunks as usize + 1;
    let mut cl = Cluster::new(&[300, 301], Some((cap, 25)));
    let me = NetworkAddress::from_peer(cl.nodes[0].peer);
    let ops = reg_ops();
    let base = fix::register_base(OWNER, META, Some(vec![]));
    let mkey = if case.tx { fix::transaction_key(OWNER + 2) } else { fix::register_key(OWNER, META) };
    let version = |bits: u8| -> libp2p::kad::Record {
        if case.tx {
            let list: Vec<Transaction> = (0..3).filter(|b| bits & (1 << b) != 0).map(|b| fix::transaction(OWNER + 2, b as u64, true)).collect();
            fix::transactions_record(mkey.clone(), &list)
        } else {
            let chosen: Vec<RegisterOp> = (0..3).filter(|b| bits & (1 << b) != 0).map(|b| ops[b].clone()).collect();
            fix::register_record(mkey.clone(), &fix::signed_register(&base, OWNER, chosen))
        }
    };
    let d_mut = me.distance(&NetworkAddress::from_record_key(&mkey));
    // chunks closer than the mutable record, and chunks beyond it
    let (mut closer, mut beyond): (Vec<libp2p::kad::Record>, Vec<libp2p::kad::Record>) = (vec![], vec![]);
    for i in 0..200u64 {
        let r = fix::chunk_record(&fix::chunk(5000 + i, 24));
        if me.distance(&NetworkAddress::from_record_key(&r.key)) < d_mut {
            closer.push(r);
        } else {
            beyond.push(r);
        }
    }
    beyond.sort_by_key(|r| me.distance(&NetworkAddress::from_record_key(&r.key)));
    let want_closer = if case.mutable_is_farthest { case.chunks as usize } else { case.chunks as usize - 1 };
    if closer.len() < want_closer || beyond.len() < 2 {
        ctx.label("inconclusive_precondition/not_enough_chunks_on_one_side_of_the_mutable_record");
        return;
    }
    // fill node 0 to capacity
    cl.seed_record(0, version(case.v0 & 7 | 1));
    for r in closer.iter().take(want_closer) {
        cl.seed_record(0, r.clone());
    }
    if !case.mutable_is_farthest {
        cl.seed_record(0, beyond[0].clone());
    }
    if cl.local_list(0).len() != cap {
        ctx.precondition_failed("full_node_not_filled", format!("{} of {cap} records listed", cl.local_list(0).len()));
        return;
    }
    // the refusal that tells the fetcher where the store's farthest record lies
    {
        let far = beyond[beyond.len() - 1].clone();
        let d = &mut cl.nodes[0].driver;
        cl.rt.block_on(async move {
            let _ = d.verif_handle_local_cmd(LocalSwarmCmd::PutLocalRecord { record: far });
        });
        cl.settle();
    }
    if cl.local_list(0).len() != cap || cl.local_get(0, &beyond[beyond.len() - 1].key).is_some() {
        ctx.precondition_failed("farther_record_not_refused_by_the_full_store", String::new());
        return;
    }
    // the neighbour holds another version of the mutable record
    cl.seed_record(1, version(case.v1 & 7 | 2));
    let (b0, b1) = (case.v0 & 7 | 1, case.v1 & 7 | 2);
    let union = b0 | b1;
    let mut si = 0usize;
    for _ in 0..case.rounds {
        for i in 0..2 {
            let d = &mut cl.nodes[i].driver;
            cl.rt.block_on(async move {
                d.verif_reset_replication_throttle();
                let _ = d.verif_handle_local_cmd(LocalSwarmCmd::TriggerIntervalReplication);
            });
        }
        let sched = case.sched.clone();
        let s = &mut si;
        cl.settle_with(|pending| {
            let c = sched.get(*s).copied().unwrap_or(0);
            *s += 1;
            pick_idx(c, pending.len())
        });
        if cl.inconclusive {
            ctx.label("inconclusive_timeout");
            return;
        }
    }
    let held = cl.local_get(0, &mkey);
    let have: Option<u8> = held.as_ref().map(|r| {
        if case.tx {
            let t: Vec<Transaction> = try_deserialize_record(r).unwrap_or_default();
            (0..3).filter(|b| t.contains(&fix::transaction(OWNER + 2, *b as u64, true))).fold(0, |a, b| a | (1 << b))
        } else {
            match try_deserialize_record::<SignedRegister>(r) {
                Ok(reg) => (0..3).filter(|b| reg.ops().contains(&ops[*b])).fold(0, |a, b| a | (1 << b)),
                Err(_) => 0,
            }
        }
    });
    ctx.label(if case.tx { "transaction_set" } else { "register" });
    ctx.label_if(case.mutable_is_farthest, "mutable_record_is_the_farthest_held");
    ctx.label_if(b0 != b1, "versions_differ");
    ctx.nontrivial_if(b0 != b1 && case.mutable_is_farthest);
    if b0 != b1 && have != Some(union) {
        ctx.fail(
            if case.tx { "diverged_transaction_set_on_full_node_not_converged" } else { "diverged_register_on_full_node_not_converged" },
            format!("node 0 is full ({cap} records, the mutable record is {}its farthest); it held version {b0:03b}, the neighbour {b1:03b}; after {} rounds node 0 holds {have:?}, union {union:03b}", if case.mutable_is_farthest { "" } else { "not " }, case.rounds),
        );
    }
    if cl.local_list(0).len() > cap {
        ctx.label("observation:full_node_over_capacity_after_update");
    }
}

// ------------------------------------------------------------------------------------------------
// section large_register: neighbours holding large, mostly overlapping versions of one register
// ------------------------------------------------------------------------------------------------

#[derive(Clone, Debug, Serialize, Deserialize)]
pub struct LargeRegCase {
    /// node 0 holds ops[0..a], node 1 holds ops[from..to] of a pool of 720 (open register): both are large,
    /// their sizes add up to more than the 1024-entry limit while their union stays far below it
    pub a: u16,
    pub from: u16,
    pub to: u16,
    pub sched: Vec<u16>,
}

fn large_reg_strategy() -> BoxedStrategy<LargeRegCase> {
    (520u16..=700, 0u16..=40, 0u16..=20, proptest::collection::vec(any::<u16>(), 0..30))
        .prop_map(|(a, from, ahead, sched)| LargeRegCase { a, from, to: (a + ahead).min(720), sched })
        .boxed()
}

fn large_pool() -> &'static Vec<RegisterOp> {
    static POOL: std::sync::OnceLock<Vec<RegisterOp>> = std::sync::OnceLock::new();
    POOL.get_or_init(|| fix::register_ops(OWNER + 7, META + 1, 720, &[OWNER + 7]))
}

fn check_large_reg(case: &LargeRegCase, ctx: &mut Ctx) {
    let pool = large_pool();
    let base = fix::register_base(OWNER + 7, META + 1, None);
    let key = fix::register_key(OWNER + 7, META + 1);
    let (a, from, to) = (case.a as usize, case.from as usize, (case.to as usize).max(case.from as usize + 1));
    let mut cl = Cluster::new(&[300, 301], None);
    cl.seed_record(0, fix::register_record(key.clone(), &fix::signed_register(&base, OWNER + 7, pool[0..a].to_vec())));
    cl.seed_record(1, fix::register_record(key.clone(), &fix::signed_register(&base, OWNER + 7, pool[from..to].to_vec())));
    let union_len = to.max(a);
    let ops_of = |cl: &mut Cluster, i: usize| -> Option<std::collections::BTreeSet<RegisterOp>> {
        cl.local_get(i, &key).and_then(|r| try_deserialize_record::<SignedRegister>(&r).ok()).map(|r| r.ops().clone())
    };
    let mut si = 0usize;
    let mut before: Vec<BTreeMap<Vec<u8>, Vec<u8>>> = vec![];
    for round in 0..8 {
        let now: Vec<BTreeMap<Vec<u8>, Vec<u8>>> = (0..2).map(|i| cl.snapshot(i)).collect();
        if round >= 2 && now == before {
            break;
        }
        before = now;
        for i in 0..2 {
            let d = &mut cl.nodes[i].driver;
            cl.rt.block_on(async move {
                d.verif_reset_replication_throttle();
                let _ = d.verif_handle_local_cmd(LocalSwarmCmd::TriggerIntervalReplication);
            });
        }
        let sched = case.sched.clone();
        let s = &mut si;
        cl.settle_with(|pending| {
            let c = sched.get(*s).copied().unwrap_or(0);
            *s += 1;
            pick_idx(c, pending.len())
        });
        if cl.inconclusive {
            ctx.label("inconclusive_timeout");
            return;
        }
    }
    let want: std::collections::BTreeSet<RegisterOp> = pool[0..a].iter().chain(pool[from..to].iter()).cloned().collect();
    debug_assert_eq!(want.len(), union_len);
    ctx.label_if(a + (to - from) > 1024, "sizes_add_up_beyond_the_entry_limit");
    ctx.nontrivial_if(a + (to - from) > 1024 && want.len() > a.max(to - from));
    for i in 0..2 {
        match ops_of(&mut cl, i) {
            None => ctx.fail("held_register_not_replicated_to_neighbour", format!("node {i} lost the register")),
            Some(have) => {
                if have != want {
                    ctx.fail(
                        "diverged_large_register_not_converged_by_replication",
                        format!("node {i} holds {} entries, the union of both neighbours' versions has {} (node 0 started with {a}, node 1 with {}; limit 1024)", have.len(), want.len(), to - from),
                    );
                }
            }
        }
    }
}

// ------------------------------------------------------------------------------------------------
// section refetch_after_failed_write: "any record a node has accepted and stored is accepted by an
// honest in-range neighbour with spare capacity when fetched through replication" — also when the
// neighbour's FIRST attempt to write the fetched copy failed on disk (a transient fault): once the disk
// works again, further rounds must leave the neighbour holding the record.
// ------------------------------------------------------------------------------------------------

#[derive(Clone, Debug, Serialize, Deserialize)]
pub struct RefetchCase {
    /// 0 chunk, 1 register, 2 transaction set, 3 scratchpad
    pub kind: u8,
    /// replication rounds while the neighbour's write of that record fails
    pub blocked_rounds: u8,
    /// node 0 holds two further chunks (replicated without any fault)
    pub bystanders: bool,
    pub sched: Vec<u16>,
}

fn refetch_strategy() -> BoxedStrategy<RefetchCase> {
    (0u8..4, 1u8..3, any::<bool>(), proptest::collection::vec(any::<u16>(), 0..30)).prop_map(|(kind, blocked_rounds, bystanders, sched)| RefetchCase { kind, blocked_rounds, bystanders, sched }).boxed()
}

fn check_refetch(case: &RefetchCase, ctx: &mut Ctx) {
    let mut cl = Cluster::new(&[340, 341], None);
    let rec = match case.kind {
        0 => fix::chunk_record(&fix::chunk(760, 40)),
        1 => fix::register_record(fix::register_key(OWNER, META), &fix::signed_register(&fix::register_base(OWNER, META, Some(vec![])), OWNER, reg_ops()[0..2].to_vec())),
        2 => fix::transactions_record(fix::transaction_key(OWNER + 2), &vec![fix::transaction(OWNER + 2, 0, true), fix::transaction(OWNER + 2, 1, true)]),
        _ => fix::scratchpad_record(&pad_of(3)),
    };
    let key = rec.key.clone();
    let value = rec.value.clone();
    cl.seed_record(0, rec);
    if case.bystanders {
        cl.seed_record(0, fix::chunk_record(&fix::chunk(761, 41)));
        cl.seed_record(0, fix::chunk_record(&fix::chunk(762, 42)));
    }
    // the neighbour's write of exactly that record fails: its file path is occupied by a directory
    let path = cl.nodes[1].dir.path().join("record_store").join(hex::encode(key.as_ref()));
    if !path.parent().map(|p| p.is_dir()).unwrap_or(false) || std::fs::create_dir(&path).is_err() {
        ctx.label("fault_could_not_be_injected");
        return;
    }
    let mut si = 0usize;
    let mut round = |cl: &mut Cluster, si: &mut usize| {
        for i in 0..2 {
            let d = &mut cl.nodes[i].driver;
            cl.rt.block_on(async move {
                d.verif_reset_replication_throttle();
                let _ = d.verif_handle_local_cmd(LocalSwarmCmd::TriggerIntervalReplication);
            });
        }
        let sched = case.sched.clone();
        cl.settle_with(|pending| {
            let c = sched.get(*si).copied().unwrap_or(0);
            *si += 1;
            pick_idx(c, pending.len())
        });
    };
    for _ in 0..case.blocked_rounds {
        round(&mut cl, &mut si);
        if cl.inconclusive {
            ctx.label("inconclusive_timeout");
            return;
        }
    }
    let fetched_while_blocked = cl.wire.iter().any(|(from, to, what)| *from == 1 && *to == Some(0) && what.contains("GetReplicatedRecord"));
    ctx.label_if(fetched_while_blocked, "fetch_attempted_while_the_write_fails");
    let held_while_blocked = cl.local_has(1, &key);
    // the disk works again
    let _ = std::fs::remove_dir(&path);
    let mut rounds_after = 0;
    for _ in 0..4 {
        round(&mut cl, &mut si);
        rounds_after += 1;
        if cl.inconclusive {
            ctx.label("inconclusive_timeout");
            return;
        }
        if cl.local_has(1, &key) && cl.local_get(1, &key).is_some() {
            break;
        }
    }
    ctx.label(format!("kind_{}", ["chunk", "register", "transactions", "scratchpad"][case.kind as usize % 4]));
    ctx.label(format!("rounds_after_recovery_{rounds_after}"));
    ctx.nontrivial_if(fetched_while_blocked && !held_while_blocked);
    if !fetched_while_blocked {
        // nothing was fetched during the fault: the case degenerates to plain replication
        ctx.label("no_fetch_during_the_fault");
    }
    let listed = cl.local_has(1, &key);
    let got = cl.local_get(1, &key).map(|r| r.value);
    if !listed || got.is_none() {
        ctx.fail(
            "record_not_held_by_neighbour_after_its_disk_recovered",
            format!("{} held by node 0; node 1's first write of the fetched copy failed ({} round(s)); after {rounds_after} further rounds with a working disk node 1 lists it: {listed}, can read it: {}", ["chunk", "register", "transaction set", "scratchpad"][case.kind as usize % 4], case.blocked_rounds, got.is_some()),
        );
        return;
    }
    if got.as_ref() != Some(&value) {
        ctx.fail("refetched_record_differs_from_the_holders_copy", format!("kind {}", case.kind));
    }
    if case.bystanders {
        for c in [761u64, 762] {
            let r = fix::chunk_record(&fix::chunk(c, (c - 720) as usize));
            if cl.local_get(1, &r.key).map(|x| x.value) != Some(r.value) {
                ctx.precondition_failed("bystander_chunk_not_replicated", format!("chunk {c}"));
            }
        }
    }
}

pub fn run(cfg: RunCfg) {
    let mut rep = Report::new(cfg, "exploration");
    rep.rule = "C09: 2-3 real nodes (each other's closest peers, spare capacity, unrestricted range) with generated initial contents (4 chunks, a register with op subsets, a transaction set, a scratchpad with counters; missing / diverging), 2-4 rounds of interval replication on every node, every message delivered in a generated order; the harness is the transport.".into();
    rep.assumptions = vec![
        "'after enough rounds' is checked as: after 2-4 rounds in which every node triggers replication and every exchange completes".into(),
        "initial contents are seeded through the store's local put path with valid records only".into(),
        "libp2p request/response framing is replaced by the harness transport; fetch requests reach the holder's real handle_query".into(),
    ];
    vh_core::section!(
        rep, "cluster", (1_200, 40_000), 16,
        "non-trivial: >=1 mutable record diverging between two nodes and >=1 immutable record missing on one; distinct by whole case",
        case_strategy, check
    );
    vh_core::section!(
        rep, "advert_with_range", (600, 20_000), 16,
        "a node with a responsible range set (at / just below the distance of one of its held records) triggers replication: the list must carry every held record; non-trivial: some held record lies beyond the range",
        range_strategy, check_range
    );
    vh_core::section!(
        rep, "advert_fanout", (600, 20_000), 16,
        "one node with 6-16 routing-table peers and a responsible range reaching the r-th closest of them (r >= 5) triggers replication: every peer within the range (independent SHA-256/XOR metric) gets a list carrying every held record. non-trivial: more than 5 peers in range",
        fanout_strategy, check_fanout
    );
    vh_core::section!(
        rep, "forced_fetch", (800, 30_000), 16,
        "two nodes with generated (diverging) contents are told to fetch each other's copies (the event the fetcher emits), in a generated order and message schedule; non-trivial: a mutable record diverges",
        forced_strategy, check_forced
    );
    vh_core::section!(
        rep, "full_node", (500, 8_000), 16,
        "node 0 filled to its capacity (2..5 records) with a register / transaction set and chunks placed closer to it (or one beyond it), a farther record refused with MaxRecords, the neighbour holding another version of the mutable record; 2..3 replication rounds in generated delivery order. non-trivial: versions differ and the mutable record is node 0's farthest",
        full_strategy, check_full
    );
    vh_core::section!(
        rep, "refetch_after_failed_write", (400, 8_000), 16,
        "node 0 holds a record (chunk / register / transaction set / scratchpad); node 1's write of the fetched copy fails during the first 1..2 replication rounds (its file path is occupied), then the disk works again and up to 4 further rounds run in generated delivery order; node 1 must end up listing and serving the record byte-identically. non-trivial: a fetch was attempted during the fault and left nothing held",
        refetch_strategy, check_refetch
    );
    vh_core::section!(
        rep, "large_register", (12, 400), 12,
        "two neighbours hold large versions (520-700 entries each, differing by a few entries at either end) of one open register: sizes add up beyond the 1024-entry limit, the union does not; rounds to the fixpoint; both must hold the union",
        large_reg_strategy, check_large_reg
    );
    vh_core::fuzz_section!(rep, "cluster", case_strategy, check, "sec_node", "node", 2_500, 400, 12);
    vh_core::fuzz_section!(rep, "forced_fetch", forced_strategy, check_forced, "sec_node", "node", 3_000, 240, 8);
    vh_core::fuzz_section!(rep, "advert_fanout", fanout_strategy, check_fanout, "sec_node", "node", 20_000, 200, 6);
    rep.finish();
}
