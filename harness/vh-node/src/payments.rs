//! Payment quotes and proofs with full control over every field.

#![allow(dead_code)]

use ant_evm::{EncodedPeerId, PaymentQuote, ProofOfPayment, QuotingMetrics, RewardsAddress};
use libp2p::identity::Keypair;
use libp2p::PeerId;
use std::time::{Duration, SystemTime};
use vh_fix as fix;
use xor_name::XorName;

pub fn metrics(seed: u64) -> QuotingMetrics {
    QuotingMetrics {
        close_records_stored: (seed % 50) as usize,
        max_records: 16 * 1024,
        received_payment_count: (seed % 7) as usize,
        live_time: seed % 1000,
        network_density: if seed % 2 == 0 { None } else { Some(fix::h32("density", &[seed])) },
        network_size: Some(1000 + seed),
    }
}

/// age_secs > 0: in the past; < 0: in the future
pub fn timestamp(age_secs: i64) -> SystemTime {
    let now = SystemTime::now();
    if age_secs >= 0 {
        now - Duration::from_secs(age_secs as u64)
    } else {
        now + Duration::from_secs((-age_secs) as u64)
    }
}

/// A quote for `content` signed by `signer`.
pub fn quote(signer: &Keypair, content: XorName, age_secs: i64, seed: u64) -> PaymentQuote {
    let ts = timestamp(age_secs);
    let qm = metrics(seed);
    let rewards = RewardsAddress::from_slice(&fix::h32("quote-rewards", &[seed])[..20]);
    let bytes = PaymentQuote::bytes_for_signing(content, ts, &qm, &rewards);
    PaymentQuote {
        content,
        timestamp: ts,
        quoting_metrics: qm,
        rewards_address: rewards,
        pub_key: signer.public().encode_protobuf(),
        signature: signer.sign(&bytes).expect("sign"),
    }
}

pub fn proof(entries: Vec<(PeerId, PaymentQuote)>) -> ProofOfPayment {
    ProofOfPayment { peer_quotes: entries.into_iter().map(|(p, q)| (EncodedPeerId::from(p), q)).collect() }
}
