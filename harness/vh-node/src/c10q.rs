//! Section `issued_quote` (run under C03 and, as a child of vh-store, under C10): the quote a node
//! REALLY issues — `Query::GetStoreQuote` through the node's own query handler — instead of a quote
//! the harness fabricates with the node's key.
//!
//! One node with a generated capacity, a generated set of held records, a generated responsible
//! range. A history of 1..4 client interactions, each: ask the node for a quote (for the address that
//! is then uploaded, or for another one), build a proof of payment around the quote that came back
//! (or around a quote the node issued in an EARLIER step), set the contract's verdict, upload.
//!
//! * C10 side ("the figures a node signs into a quote ... equal the true values"): every issued quote
//!   carries max_records = configured capacity, close_records_stored = number of held records inside
//!   the responsible range (all held records when no range is set; a record at exactly the range is an
//!   either-zone), received_payment_count = number of uploads whose payment the node has verified so
//!   far — counted by the harness from the history, so the whole path "payment verified -> node
//!   notifies the driver -> store counts -> next quote" is under the oracle.
//! * C03 side ("this node's quote was issued for the address being stored", "confirmed by the payment
//!   contract"): new data is stored only if the node's quote in the proof was issued for exactly the
//!   uploaded address and the contract confirms it.
//!
//! "An honest quote verifies / a valid paid upload is stored" are harness preconditions (inconclusive).

use crate::c03::{build_proof, payload, Case, EFault, KFault, Kind, Rpc, SFault};
use crate::sim::*;
use ant_evm::PaymentQuote;
use ant_networking::{MsgResponder, NetworkEvent};
use ant_protocol::messages::{Query, QueryResponse, Response};
use ant_protocol::NetworkAddress;
use proptest::prelude::*;
use serde::{Deserialize, Serialize};
use sha2::{Digest, Sha256};
use std::collections::BTreeMap;
use std::sync::atomic::{AtomicU8, Ordering};
use tokio::sync::oneshot;
use vh_core::{pick_idx, Ctx, Report, RunCfg};
use vh_fix as fix;

/// which property's failures count in this process: 3 = C03 (payment side), 10 = C10 (figures)
static SIDE: AtomicU8 = AtomicU8::new(3);

#[derive(Clone, Copy, Debug, Serialize, Deserialize, PartialEq, Eq, Hash)]
pub enum RangeSel {
    None,
    /// exactly the distance of the held record of this rank
    AtHeld(u16),
    /// one below the distance of the held record of this rank
    BelowHeld(u16),
    /// one above
    AboveHeld(u16),
    Max,
    Zero,
}

#[derive(Clone, Copy, Debug, Serialize, Deserialize, PartialEq, Eq, Hash)]
pub enum QuoteUse {
    /// the quote just issued for the uploaded address
    Fresh,
    /// a quote just issued by the node, but asked for ANOTHER address
    FreshForOtherAddress,
    /// the quote the node issued in the first step (for that step's address)
    FirstStep,
}

#[derive(Clone, Debug, Serialize, Deserialize)]
pub struct QStep {
    pub kind: Kind,
    pub seed: u8,
    pub quote: QuoteUse,
    /// contract verdict on this node's quote (the co-payees' quotes are always confirmed)
    pub paid: bool,
    /// the range changes before this step
    pub new_range: Option<RangeSel>,
    /// a record unrelated to any upload is put before this step (replication traffic)
    pub extra_put: bool,
}

#[derive(Clone, Debug, Serialize, Deserialize)]
pub struct QCase {
    pub cap: u8,
    /// chunks held before the first step
    pub held: u8,
    pub range: RangeSel,
    pub steps: Vec<QStep>,
}

pub fn strategy() -> BoxedStrategy<QCase> {
    let range = || {
        prop_oneof![
            3 => Just(RangeSel::None),
            3 => any::<u16>().prop_map(RangeSel::AtHeld),
            2 => any::<u16>().prop_map(RangeSel::BelowHeld),
            2 => any::<u16>().prop_map(RangeSel::AboveHeld),
            1 => Just(RangeSel::Max),
            1 => Just(RangeSel::Zero),
        ]
    };
    let kind = prop_oneof![3 => Just(Kind::Chunk), 2 => Just(Kind::Pad), 1 => Just(Kind::Tx), 1 => Just(Kind::Reg)];
    let step = (
        kind,
        any::<u8>(),
        prop_oneof![5 => Just(QuoteUse::Fresh), 2 => Just(QuoteUse::FreshForOtherAddress), 2 => Just(QuoteUse::FirstStep)],
        prop_oneof![4 => Just(true), 1 => Just(false)],
        prop_oneof![3 => Just(None), 1 => range().prop_map(Some)],
        prop_oneof![3 => Just(false), 1 => Just(true)],
    )
        .prop_map(|(kind, seed, quote, paid, new_range, extra_put)| QStep { kind, seed, quote, paid, new_range, extra_put });
    (0u8..8, 0u8..7, range(), proptest::collection::vec(step, 1..vh_core::depth(5, 8))).prop_map(|(cap_extra, held, range, steps)| QCase { cap: cap_extra, held, range, steps }).boxed()
}

fn dist(me: &[u8; 32], key: &[u8]) -> U256 {
    let h: [u8; 32] = Sha256::digest(key).into();
    let mut x = [0u8; 32];
    for i in 0..32 {
        x[i] = me[i] ^ h[i];
    }
    U256::from_be_bytes(x)
}

fn resolve_range(sel: RangeSel, dists: &[U256]) -> Option<U256> {
    let at = |i: u16| -> U256 {
        if dists.is_empty() {
            U256::from(1u64) << 200
        } else {
            let mut d = dists.to_vec();
            d.sort();
            d[pick_idx(i, d.len())]
        }
    };
    match sel {
        RangeSel::None => None,
        RangeSel::AtHeld(i) => Some(at(i)),
        RangeSel::BelowHeld(i) => Some(at(i).saturating_sub(U256::from(1u8))),
        RangeSel::AboveHeld(i) => Some(at(i).saturating_add(U256::from(1u8))),
        RangeSel::Max => Some(U256::MAX),
        RangeSel::Zero => Some(U256::ZERO),
    }
}

enum Reply {
    Quote(PaymentQuote),
    Refused(String),
    Nothing,
}

/// Ask node 0 for a quote the way a client's request reaches it.
fn ask_quote(cl: &mut Cluster, addr: &NetworkAddress) -> Reply {
    let (tx, mut rx) = oneshot::channel();
    let ev = NetworkEvent::QueryRequestReceived { query: Query::GetStoreQuote { key: addr.clone(), nonce: None, difficulty: 0 }, channel: MsgResponder::FromSelf(Some(tx)) };
    cl.pending.push(Action::Event(0, ev));
    cl.settle();
    match rx.try_recv() {
        Ok(Ok(Response::Query(QueryResponse::GetStoreQuote { quote: Ok(q), .. }))) => Reply::Quote(q),
        Ok(Ok(Response::Query(QueryResponse::GetStoreQuote { quote: Err(e), .. }))) => Reply::Refused(format!("{e:?}")),
        Ok(other) => Reply::Refused(vh_core::one_line(&format!("{other:?}"), 120)),
        Err(_) => Reply::Nothing,
    }
}

fn fail_side(ctx: &mut Ctx, side: u8, sig: &str, detail: String) {
    if SIDE.load(Ordering::Relaxed) == side {
        ctx.fail(sig, detail);
    } else {
        ctx.label(format!("observation:other_property_C{side:02}/{sig}"));
    }
}

pub fn check(case: &QCase, ctx: &mut Ctx) {
    // never full: capacity behaviour is C10's `capacity` section; here the figure must equal it
    let cap = case.held as usize + case.steps.len() * 2 + 2 + case.cap as usize;
    let mut cl = Cluster::new(&[1], Some((cap, 25)));
    let me_peer = cl.nodes[0].peer;
    let me: [u8; 32] = Sha256::digest(me_peer.to_bytes()).into();
    let rewards = cl.nodes[0].rewards;
    // model: key bytes -> distance
    let mut held: BTreeMap<Vec<u8>, U256> = BTreeMap::new();
    for j in 0..case.held as u64 {
        let c = fix::chunk(7_000 + j, 20 + j as usize);
        let r = fix::chunk_record(&c);
        held.insert(r.key.to_vec(), dist(&me, r.key.as_ref()));
        cl.seed_record(0, r);
    }
    let mut range = resolve_range(case.range, &held.values().cloned().collect::<Vec<_>>());
    if let Some(r) = range {
        let d = &mut cl.nodes[0].driver;
        cl.rt.block_on(async move { d.verif_set_distance_range(r) });
    }
    let mut payments_verified = 0usize;
    let mut first_quote: Option<(PaymentQuote, Vec<u8>)> = None;
    let (mut quotes_judged, mut uploads_judged, mut on_range, mut foreign_quote_uploads, mut after_payment) = (0, 0, 0, 0, 0);
    for (i, st) in case.steps.iter().enumerate() {
        if let Some(sel) = st.new_range {
            if let Some(r) = resolve_range(sel, &held.values().cloned().collect::<Vec<_>>()) {
                range = Some(r);
                let d = &mut cl.nodes[0].driver;
                cl.rt.block_on(async move { d.verif_set_distance_range(r) });
                ctx.label("range_changed_between_quotes");
            }
        }
        if st.extra_put {
            let c = fix::chunk(7_500 + i as u64 * 13 + st.seed as u64, 25);
            let r = fix::chunk_record(&c);
            held.insert(r.key.to_vec(), dist(&me, r.key.as_ref()));
            cl.seed_record(0, r);
        }
        let pl = payload(st.kind, st.seed);
        let held_before = cl.local_get(0, &pl.key).is_some();
        // the address the client asks the quote for
        let other = fix::chunk(9_000 + st.seed as u64, 31).network_address();
        let asked = if st.quote == QuoteUse::FreshForOtherAddress { other.clone() } else { pl.address.clone() };
        let reply = ask_quote(&mut cl, &asked);
        if cl.inconclusive {
            ctx.label("inconclusive_timeout");
            return;
        }
        let q = match reply {
            Reply::Quote(q) => q,
            Reply::Refused(e) => {
                if held_before && asked == pl.address {
                    ctx.label("quote_refused_for_a_held_key");
                } else {
                    ctx.precondition_failed("node_issues_no_quote", format!("step {i}: {e}"));
                }
                continue;
            }
            Reply::Nothing => {
                ctx.precondition_failed("node_issues_no_quote", format!("step {i}: no reply"));
                continue;
            }
        };
        // ---- the figures (C10) ------------------------------------------------------------------
        quotes_judged += 1;
        let m = &q.quoting_metrics;
        let (lo, hi) = match range {
            None => (held.len(), held.len()),
            Some(r) => (held.values().filter(|d| **d < r).count(), held.values().filter(|d| **d <= r).count()),
        };
        if lo != hi {
            on_range += 1;
        }
        if payments_verified > 0 {
            after_payment += 1;
        }
        if m.max_records != cap {
            fail_side(ctx, 10, "issued_quote_capacity_wrong", format!("step {i}: quote says max_records {} but the store was configured with {cap}", m.max_records));
        }
        if m.close_records_stored < lo || m.close_records_stored > hi {
            fail_side(
                ctx,
                10,
                "issued_quote_close_records_wrong",
                format!("step {i}: quote says close_records_stored {}, the node holds {} records, {lo}..={hi} of them inside its range ({})", m.close_records_stored, held.len(), if range.is_some() { "range set" } else { "no range" }),
            );
        }
        if m.received_payment_count != payments_verified {
            fail_side(ctx, 10, "issued_quote_payment_count_wrong", format!("step {i}: quote says received_payment_count {}, the node has verified {payments_verified} payments so far", m.received_payment_count));
        }
        // ---- what an honest quote looks like (preconditions of everything below) --------------------
        let asked_xor = asked.as_xorname().unwrap_or_default();
        if q.content != asked_xor || q.rewards_address != rewards || !q.check_is_signed_by_claimed_peer(me_peer) {
            ctx.precondition_failed(
                "issued_quote_not_honest",
                format!("step {i}: content matches asked address: {}, rewards address is the node's: {}, verifies for the node: {}", q.content == asked_xor, q.rewards_address == rewards, q.check_is_signed_by_claimed_peer(me_peer)),
            );
            continue;
        }
        if first_quote.is_none() {
            first_quote = Some((q.clone(), asked.to_record_key().to_vec()));
        }
        // ---- the upload (C03) -------------------------------------------------------------------
        let (own_q, issued_for) = match st.quote {
            QuoteUse::Fresh | QuoteUse::FreshForOtherAddress => (q.clone(), asked.to_record_key().to_vec()),
            QuoteUse::FirstStep => first_quote.clone().expect("set above"),
        };
        let for_this_address = issued_for == pl.key.to_vec();
        if !for_this_address {
            foreign_quote_uploads += 1;
        }
        let pc = Case { kind: st.kind, paid: true, prior: 0, rt_peers: 4, s: SFault::Ok, p: true, k: KFault::Ok, e: EFault::Ok, o: [true; 3], rpc: Rpc::Ok, a: true, own_pos: st.seed % 3, seed: st.seed.wrapping_add(i as u8 * 11), prior_other_kind: false };
        let (mut proof, _h, _k) = build_proof(&pc, &mut cl, &pl);
        let Some(own_pos) = proof.peer_quotes.iter().position(|(p, _)| p.to_peer_id().ok() == Some(me_peer)) else {
            ctx.precondition_failed("own_quote_not_in_proof", String::new());
            return;
        };
        proof.peer_quotes[own_pos].1 = own_q.clone();
        {
            let mut s = cl.stub.state.lock().unwrap();
            s.verdicts.clear();
            s.outage = 0;
            for (j, (_, pq)) in proof.peer_quotes.iter().enumerate() {
                s.verdicts.insert(pq.hash().0, (if j == own_pos { st.paid } else { true }, 3 + j as u64));
            }
        }
        let rec = (pl.build)(Some(&proof));
        let node = cl.nodes[0].node.clone();
        let op = cl.spawn(async move { node.validate_and_store_record(rec).await.map_err(|e| format!("{e:?}")) });
        cl.settle_op(&op);
        cl.settle();
        if cl.inconclusive {
            ctx.label("inconclusive_timeout");
            return;
        }
        let res = op.take().expect("finished");
        let held_after = cl.local_get(0, &pl.key).is_some();
        let ok = for_this_address && st.paid;
        if held_before {
            // a paid upload to a held key: content rules are C07's; the payment is verified (and
            // counted) only if the node gets that far — the count is re-synchronised from the next quote
            ctx.label("paid_upload_to_a_held_key");
            if let Reply::Quote(q2) = ask_quote(&mut cl, &other) {
                payments_verified = q2.quoting_metrics.received_payment_count.max(payments_verified);
            }
            continue;
        }
        uploads_judged += 1;
        if held_after && !for_this_address {
            fail_side(
                ctx,
                3,
                "stored_with_an_issued_quote_for_another_address",
                format!("step {i}: {:?} stored as new data; the node's quote in the proof had been issued by the node itself for another address ({:?}), result {res:?}", st.kind, st.quote),
            );
            return;
        }
        if held_after && !st.paid {
            fail_side(ctx, 3, "stored_although_the_contract_did_not_confirm_the_issued_quote", format!("step {i}: {:?} stored as new data, result {res:?}", st.kind));
            return;
        }
        if !held_after && res.is_ok() {
            fail_side(ctx, 3, "invalid_payment_not_rejected", format!("step {i}: nothing stored but the upload returned Ok"));
        }
        if ok {
            if held_after {
                payments_verified += 1;
                held.insert(pl.key.to_vec(), dist(&me, pl.key.as_ref()));
            } else {
                ctx.precondition_failed("valid_paid_upload_with_issued_quote_rejected", format!("step {i}: {:?} {res:?}", st.kind));
                // the payment may or may not have been counted: re-synchronise
                if let Reply::Quote(q2) = ask_quote(&mut cl, &other) {
                    payments_verified = q2.quoting_metrics.received_payment_count;
                }
            }
        }
    }
    ctx.sample = Some(serde_json::json!({"case": case, "capacity": cap, "held_at_end": held.len(), "payments_verified": payments_verified}));
    ctx.label_if(on_range > 0, "a_held_record_lies_exactly_on_the_range");
    ctx.label_if(foreign_quote_uploads > 0, "upload_with_a_quote_issued_for_another_address");
    ctx.label_if(after_payment > 0, "quote_issued_after_a_verified_payment");
    ctx.label(format!("quotes_judged_{}", quotes_judged.min(4)));
    ctx.label(format!("uploads_judged_{}", uploads_judged.min(4)));
    if SIDE.load(Ordering::Relaxed) == 10 {
        ctx.nontrivial_if(after_payment > 0 && range.is_some() && quotes_judged >= 2);
    } else {
        ctx.nontrivial_if(uploads_judged >= 2 && foreign_quote_uploads > 0);
    }
}

pub const RULE: &str = "1..4 client interactions with one node (generated capacity, held records, responsible range, range changes and replication puts in between): quote asked through the node's real query handler, proof built around the quote that came back (or one issued for another address / in the first step), contract verdict per step, upload";

/// C10, run as a child of vh-store's C10 (harness/pre-C10.sh builds this binary).
pub fn run_c10(cfg: RunCfg) {
    SIDE.store(10, Ordering::Relaxed);
    let mut rep = Report::new(cfg, "exploration");
    rep.rule = "C10 (node side): the figures in quotes the node really issues (Query::GetStoreQuote through the node's query handler) against the history: capacity, held records inside the range, payments the node has verified.".into();
    rep.assumptions = vec!["a held record at exactly the range may be counted or not; the store is never full here (capacity behaviour is the `capacity` section's)".into()];
    vh_core::section!(rep, "issued_quote", (1_500, 30_000), 16, &format!("{RULE}. non-trivial: a quote issued after a verified payment, with a range set, >= 2 quotes judged"), strategy, check);
    rep.finish();
}
