fn main() {
    vh_node::main_entry()
}
