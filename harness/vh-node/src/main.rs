//! vh-node: checks over the real node validation / replication code (ant-node) on hand-stepped
//! swarm drivers, with the harness as scheduler, transport and payment contract.
mod c03;
mod c04;
mod c07;
mod c09;
mod payments;
mod sim;

fn main() {
    let cfg = vh_core::RunCfg::from_args();
    match cfg.prop.as_str() {
        "C03" => c03::run(cfg),
        "C04" => c04::run(cfg),
        "C07" => c07::run(cfg),
        "C09" => c09::run(cfg),
        other => {
            eprintln!("vh-node: unknown property {other}");
            std::process::exit(2);
        }
    }
}
