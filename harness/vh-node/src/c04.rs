//! C04 — every accepted record's address is derived from its own content or owner.
//!
//! kind x path (client put through the kad store's `put` -> UnverifiedRecord -> validation; unpaid
//! update; replicated copy) x (key, content) matched / adversarially mismatched x prior content x
//! malformed shapes. Oracle: independent address derivation (SHA3-256 in the harness); nothing is
//! held under a key its content does not determine; mismatched => rejected and nothing changes;
//! network records are not readable before validation accepted them.

use crate::c03::{build_proof, payload, Case as PayCase, EFault, KFault, Kind, SFault};
use crate::sim::*;
use ant_protocol::storage::{try_deserialize_record, RecordHeader, RecordKind, Scratchpad, Transaction};
use ant_registers::SignedRegister;
use libp2p::kad::store::RecordStore;
use libp2p::kad::{Record, RecordKey};
use proptest::prelude::*;
use serde::{Deserialize, Serialize};
use std::collections::BTreeMap;
use vh_core::{Ctx, Report, RunCfg};
use vh_fix as fix;

#[derive(Clone, Copy, Debug, Serialize, Deserialize, PartialEq, Eq)]
pub enum Path {
    /// arrives through the kad store (`RecordStore::put`), paid
    ClientPut,
    /// `validate_and_store_record` with the unpaid kind
    UnpaidUpdate,
    /// `store_replicated_in_record`
    Replicated,
}

#[derive(Clone, Copy, Debug, Serialize, Deserialize, PartialEq, Eq)]
pub enum Mismatch {
    None,
    RandomKey,
    /// the key of another object of the same kind (held or not)
    OtherObjectKey,
    /// transactions only: a vector mixing two owners, presented under the first owner's key
    MixedOwners,
}

#[derive(Clone, Copy, Debug, Serialize, Deserialize, PartialEq, Eq)]
pub enum Shape {
    Ok,
    Oversized,
    /// value of exactly the store's size limit (5 MiB): the first size that is refused
    ExactlyAtSizeLimit,
    /// scratchpads / registers only: the object names the owner the key derives from, but is signed by
    /// another key ("the name derived from its SIGNED owner")
    NotSignedByOwner,
    Headerless,
    UnknownKindTag,
    TruncatedPayload,
}

#[derive(Clone, Debug, Serialize, Deserialize)]
pub struct Case {
    pub kind: Kind,
    pub path: Path,
    pub mismatch: Mismatch,
    pub shape: Shape,
    pub prior: bool,
    /// the other object (whose key is borrowed) is held by the node
    pub other_held: bool,
    pub seed: u8,
    /// client-put path only: the record reaches the kad store WITHOUT a payment envelope (plain
    /// Chunk / Scratchpad / Transaction / Register kind) — honest clients never send that, any peer can
    #[serde(default)]
    pub plain_envelope: bool,
    /// the node keeps only its last 2 records in memory and three further records are stored after the
    /// prior content: what the node holds under the presented key is then on disk only
    #[serde(default)]
    pub cold: bool,
}

pub fn case_strategy() -> BoxedStrategy<Case> {
    (
        prop_oneof![Just(Kind::Chunk), Just(Kind::Pad), Just(Kind::Tx), Just(Kind::Reg)],
        prop_oneof![Just(Path::ClientPut), Just(Path::UnpaidUpdate), Just(Path::Replicated)],
        prop_oneof![3 => Just(Mismatch::None), 3 => Just(Mismatch::RandomKey), 3 => Just(Mismatch::OtherObjectKey), 2 => Just(Mismatch::MixedOwners)],
        prop_oneof![30 => Just(Shape::Ok), 1 => Just(Shape::Oversized), 1 => Just(Shape::ExactlyAtSizeLimit), 3 => Just(Shape::NotSignedByOwner), 2 => Just(Shape::Headerless), 2 => Just(Shape::UnknownKindTag), 2 => Just(Shape::TruncatedPayload)],
        any::<bool>(),
        any::<bool>(),
        any::<u8>(),
        prop_oneof![3 => Just(false), 1 => Just(true)],
        prop_oneof![3 => Just(false), 1 => Just(true)],
    )
        .prop_map(|(kind, path, mismatch, shape, prior, other_held, seed, plain_envelope, cold)| Case { kind, path, mismatch, shape, prior, other_held, seed, plain_envelope, cold })
        .boxed()
}

/// The key a stored value determines, derived independently (SHA3-256 of content / owner).
pub fn derived_keys(value: &[u8]) -> Result<Vec<Vec<u8>>, String> {
    let rec = Record { key: RecordKey::new(&[0u8]), value: value.to_vec(), publisher: None, expires: None };
    let h = RecordHeader::from_record(&rec).map_err(|e| format!("{e:?}"))?;
    match h.kind {
        RecordKind::Chunk => {
            let payload: bytes::Bytes = rmp_serde::from_slice(&value[2..]).map_err(|e| e.to_string())?;
            Ok(vec![fix::sha3(&payload).to_vec()])
        }
        RecordKind::Scratchpad => {
            let p: Scratchpad = try_deserialize_record(&rec).map_err(|e| format!("{e:?}"))?;
            Ok(vec![fix::sha3(&p.owner().to_bytes()).to_vec()])
        }
        RecordKind::Transaction => {
            let txs: Vec<Transaction> = try_deserialize_record(&rec).map_err(|e| format!("{e:?}"))?;
            Ok(txs.iter().map(|t| fix::sha3(&t.owner.to_bytes()).to_vec()).collect())
        }
        RecordKind::Register => {
            let r: SignedRegister = try_deserialize_record(&rec).map_err(|e| format!("{e:?}"))?;
            let mut b = r.address().meta().0.to_vec();
            b.extend_from_slice(&r.address().owner().to_bytes());
            Ok(vec![fix::sha3(&b).to_vec()])
        }
        other => Err(format!("stored record has kind {other:?}")),
    }
}

fn all_payments_valid(kind: Kind, seed: u8) -> PayCase {
    PayCase { kind, paid: true, prior: 0, rt_peers: 4, s: SFault::Ok, p: true, k: KFault::Ok, e: EFault::Ok, o: [true; 3], rpc: Default::default(), a: true, own_pos: seed % 3, seed, prior_other_kind: false }
}

pub fn check(case: &Case, ctx: &mut Ctx) {
    let mut cl = Cluster::new(&[1], if case.cold { Some((16 * 1024, 2)) } else { None });
    let pl = payload(case.kind, case.seed);
    let other = payload(case.kind, case.seed.wrapping_add(101));
    if case.prior {
        cl.seed_record(0, pl.prior.clone().unwrap());
    }
    if case.other_held {
        cl.seed_record(0, other.prior.clone().unwrap());
    }
    cl.seed_record(0, fix::chunk_record(&fix::chunk(5, 33)));
    if case.cold {
        cl.seed_record(0, fix::chunk_record(&fix::chunk(6, 34)));
        cl.seed_record(0, fix::chunk_record(&fix::chunk(7, 35)));
        ctx.label("held_records_on_disk_only");
    }
    let (proof, _hashes, _) = build_proof(&all_payments_valid(case.kind, case.seed), &mut cl, &pl);

    // the record as presented
    let plain_put = case.path == Path::ClientPut && case.plain_envelope;
    ctx.label_if(plain_put, "kad_put_without_payment_envelope");
    let paid = case.path == Path::ClientPut && !case.plain_envelope;
    let mut rec = (pl.build)(if paid { Some(&proof) } else { None });
    let mismatched = match case.mismatch {
        Mismatch::None => false,
        Mismatch::RandomKey => {
            rec.key = RecordKey::new(&fix::h32("c04-random-key", &[case.seed as u64]));
            true
        }
        Mismatch::OtherObjectKey => {
            rec.key = other.key.clone();
            other.key != pl.key
        }
        Mismatch::MixedOwners => {
            if case.kind == Kind::Tx && case.path == Path::Replicated {
                let own = fix::transaction(20 + case.seed as u64 % 5, case.seed as u64 % 4, true);
                let foreign = fix::transaction(60 + (case.seed as u64 / 5) % 11, 1, true);
                // both orders: a check that only looks at the first entry is wrong in a different
                // way for each (own first: the foreign entry slips in under this key)
                let list = if case.seed % 2 == 0 { vec![foreign, own] } else { vec![own, foreign] };
                rec = fix::transactions_record(pl.key.clone(), &list);
            }
            false
        }
    };
    let malformed = case.shape != Shape::Ok && !(case.shape == Shape::NotSignedByOwner && matches!(case.kind, Kind::Chunk | Kind::Tx));
    // a malformed shape replaces / mangles the record: only the malformed-record rules apply then
    let mismatched = mismatched && !malformed;
    match case.shape {
        Shape::Ok => {}
        // (odd seeds: the record keeps the envelope of its own kind — with the payment proof on the
        // client path, so all eight kind tags occur — and is padded past the limit, as a sender who wants
        // to get around a per-kind size check would do)
        // Only on the kad-put path, where the store's entrance measures the value as presented; the other
        // two paths are reached through request/response messages, which the transport bounds, and what
        // they store is the re-encoded object (measured in put_verified): there the oversized OBJECT is used.
        Shape::Oversized if case.seed % 2 == 1 && case.path == Path::ClientPut => rec.value.resize(5 * 1024 * 1024 + 16, 0),
        Shape::ExactlyAtSizeLimit if case.seed % 2 == 1 && case.path == Path::ClientPut => rec.value.resize(5 * 1024 * 1024, 0),
        Shape::Oversized => {
            let c = fix::chunk(9, 5 * 1024 * 1024 + 16);
            rec = fix::chunk_record(&c);
        }
        Shape::ExactlyAtSizeLimit => {
            const MAX: usize = 5 * 1024 * 1024;
            let mut len = MAX - 7;
            for _ in 0..3 {
                let c = fix::chunk(9, len);
                rec = fix::chunk_record(&c);
                if rec.value.len() == MAX {
                    break;
                }
                len = (len + MAX).saturating_sub(rec.value.len());
            }
        }
        Shape::NotSignedByOwner => {
            use ant_protocol::storage::{try_serialize_record, RecordKind};
            let s = case.seed as u64;
            match case.kind {
                Kind::Pad => {
                    // same owner / address as the honest payload, signature by another key
                    let bad = fix::scratchpad(10 + s % 5, 1, fix::pseudo_bytes(s, 30), 5, fix::Sig::OtherKey);
                    rec.value = if paid {
                        try_serialize_record(&(proof.clone(), bad), RecordKind::ScratchpadWithPayment).unwrap().to_vec()
                    } else {
                        fix::scratchpad_record(&bad).value
                    };
                }
                Kind::Reg => {
                    // the payload's register (owner 30 + s % 3, label s % 2), signed by a stranger
                    let owner = 30 + s % 3;
                    let meta = s % 2;
                    // half of them open to any writer (nobody's operations need a signature there — the
                    // owner's signature over the register itself still does), some without any operation
                    let open = (s / 3) % 2 == 0;
                    ctx.label(if open { "not_signed_by_owner/open_register" } else { "not_signed_by_owner/owner_only_register" });
                    let base = fix::register_base(owner, meta, if open { None } else { Some(vec![]) });
                    let ops = fix::register_ops(owner, meta, 3, &[owner]);
                    let bad = fix::signed_register(&base, 37, if s % 5 == 0 { vec![] } else { ops[0..2].to_vec() });
                    rec.value = if paid {
                        try_serialize_record(&(proof.clone(), bad), RecordKind::RegisterWithPayment).unwrap().to_vec()
                    } else {
                        fix::register_record(rec.key.clone(), &bad).value
                    };
                }
                _ => {}
            }
        }
        Shape::Headerless => rec.value = fix::pseudo_bytes(case.seed as u64, (case.seed % 3) as usize),
        Shape::UnknownKindTag => {
            if rec.value.len() > 2 {
                rec.value[1] = 8 + case.seed % 100;
            }
        }
        Shape::TruncatedPayload => {
            let n = 3 + (case.seed as usize % 6);
            rec.value.truncate(n.min(rec.value.len().saturating_sub(1)).max(3));
        }
    }
    let before = cl.snapshot(0);
    let presented_key = rec.key.clone();
    let held_before = before.contains_key(&presented_key.to_vec());

    let mut direct_result: Option<Result<(), String>> = None;
    match case.path {
        Path::ClientPut => {
            let d = &mut cl.nodes[0].driver;
            let r2 = rec.clone();
            let put_res = cl.rt.block_on(async move { d.verif_store().put(r2) });
            // not readable before validation has accepted it
            let got = cl.local_get(0, &presented_key);
            if !held_before && got.is_some() {
                ctx.fail("network_record_readable_before_validation", format!("{:?}: readable right after RecordStore::put", case.kind));
            }
            if held_before && got.as_ref().map(|r| &r.value) != before.get(&presented_key.to_vec()) {
                ctx.fail("held_record_replaced_before_validation", format!("{:?}", case.kind));
            }
            cl.run_tasks();
            cl.collect();
            let forwarded = cl.pending.iter().any(|a| matches!(a, Action::Event(_, ant_networking::NetworkEvent::UnverifiedRecord(_))));
            if matches!(case.shape, Shape::Oversized | Shape::ExactlyAtSizeLimit) {
                if put_res.is_ok() {
                    ctx.fail("oversized_record_not_refused", format!("value of {} bytes accepted by RecordStore::put", rec.value.len()));
                }
                if forwarded {
                    ctx.fail("oversized_record_forwarded_for_validation", String::new());
                }
            }
            if matches!(case.shape, Shape::Headerless | Shape::UnknownKindTag) && forwarded {
                ctx.fail("unparseable_record_forwarded_for_validation", format!("{:?}", case.shape));
            }
            cl.settle();
        }
        Path::UnpaidUpdate => {
            let node = cl.nodes[0].node.clone();
            let r2 = rec.clone();
            let op = cl.spawn(async move { node.validate_and_store_record(r2).await.map_err(|e| format!("{e:?}")) });
            cl.settle_op(&op);
            cl.settle();
            direct_result = op.take();
        }
        Path::Replicated => {
            let node = cl.nodes[0].node.clone();
            let r2 = rec.clone();
            let op = cl.spawn(async move { node.store_replicated_in_record(r2).await.map_err(|e| format!("{e:?}")) });
            cl.settle_op(&op);
            cl.settle();
            direct_result = op.take();
        }
    }
    if cl.inconclusive {
        ctx.label("inconclusive_timeout");
        return;
    }
    let after = cl.snapshot(0);
    ctx.label(format!("{:?}_{:?}", case.kind, case.path));
    ctx.label(format!("mismatch_{:?}", case.mismatch));
    ctx.label_if(malformed, "malformed");
    ctx.canon = Some(format!("{:?}/{:?}/{:?}/{:?}/{}/{}/{}/{}", case.kind, case.path, case.mismatch, case.shape, case.prior, case.other_held, plain_put, case.cold));
    ctx.sample = Some(serde_json::json!({"case": case, "result": format!("{direct_result:?}"), "keys_before": before.len(), "keys_after": after.len()}));
    ctx.nontrivial_if(mismatched || case.mismatch == Mismatch::MixedOwners);

    // (1) whatever is held sits under the key its content determines
    every_record_under_derived_key(&after, ctx);

    // (2) mismatched or malformed => rejected, nothing changes
    if mismatched || malformed {
        if after != before {
            let changed: Vec<String> = after.iter().filter(|(k, v)| before.get(*k) != Some(*v)).map(|(k, _)| hex::encode(&k[..6])).collect();
            let sig = if malformed { format!("malformed_record_changed_store/{:?}", case.shape) } else { format!("record_under_foreign_key_changed_store/{:?}/{:?}", case.kind, case.path) };
            ctx.fail(sig, format!("{:?} presented under {} ({:?}); changed keys {changed:?}", case.kind, hex::encode(&presented_key.to_vec()[..6]), case.mismatch));
        }
        if let Some(Ok(())) = direct_result {
            // an Ok that changed nothing is tolerated only for replicated duplicates; a foreign key never
            if mismatched {
                ctx.fail(format!("record_under_foreign_key_not_rejected/{:?}/{:?}", case.kind, case.path), format!("{:?} presented under a key it does not derive returned Ok", case.kind));
            }
        }
        return;
    }
    // (3) matched + valid => stored (on the paths where the statement lets it in)
    let eligible = match case.path {
        Path::ClientPut if plain_put => case.prior && matches!(case.kind, Kind::Pad | Kind::Reg),
        Path::ClientPut | Path::Replicated => true,
        Path::UnpaidUpdate => case.prior && matches!(case.kind, Kind::Pad | Kind::Reg),
    };
    let key = pl.key.to_vec();
    if eligible {
        if !after.contains_key(&key) {
            ctx.precondition_failed(format!("valid_record_not_stored/{:?}/{:?}", case.kind, case.path), format!("result {direct_result:?}"));
        }
    } else if !before.contains_key(&key) && after.contains_key(&key) {
        ctx.fail("unpaid_new_data_stored", format!("{:?}", case.kind));
    }
    if case.mismatch == Mismatch::MixedOwners && case.kind == Kind::Tx && case.path == Path::Replicated {
        ctx.label("mixed_owner_vector");
    }
}

pub fn every_record_under_derived_key(store: &BTreeMap<Vec<u8>, Vec<u8>>, ctx: &mut Ctx) {
    for (k, v) in store {
        match derived_keys(v) {
            Ok(ds) => {
                if ds.is_empty() || ds.iter().any(|d| d != k) {
                    ctx.fail("record_held_under_key_its_content_does_not_determine", format!("key {} holds content deriving {:?}", hex::encode(&k[..6]), ds.iter().map(|d| hex::encode(&d[..6])).collect::<Vec<_>>()));
                }
            }
            Err(e) => ctx.fail("held_record_unparseable", format!("key {}: {e}", hex::encode(&k[..6]))),
        }
    }
}

pub fn run(cfg: RunCfg) {
    let mut rep = Report::new(cfg, "exploration");
    rep.rule = "C04: kind x path (client put via kad store / unpaid update / replicated) x key matched or mismatched (random, another object's, mixed-owner transaction vector) x prior content x malformed shapes (oversized, header-less, unknown tag, truncated); payment valid throughout.".into();
    rep.assumptions = vec![
        "scratchpads and transactions of one owner share one address (both are H(owner key)), so that is not a mismatch".into(),
        "the address derivation is recomputed in the harness with tiny-keccak SHA3-256 over the decoded content / owner key".into(),
    ];
    vh_core::section!(
        rep, "address", (6_000, 80_000), 16,
        "non-trivial: key mismatched (or mixed-owner vector); distinct by (kind, path, mismatch class, shape, prior, other held)",
        case_strategy, check
    );
    vh_core::fuzz_section!(rep, "address", case_strategy, check, "sec_node", "node", 8_000, 300, 12);
    rep.finish();
}
