//! C07 — mutable records never regress and hold only owner-signed content.
//!
//! For one owner per kind: histories of deliveries (paid uploads, unpaid updates, replicated
//! copies) of scratchpads / transactions / registers with generated counters, signers, validity,
//! keys and order. Up to two deliveries overlap, the generator choosing which pending command of the
//! two in-flight validations is served next. Oracle: sequential model from the statement; for an
//! overlapping pair the outcome must equal the model outcome of SOME serial order.

use crate::c03::{build_proof, payload, Case as PayCase, EFault, KFault, Kind, SFault};
use crate::sim::*;
use ant_evm::ProofOfPayment;
use ant_protocol::storage::{try_deserialize_record, try_serialize_record, RecordKind, Scratchpad, Transaction};
use ant_registers::{RegisterOp, SignedRegister};
use libp2p::kad::{Record, RecordKey};
use proptest::prelude::*;
use serde::{Deserialize, Serialize};
use std::collections::BTreeSet;
use vh_core::{pick_idx, Ctx, Report, RunCfg};
use vh_fix as fix;

#[derive(Clone, Copy, Debug, Serialize, Deserialize, PartialEq, Eq)]
pub enum Path {
    Paid,
    Unpaid,
    Replicated,
}

#[derive(Clone, Copy, Debug, Serialize, Deserialize, PartialEq, Eq)]
pub enum KeySel {
    /// the address the content determines
    Own,
    /// a random other key
    Random,
}

#[derive(Clone, Debug, Serialize, Deserialize)]
pub enum Delivery {
    Pad { counter: u8, sig: fix::Sig, data: u8, foreign_owner: bool, key: KeySel, path: Path },
    /// (transaction id 0..4, validly signed, owned by a foreign key)
    Tx { txs: Vec<(u8, bool, bool)>, key: KeySel, path: Path },
    /// bit i set = op i of the pool included; op 3 is signed by a non-writer
    Reg { ops: u8, key: KeySel, path: Path },
    /// the chunk whose content is the owner's public-key bytes: its address is the key the owner's
    /// scratchpad and transaction set live under (section same_key_other_kind)
    OwnerKeyChunk { path: Path },
}

#[derive(Clone, Debug, Serialize, Deserialize)]
pub struct Case {
    pub kind: Kind,
    pub deliveries: Vec<Delivery>,
    /// delivery i runs concurrently with delivery i+1
    pub overlap: Vec<bool>,
    pub sched: Vec<u16>,
    /// delivery i has returned, but the store's completion notification of its write is handled only
    /// after delivery i+1 (sequential deliveries, late acknowledgement)
    #[serde(default)]
    pub defer_acks: Vec<bool>,
    /// the node keeps only its last 2 records in memory, and at the end of the history the tracked
    /// record is pushed out of that read cache and observed again: what the node HOLDS is what it
    /// serves from disk, not what it last had in memory
    #[serde(default)]
    pub cold_read: bool,
}

fn path_strategy() -> impl Strategy<Value = Path> {
    prop_oneof![Just(Path::Paid), Just(Path::Unpaid), Just(Path::Replicated)]
}
fn key_strategy() -> impl Strategy<Value = KeySel> {
    prop_oneof![9 => Just(KeySel::Own), 1 => Just(KeySel::Random)]
}

fn delivery_strategy(kind: Kind) -> BoxedStrategy<Delivery> {
    match kind {
        Kind::Pad | Kind::Chunk => (
            0u8..7,
            prop_oneof![6 => Just(fix::Sig::Valid), 1 => Just(fix::Sig::Missing), 1 => Just(fix::Sig::OtherKey), 1 => Just(fix::Sig::OtherCounter)],
            0u8..3,
            prop_oneof![12 => Just(false), 1 => Just(true)],
            key_strategy(),
            path_strategy(),
        )
            .prop_map(|(counter, sig, data, foreign_owner, key, path)| Delivery::Pad { counter, sig, data, foreign_owner, key, path })
            .boxed(),
        Kind::Tx => (proptest::collection::vec((0u8..4, prop_oneof![5 => Just(true), 1 => Just(false)], prop_oneof![8 => Just(false), 1 => Just(true)]), 1..4), key_strategy(), path_strategy())
            .prop_map(|(txs, key, path)| Delivery::Tx { txs, key, path })
            .boxed(),
        Kind::Reg => (prop_oneof![6 => 1u8..8, 1 => 8u8..16], key_strategy(), path_strategy()).prop_map(|(ops, key, path)| Delivery::Reg { ops, key, path }).boxed(),
    }
}

pub fn case_strategy() -> BoxedStrategy<Case> {
    prop_oneof![2 => Just(Kind::Pad), 1 => Just(Kind::Tx), 1 => Just(Kind::Reg)]
        .prop_flat_map(|kind| {
            (
                Just(kind),
                proptest::collection::vec(delivery_strategy(kind), 1..vh_core::depth(10, 26)),
                proptest::collection::vec(prop_oneof![3 => Just(false), 1 => Just(true)], 26),
                proptest::collection::vec(any::<u16>(), 0..vh_core::depth(24, 64)),
                proptest::collection::vec(prop_oneof![2 => Just(false), 1 => Just(true)], 26),
                prop_oneof![2 => Just(false), 1 => Just(true)],
            )
        })
        .prop_map(|(kind, deliveries, overlap, sched, defer_acks, cold_read)| Case { kind, deliveries, overlap, sched, defer_acks, cold_read })
        .boxed()
}

const OWNER: u64 = 40;
const FOREIGN: u64 = 41;
const REG_META: u64 = 3;

/// The model state of the one tracked address.
#[derive(Clone, Debug, PartialEq, Eq)]
enum Model {
    Pad(Option<(u64, Vec<u8>)>),
    Tx(BTreeSet<u8>),
    /// None = no register held
    Reg(Option<BTreeSet<u8>>),
}

impl Model {
    fn held(&self) -> bool {
        match self {
            Model::Pad(p) => p.is_some(),
            Model::Tx(t) => !t.is_empty(),
            Model::Reg(r) => r.is_some(),
        }
    }
    /// Apply one delivery per the statement.
    fn apply(&mut self, d: &Delivery) {
        let held = self.held();
        match (self, d) {
            (Model::Pad(st), Delivery::Pad { counter, sig, data, foreign_owner, key, path }) => {
                let eligible = match path {
                    Path::Paid | Path::Replicated => true,
                    Path::Unpaid => held,
                };
                let higher = st.as_ref().map(|(c, _)| (*counter as u64) > *c).unwrap_or(true);
                if !*foreign_owner && *key == KeySel::Own && *sig == fix::Sig::Valid && eligible && higher {
                    *st = Some((*counter as u64, pad_data(*data, *counter)));
                }
            }
            (Model::Tx(st), Delivery::Tx { txs, key, path }) => {
                if *key != KeySel::Own {
                    return;
                }
                let list: Vec<&(u8, bool, bool)> = match path {
                    Path::Paid => txs.iter().take(1).collect(),
                    Path::Replicated => txs.iter().collect(),
                    Path::Unpaid => vec![],
                };
                // a paid upload is one transaction whose own address must be the record key
                if *path == Path::Paid && list.first().map(|t| t.2).unwrap_or(false) {
                    return;
                }
                for (id, valid, foreign) in list {
                    if *valid && !*foreign {
                        st.insert(*id);
                    }
                }
            }
            (Model::Reg(st), Delivery::Reg { ops, key, path }) => {
                let eligible = match path {
                    Path::Paid | Path::Replicated => true,
                    Path::Unpaid => held,
                };
                let has_unpermitted = ops & 8 != 0;
                if *key == KeySel::Own && eligible && !has_unpermitted {
                    let set = st.get_or_insert_with(BTreeSet::new);
                    for i in 0..3u8 {
                        if ops & (1 << i) != 0 {
                            set.insert(i);
                        }
                    }
                }
            }
            _ => {}
        }
    }
}

fn pad_data(data: u8, counter: u8) -> Vec<u8> {
    fix::pseudo_bytes(500 + data as u64 * 16 + counter as u64, 20)
}

struct World {
    cl: Cluster,
    key: RecordKey,
    random_key: RecordKey,
    foreign_key: RecordKey,
    reg_ops: Vec<RegisterOp>,
}

thread_local! {
    static REG_OPS: std::cell::RefCell<Option<Vec<RegisterOp>>> = const { std::cell::RefCell::new(None) };
}

fn reg_ops() -> Vec<RegisterOp> {
    REG_OPS.with(|c| {
        c.borrow_mut()
            .get_or_insert_with(|| {
                let mut ops = fix::register_ops(OWNER, REG_META, 3, &[OWNER]);
                // op 3: written by a key that is not a writer
                let intruder = fix::register_ops(OWNER, REG_META, 4, &[FOREIGN]);
                ops.push(intruder[3].clone());
                ops
            })
            .clone()
    })
}

impl World {
    fn proof_for(&mut self, kind: Kind, xorname: xor_name::XorName, seed: u8) -> ProofOfPayment {
        let mut pl = payload(kind, 0);
        pl.xorname = xorname;
        let pc = PayCase { kind, paid: true, prior: 0, rt_peers: 0, s: SFault::Ok, p: true, k: KFault::Ok, e: EFault::Ok, o: [true; 3], rpc: Default::default(), a: true, own_pos: 0, seed, prior_other_kind: false };
        build_proof(&pc, &mut self.cl, &pl).0
    }

    /// Build the record a delivery presents and the operation that delivers it.
    fn record_for(&mut self, d: &Delivery, idx: usize) -> (Record, Path) {
        match d {
            Delivery::Pad { counter, sig, data, foreign_owner, key, path } => {
                let owner = if *foreign_owner { FOREIGN } else { OWNER };
                let pad = fix::scratchpad(owner, 1, pad_data(*data, *counter), *counter as u64, *sig);
                // a foreign-owned pad is presented under the tracked owner's key
                let k = match key {
                    KeySel::Own => self.key.clone(),
                    KeySel::Random => self.random_key.clone(),
                };
                let value = match path {
                    Path::Paid => {
                        let proof = self.proof_for(Kind::Pad, pad.name(), idx as u8);
                        try_serialize_record(&(proof, pad.clone()), RecordKind::ScratchpadWithPayment).unwrap().to_vec()
                    }
                    _ => try_serialize_record(&pad, RecordKind::Scratchpad).unwrap().to_vec(),
                };
                (fix::record(k, value), *path)
            }
            Delivery::Tx { txs, key, path } => {
                let list: Vec<Transaction> = txs.iter().map(|(id, valid, foreign)| fix::transaction(if *foreign { FOREIGN } else { OWNER }, *id as u64, *valid)).collect();
                let k = match key {
                    KeySel::Own => self.key.clone(),
                    KeySel::Random => self.random_key.clone(),
                };
                let value = match path {
                    Path::Paid => {
                        let proof = self.proof_for(Kind::Tx, *list[0].address().xorname(), idx as u8);
                        try_serialize_record(&(proof, list[0].clone()), RecordKind::TransactionWithPayment).unwrap().to_vec()
                    }
                    _ => try_serialize_record(&list, RecordKind::Transaction).unwrap().to_vec(),
                };
                (fix::record(k, value), *path)
            }
            Delivery::OwnerKeyChunk { path } => {
                let chunk = ant_protocol::storage::Chunk::new(bytes::Bytes::from(fix::pk(OWNER).to_bytes().to_vec()));
                let value = match path {
                    Path::Paid => {
                        let proof = self.proof_for(Kind::Chunk, *chunk.name(), idx as u8);
                        try_serialize_record(&(proof, chunk.clone()), RecordKind::ChunkWithPayment).unwrap().to_vec()
                    }
                    _ => try_serialize_record(&chunk, RecordKind::Chunk).unwrap().to_vec(),
                };
                (fix::record(self.key.clone(), value), *path)
            }
            Delivery::Reg { ops, key, path } => {
                let base = fix::register_base(OWNER, REG_META, Some(vec![]));
                let chosen: Vec<RegisterOp> = (0..4).filter(|i| ops & (1 << i) != 0).map(|i| self.reg_ops[i].clone()).collect();
                let reg = fix::signed_register(&base, OWNER, chosen);
                let k = match key {
                    KeySel::Own => self.key.clone(),
                    KeySel::Random => self.random_key.clone(),
                };
                let value = match path {
                    Path::Paid => {
                        let proof = self.proof_for(Kind::Reg, reg.address().xorname(), idx as u8);
                        try_serialize_record(&(proof, reg.clone()), RecordKind::RegisterWithPayment).unwrap().to_vec()
                    }
                    _ => try_serialize_record(&reg, RecordKind::Register).unwrap().to_vec(),
                };
                (fix::record(k, value), *path)
            }
        }
    }

    fn start(&mut self, rec: Record, path: Path) -> Op<Result<(), String>> {
        let node = self.cl.nodes[0].node.clone();
        match path {
            Path::Paid | Path::Unpaid => self.cl.spawn(async move { node.validate_and_store_record(rec).await.map_err(|e| format!("{e:?}")) }),
            Path::Replicated => self.cl.spawn(async move { node.store_replicated_in_record(rec).await.map_err(|e| format!("{e:?}")) }),
        }
    }

    /// What the node holds at the tracked address, in model terms (plus raw checks).
    fn observe(&mut self, kind: Kind, ctx: &mut Ctx, at: &str) -> Option<Model> {
        let rec = self.cl.local_get(0, &self.key.clone());
        for (k, what) in [(self.random_key.clone(), "the random key"), (self.foreign_key.clone(), "the foreign owner's address")] {
            if k != self.key && self.cl.local_get(0, &k).is_some() {
                ctx.fail("content_stored_under_other_address", format!("{at}: something was stored under {what}"));
            }
        }
        match kind {
            Kind::Pad | Kind::Chunk => match rec {
                None => Some(Model::Pad(None)),
                Some(r) => {
                    let Ok(p) = try_deserialize_record::<Scratchpad>(&r) else {
                        ctx.fail("stored_scratchpad_undecodable", at.to_string());
                        return None;
                    };
                    if !fix::scratchpad_is_authentic(&p, &fix::pk(OWNER)) {
                        ctx.fail("stored_scratchpad_not_owner_signed", format!("{at}: counter {} owner ok={}", p.count(), *p.owner() == fix::pk(OWNER)));
                    }
                    Some(Model::Pad(Some((p.count(), p.encrypted_data().to_vec()))))
                }
            },
            Kind::Tx => match rec {
                None => Some(Model::Tx(BTreeSet::new())),
                Some(r) => {
                    let Ok(txs) = try_deserialize_record::<Vec<Transaction>>(&r) else {
                        ctx.fail("stored_transactions_undecodable", at.to_string());
                        return None;
                    };
                    let mut ids = BTreeSet::new();
                    for t in txs {
                        let id = (0..4u8).find(|i| fix::transaction(OWNER, *i as u64, true) == t);
                        match id {
                            Some(i) => {
                                ids.insert(i);
                            }
                            None => ctx.fail("stored_transaction_invalid_or_foreign", format!("{at}: a stored transaction is not one of the owner's validly signed ones (owner ok={})", t.owner == fix::pk(OWNER))),
                        }
                    }
                    Some(Model::Tx(ids))
                }
            },
            Kind::Reg => match rec {
                None => Some(Model::Reg(None)),
                Some(r) => {
                    let Ok(reg) = try_deserialize_record::<SignedRegister>(&r) else {
                        ctx.fail("stored_register_undecodable", at.to_string());
                        return None;
                    };
                    let mut ids = BTreeSet::new();
                    for op in reg.ops() {
                        match self.reg_ops.iter().position(|o| o == op) {
                            Some(3) | None => ctx.fail("stored_register_op_not_permitted", format!("{at}: the stored register holds an operation by a non-writer")),
                            Some(i) => {
                                ids.insert(i as u8);
                            }
                        }
                    }
                    Some(Model::Reg(Some(ids)))
                }
            },
        }
    }
}

pub fn check(case: &Case, ctx: &mut Ctx) {
    let kind = case.kind;
    let key = match kind {
        Kind::Pad | Kind::Chunk => fix::scratchpad_key(OWNER),
        Kind::Tx => fix::transaction_key(OWNER),
        Kind::Reg => fix::register_key(OWNER, REG_META),
    };
    let foreign_key = match kind {
        Kind::Reg => fix::register_key(FOREIGN, REG_META),
        _ => fix::scratchpad_key(FOREIGN),
    };
    let mut w = World { cl: Cluster::new(&[1], if case.cold_read { Some((16 * 1024, 2)) } else { None }), key, random_key: RecordKey::new(&fix::h32("c07-random", &[1])), foreign_key, reg_ops: reg_ops() };
    let mut model = match kind {
        Kind::Pad | Kind::Chunk => Model::Pad(None),
        Kind::Tx => Model::Tx(BTreeSet::new()),
        Kind::Reg => Model::Reg(None),
    };
    let mut sched_i = 0usize;
    let (mut stale, mut accepted_updates, mut overlaps, mut overlap_orders_differ) = (0, 0, 0, 0);
    let mut max_pad_counter_seen: u64 = 0;
    let mut late_acks = 0;
    let (mut limbo, mut last_result_err, mut last_before): (bool, bool, Option<Model>) = (false, false, None);
    let mut i = 0usize;
    while i < case.deliveries.len() {
        let pair = i + 1 < case.deliveries.len() && case.overlap.get(i).copied().unwrap_or(false);
        let at = format!("delivery {i}{}", if pair { format!("+{}", i + 1) } else { String::new() });
        if !pair {
            let d = case.deliveries[i].clone();
            let before = model.clone();
            model.apply(&d);
            if model != before {
                accepted_updates += 1;
            } else {
                stale += 1;
            }
            let (rec, path) = w.record_for(&d, i);
            let hold = case.defer_acks.get(i).copied().unwrap_or(false) && i + 1 < case.deliveries.len();
            // an earlier write of this key is done but its completion has not been handled yet, and
            // will not be before this delivery has been judged
            limbo = hold && w.cl.pending.iter().any(|a| a.is_notification());
            let op = w.start(rec, path);
            if hold {
                w.cl.settle_op_holding_acks(&op);
                late_acks += 1;
            } else {
                w.cl.settle_op(&op);
                w.cl.settle();
            }
            last_result_err = op.take().map(|r| r.is_err()).unwrap_or(false);
            last_before = Some(before.clone());
            i += 1;
        } else {
            overlaps += 1;
            let (a, b) = (case.deliveries[i].clone(), case.deliveries[i + 1].clone());
            let mut ab = model.clone();
            ab.apply(&a);
            ab.apply(&b);
            let mut ba = model.clone();
            ba.apply(&b);
            ba.apply(&a);
            let (ra, pa) = w.record_for(&a, i);
            let (rb, pb) = w.record_for(&b, i + 1);
            let opa = w.start(ra, pa);
            let opb = w.start(rb, pb);
            // generator-owned schedule among the pending commands of the two validations
            let sched = case.sched.clone();
            let si = &mut sched_i;
            w.cl.settle_with(|pending| {
                let c = sched.get(*si).copied().unwrap_or(0);
                *si += 1;
                pick_idx(c, pending.len())
            });
            let _ = (opa.take(), opb.take());
            if w.cl.inconclusive {
                ctx.label("inconclusive_timeout");
                return;
            }
            let Some(obs) = w.observe(kind, ctx, &at) else { return };
            if ab != ba {
                overlap_orders_differ += 1;
            }
            if obs != ab && obs != ba {
                let sig = match kind {
                    Kind::Pad | Kind::Chunk => "overlapping_scratchpad_updates_leave_non_serial_outcome",
                    Kind::Tx => "overlapping_transaction_updates_lose_entries",
                    Kind::Reg => "overlapping_register_updates_lose_operations",
                };
                ctx.fail(sig, format!("{at}: {a:?} || {b:?}: store holds {obs:?}; serial orders give {ab:?} / {ba:?}"));
                // continue from what the store really holds
                model = obs.clone();
            } else {
                model = obs.clone();
            }
            i += 2;
            if let Model::Pad(Some((c, _))) = &model {
                max_pad_counter_seen = max_pad_counter_seen.max(*c);
            }
            continue;
        }
        if w.cl.inconclusive {
            ctx.label("inconclusive_timeout");
            return;
        }
        let Some(obs) = w.observe(kind, ctx, &at) else { return };
        // An unpaid update is only taken for a record the node "already holds"; while the previous
        // write of that record is still unacknowledged the node may say it does not hold it yet and
        // REFUSE the update (the uploader gets an error): either outcome is within the statement.
        let unpaid = matches!(&case.deliveries[i - 1], Delivery::Pad { path: Path::Unpaid, .. } | Delivery::Tx { path: Path::Unpaid, .. } | Delivery::Reg { path: Path::Unpaid, .. });
        if obs != model && limbo && unpaid && last_result_err && Some(&obs) == last_before.as_ref() {
            ctx.label("unpaid_update_refused_while_previous_write_unacknowledged(either)");
            model = obs.clone();
        }
        if obs != model {
            let sig = match (&obs, &model) {
                (Model::Pad(Some((oc, _))), Model::Pad(Some((mc, _)))) if oc < mc => "scratchpad_higher_valid_update_not_applied",
                (Model::Pad(Some((oc, _))), Model::Pad(Some((mc, _)))) if oc > mc => "scratchpad_ineligible_update_applied",
                (Model::Pad(Some(_)), Model::Pad(Some(_))) => "scratchpad_equal_counter_update_replaced_content",
                (Model::Pad(None), _) => "scratchpad_valid_upload_not_stored",
                (Model::Pad(Some(_)), Model::Pad(None)) => "scratchpad_ineligible_upload_stored",
                (Model::Tx(o), Model::Tx(m)) if o.is_subset(m) => "transaction_set_misses_delivered_entries",
                (Model::Tx(_), _) => "transaction_set_holds_ineligible_entries",
                (Model::Reg(Some(o)), Model::Reg(Some(m))) if o.is_subset(m) => "register_misses_delivered_operations",
                (Model::Reg(None), _) => "register_valid_upload_not_stored",
                _ => "register_holds_ineligible_content",
            };
            ctx.fail(sig, format!("{at} {:?}: store holds {obs:?}, the statement gives {model:?}", case.deliveries[i - 1]));
            return;
        }
        if let Model::Pad(Some((c, _))) = &obs {
            if *c < max_pad_counter_seen {
                ctx.fail("scratchpad_counter_decreased", format!("{at}: counter {c} after {max_pad_counter_seen} was observed"));
            }
            max_pad_counter_seen = max_pad_counter_seen.max(*c);
        }
    }
    if case.cold_read {
        w.cl.settle();
        let Some(warm) = w.observe(kind, ctx, "end of history") else { return };
        for j in 0..3u64 {
            w.cl.seed_record(0, fix::chunk_record(&fix::chunk(8_800 + j, 20 + j as usize)));
        }
        if w.cl.inconclusive {
            ctx.label("inconclusive_timeout");
            return;
        }
        let Some(cold) = w.observe(kind, ctx, "end of history, record read back from disk") else { return };
        ctx.label("record_read_back_after_leaving_the_read_cache");
        if cold != warm {
            ctx.fail(
                "held_version_differs_from_the_version_last_served_from_memory",
                format!("after the history the node served {warm:?}; once three other records had pushed it out of the 2-entry read cache it serves {cold:?}"),
            );
            return;
        }
    }
    ctx.label(format!("kind_{kind:?}"));
    ctx.label_if(stale > 0, "rejected_or_stale_delivery");
    ctx.label_if(accepted_updates > 1, "several_accepted_updates");
    ctx.label_if(overlaps > 0, "overlapping_pair");
    ctx.label_if(late_acks > 0, "delivery_before_the_previous_write_was_acknowledged");
    ctx.label_if(overlap_orders_differ > 0, "overlap_whose_serial_orders_differ");
    ctx.nontrivial_if((stale > 0 && accepted_updates > 0) || overlaps > 0);
}

// ------------------------------------------------------------------------------------------------
// section same_key_other_kind: an owner's scratchpad, an owner's transaction set and the chunk made
// of the owner's public-key bytes all live under ONE record key. Whatever kind is stored there
// first, a delivery of another kind must not replace, shrink or regress it.
// ------------------------------------------------------------------------------------------------

#[derive(Clone, Debug, Serialize, Deserialize)]
pub struct MixCase {
    /// deliveries of one kind that establish the stored record
    pub setup: Vec<Delivery>,
    /// deliveries of the other kinds for the same owner, then (possibly) more of the first kind
    pub later: Vec<Delivery>,
}

#[derive(Clone, Debug, PartialEq, Eq)]
enum Obs {
    Absent,
    Pad(u64, Vec<u8>, bool),
    Tx(BTreeSet<Vec<u8>>),
    Chunk(Vec<u8>),
    Undecodable,
}

fn kind_tag(d: &Delivery) -> u8 {
    match d {
        Delivery::Pad { .. } => 0,
        Delivery::Tx { .. } => 1,
        Delivery::OwnerKeyChunk { .. } => 2,
        Delivery::Reg { .. } => 3,
    }
}

fn mix_delivery(kind: u8) -> BoxedStrategy<Delivery> {
    match kind {
        0 => (1u8..7, 0u8..3, path_strategy()).prop_map(|(counter, data, path)| Delivery::Pad { counter, sig: fix::Sig::Valid, data, foreign_owner: false, key: KeySel::Own, path }).boxed(),
        1 => (proptest::collection::vec((0u8..4, Just(true), Just(false)), 1..3), path_strategy()).prop_map(|(txs, path)| Delivery::Tx { txs, key: KeySel::Own, path }).boxed(),
        _ => path_strategy().prop_map(|path| Delivery::OwnerKeyChunk { path }).boxed(),
    }
}

pub fn mix_strategy() -> BoxedStrategy<MixCase> {
    (0u8..3)
        .prop_flat_map(|first| {
            let setup_path = prop_oneof![Just(Path::Paid), Just(Path::Replicated)];
            let setup = proptest::collection::vec((mix_delivery(first), setup_path), 1..3).prop_map(|v| {
                v.into_iter()
                    .map(|(mut d, p)| {
                        match &mut d {
                            Delivery::Pad { path, .. } | Delivery::Tx { path, .. } | Delivery::OwnerKeyChunk { path } | Delivery::Reg { path, .. } => *path = p,
                        }
                        d
                    })
                    .collect::<Vec<_>>()
            });
            let other = (0u8..3).prop_filter_map("other kind", move |k| (k != first).then_some(k)).prop_flat_map(mix_delivery);
            let later = proptest::collection::vec(prop_oneof![4 => other, 1 => mix_delivery(first)], 1..vh_core::depth(5, 10));
            (setup, later)
        })
        .prop_map(|(setup, later)| MixCase { setup, later })
        .boxed()
}

fn observe_any(w: &mut World) -> Obs {
    let Some(r) = w.cl.local_get(0, &w.key.clone()) else { return Obs::Absent };
    if let Ok(p) = try_deserialize_record::<Scratchpad>(&r) {
        if ant_protocol::storage::RecordHeader::from_record(&r).map(|h| h.kind == RecordKind::Scratchpad).unwrap_or(false) {
            let ok = fix::scratchpad_is_authentic(&p, &fix::pk(OWNER));
            return Obs::Pad(p.count(), p.encrypted_data().to_vec(), ok);
        }
    }
    match ant_protocol::storage::RecordHeader::from_record(&r).map(|h| h.kind) {
        Ok(RecordKind::Transaction) => match try_deserialize_record::<Vec<Transaction>>(&r) {
            Ok(txs) => Obs::Tx(txs.iter().map(|t| rmp_serde::to_vec(t).unwrap_or_default()).collect()),
            Err(_) => Obs::Undecodable,
        },
        Ok(RecordKind::Chunk) => match try_deserialize_record::<ant_protocol::storage::Chunk>(&r) {
            Ok(c) => Obs::Chunk(c.value().to_vec()),
            Err(_) => Obs::Undecodable,
        },
        _ => Obs::Undecodable,
    }
}

pub fn check_mix(case: &MixCase, ctx: &mut Ctx) {
    let key = fix::scratchpad_key(OWNER);
    if key != fix::transaction_key(OWNER) {
        // the addressing scheme no longer maps the kinds to one key: nothing to check
        ctx.label("kinds_no_longer_share_a_key");
        return;
    }
    let mut w = World { cl: Cluster::new(&[1], None), key, random_key: RecordKey::new(&fix::h32("c07-random", &[1])), foreign_key: fix::scratchpad_key(FOREIGN), reg_ops: vec![] };
    let first = kind_tag(&case.setup[0]);
    let mut idx = 0usize;
    let mut deliver = |w: &mut World, d: &Delivery, idx: &mut usize| -> bool {
        let (rec, path) = w.record_for(d, *idx);
        *idx += 1;
        let op = w.start(rec, path);
        w.cl.settle_op(&op);
        w.cl.settle();
        !w.cl.inconclusive
    };
    for d in &case.setup {
        if !deliver(&mut w, d, &mut idx) {
            ctx.label("inconclusive_timeout");
            return;
        }
    }
    let mut held = observe_any(&mut w);
    let established = match (&held, first) {
        (Obs::Pad(..), 0) | (Obs::Tx(_), 1) | (Obs::Chunk(_), 2) => true,
        _ => false,
    };
    ctx.label(format!("first_kind_{}", ["scratchpad", "transactions", "chunk"][first as usize]));
    if !established {
        ctx.precondition_failed("valid_first_upload_not_stored", format!("setup {:?} left {held:?}", case.setup));
        return;
    }
    let mut intrusions = 0;
    for d in &case.later {
        let other = kind_tag(d) != first;
        if !deliver(&mut w, d, &mut idx) {
            ctx.label("inconclusive_timeout");
            return;
        }
        let now = observe_any(&mut w);
        if other {
            intrusions += 1;
            if now != held {
                let names = ["scratchpad", "transactions", "chunk", "register"];
                ctx.fail(
                    format!("stored_{}_replaced_by_delivery_of_another_kind", names[first as usize]),
                    format!("the key held {held:?}; after {d:?} (same owner, same record key) it holds {now:?}"),
                );
                return;
            }
        } else {
            // same kind: may grow / move forward, never to another kind, never shrink or regress
            let fine = match (&held, &now) {
                (Obs::Pad(c0, _, _), Obs::Pad(c1, _, ok)) => c1 >= c0 && *ok,
                (Obs::Tx(a), Obs::Tx(b)) => a.is_subset(b),
                (Obs::Chunk(a), Obs::Chunk(b)) => a == b,
                _ => false,
            };
            if !fine {
                ctx.fail("record_regressed_after_interleaved_other_kind", format!("held {held:?}; after {d:?}: {now:?}"));
                return;
            }
            held = now;
        }
    }
    ctx.label_if(intrusions > 1, "several_other_kind_deliveries");
    ctx.nontrivial_if(intrusions > 0);
}


// ------------------------------------------------------------------------------------------------
// section large_register: "a stored register only ever grows: it is the union of all permitted
// operations delivered" also holds when the held version and the delivered one are LARGE and mostly
// overlap (each far above half of the 1024-entry limit, their union far below it) — the way clients
// deliver updates: the whole register again plus the new operations.
// ------------------------------------------------------------------------------------------------

const LARGE_POOL: usize = 720;

#[derive(Clone, Debug, Serialize, Deserialize)]
pub struct LargeRegCase {
    /// the first (paid or replicated) delivery holds ops[0..first]
    pub first: u16,
    pub first_replicated: bool,
    /// further deliveries: ops[from..to] by path
    pub later: Vec<(u16, u16, Path)>,
    /// 2-entry read cache; the record is pushed out of it and read back at the end
    pub cold_read: bool,
}

fn large_reg_strategy() -> BoxedStrategy<LargeRegCase> {
    let later = (0u16..=60, 0u16..=120, prop_oneof![2 => Just(Path::Unpaid), 2 => Just(Path::Replicated), 1 => Just(Path::Paid)]);
    (500u16..=690, any::<bool>(), proptest::collection::vec(later, 1..3), prop_oneof![3 => Just(false), 1 => Just(true)])
        .prop_map(|(first, first_replicated, later, cold_read)| {
            // every later version starts near the beginning (large overlap) and ends a little before or after
            // the end of what is held, so that some bring new operations and some bring none
            let mut end = first;
            let later = later
                .into_iter()
                .map(|(from, ahead, path)| {
                    let to = (end as i32 - 40 + ahead as i32).clamp(from as i32 + 1, LARGE_POOL as i32) as u16;
                    end = end.max(to);
                    (from, to, path)
                })
                .collect();
            LargeRegCase { first, first_replicated, later, cold_read }
        })
        .boxed()
}

fn large_pool() -> &'static Vec<RegisterOp> {
    static POOL: std::sync::OnceLock<Vec<RegisterOp>> = std::sync::OnceLock::new();
    POOL.get_or_init(|| fix::register_ops(OWNER + 7, REG_META + 1, LARGE_POOL, &[OWNER + 7]))
}

pub fn check_large_reg(case: &LargeRegCase, ctx: &mut Ctx) {
    let pool = large_pool();
    let base = fix::register_base(OWNER + 7, REG_META + 1, None);
    let key = fix::register_key(OWNER + 7, REG_META + 1);
    let mut w = World {
        cl: Cluster::new(&[1], if case.cold_read { Some((16 * 1024, 2)) } else { None }),
        key: key.clone(),
        random_key: RecordKey::new(&fix::h32("c07-random", &[1])),
        foreign_key: fix::register_key(FOREIGN, REG_META + 1),
        reg_ops: vec![],
    };
    let record_of = |w: &mut World, from: usize, to: usize, path: Path, idx: usize| -> Record {
        let reg = fix::signed_register(&base, OWNER + 7, pool[from..to].to_vec());
        let value = match path {
            Path::Paid => {
                let proof = w.proof_for(Kind::Reg, reg.address().xorname(), idx as u8);
                try_serialize_record(&(proof, reg.clone()), RecordKind::RegisterWithPayment).unwrap().to_vec()
            }
            _ => try_serialize_record(&reg, RecordKind::Register).unwrap().to_vec(),
        };
        fix::record(key.clone(), value)
    };
    let held_ops = |w: &mut World| -> Option<BTreeSet<RegisterOp>> { w.cl.local_get(0, &key).and_then(|r| try_deserialize_record::<SignedRegister>(&r).ok()).map(|r| r.ops().clone()) };
    let mut want: BTreeSet<RegisterOp> = BTreeSet::new();
    let first = (case.first as usize).clamp(1, LARGE_POOL);
    let mut steps: Vec<(usize, usize, Path)> = vec![(0, first, if case.first_replicated { Path::Replicated } else { Path::Paid })];
    steps.extend(case.later.iter().map(|(f, t, p)| ((*f as usize).min(LARGE_POOL - 1), (*t as usize).clamp(*f as usize + 1, LARGE_POOL), *p)));
    let (mut beyond, mut grew) = (0, 0);
    for (i, (from, to, path)) in steps.iter().enumerate() {
        let rec = record_of(&mut w, *from, *to, *path, i);
        let op = w.start(rec, *path);
        w.cl.settle_op(&op);
        w.cl.settle();
        if w.cl.inconclusive {
            ctx.label("inconclusive_timeout");
            return;
        }
        let res = op.take();
        let before = want.len();
        want.extend(pool[*from..*to].iter().cloned());
        if i > 0 {
            if before + (to - from) > 1024 {
                beyond += 1;
            }
            if want.len() > before {
                grew += 1;
            }
        }
        let have = held_ops(&mut w);
        if i == 0 && have.as_ref() != Some(&want) {
            // a valid first upload is the harness's precondition
            ctx.precondition_failed("valid_first_upload_not_stored", format!("first delivery of {first} entries by {path:?}: {res:?}"));
            return;
        }
        if have.as_ref() != Some(&want) {
            ctx.fail(
                "large_register_is_not_the_union_of_what_was_delivered",
                format!(
                    "delivery {i} ({path:?}) of entries {from}..{to} onto a held register of {before} entries returned {res:?}; the node holds {:?} entries, the union of everything delivered has {} (limit 1024)",
                    have.as_ref().map(|h| h.len()),
                    want.len()
                ),
            );
            return;
        }
    }
    if case.cold_read {
        // push the register out of the 2-entry read cache and read it back from disk
        for j in 0..3u64 {
            let c = fix::chunk_record(&fix::chunk(9100 + j, 30));
            w.cl.seed_record(0, c);
        }
        w.cl.settle();
        if held_ops(&mut w).as_ref() != Some(&want) {
            ctx.fail("large_register_on_disk_is_not_the_union_of_what_was_delivered", format!("after leaving the read cache the node holds {:?} entries, delivered union {}", held_ops(&mut w).map(|h| h.len()), want.len()));
        }
    }
    ctx.label_if(beyond > 0, "sizes_add_up_beyond_the_entry_limit");
    ctx.label_if(grew > 0, "update_brings_new_operations");
    ctx.label_if(case.cold_read, "cold_read");
    ctx.nontrivial_if(beyond > 0 && grew > 0);
    ctx.canon = Some(format!("{case:?}"));
    ctx.sample = Some(serde_json::json!({"case": case, "union": want.len()}));
}

pub fn run(cfg: RunCfg) {
    let mut rep = Report::new(cfg, "exploration");
    rep.rule = "C07: per kind (scratchpad / transactions / register) histories of <=9 deliveries for one owner with generated counters, signature validity, signer, key, path (paid / unpaid / replicated); flagged neighbours run concurrently under a generated command schedule.".into();
    rep.assumptions = vec![
        "an unpaid update is eligible only while the address is held; paid uploads carry a payment that is valid for exactly that address".into(),
        "a delivered register containing an operation by a non-writer is rejected as a whole (nothing of it is merged)".into(),
        "overlapping deliveries are judged against both serial orders of the sequential model".into(),
    ];
    vh_core::section!(
        rep, "updates", (5_000, 80_000), 16,
        "non-trivial: (>=1 rejected/stale delivery and >=1 accepted update) or an overlapping pair; distinct by whole history",
        case_strategy, check
    );
    vh_core::section!(
        rep, "same_key_other_kind", (1_200, 20_000), 16,
        "an owner's scratchpad, transaction set and the chunk of the owner's public-key bytes share one record key: 1-2 valid deliveries of one kind establish the record, then 1..5 deliveries of the other kinds (paid / unpaid / replicated) and of the same kind; the stored record must never be replaced by another kind, shrink or regress. non-trivial: >= 1 delivery of another kind after the record is established",
        mix_strategy, check_mix
    );
    vh_core::section!(
        rep, "large_register", (24, 600), 12,
        "a held register of 500-690 entries (paid upload or replicated copy), then 1-2 deliveries (unpaid / replicated / paid) of large, mostly overlapping versions, some with new operations: after every delivery the node holds exactly the union of what was delivered; a quarter of the cases read it back from disk at the end. non-trivial: held + delivered sizes add up beyond the 1024-entry limit and the delivery brings new operations",
        large_reg_strategy, check_large_reg
    );
    vh_core::fuzz_section!(rep, "updates", case_strategy, check, "sec_node", "node", 8_000, 300, 12);
    vh_core::fuzz_section!(rep, "same_key_other_kind", mix_strategy, check_mix, "sec_node", "node", 3_000, 200, 8);
    rep.finish();
}
