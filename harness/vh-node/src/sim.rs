//! NodeSim / ClusterSim: real `Node` validation code (through `VerifNode`) over real `SwarmDriver`s
//! that are never `run()`. The harness is the scheduler of everything that crosses a channel
//! (local commands, network commands, network events) and the transport between nodes; the payment
//! contract is a JSON-RPC stub reached through `EvmNetwork::Custom`.

#![allow(dead_code)]

use alloy::sol_types::SolCall;
use ant_evm::{EvmNetwork, RewardsAddress};
use ant_networking::verif_hooks::{LocalSwarmCmd, NetworkSwarmCmd};
use ant_networking::{MsgResponder, Network, NetworkBuilder, NetworkError, NetworkEvent, SwarmDriver};
use ant_node::verif_hooks::VerifNode;
use ant_protocol::messages::{Cmd, CmdResponse, Request, Response};
use ant_protocol::storage::RecordType;
use ant_protocol::NetworkAddress;
use evmlib::contract::payment_vault::interface::IPaymentVault;
use libp2p::identity::Keypair;
use libp2p::kad::{self, ProgressStep, QueryResult, QueryStats, Record, RecordKey};
use libp2p::PeerId;
use std::collections::HashMap;
use std::io::{Read, Write};
use std::net::{SocketAddr, TcpListener, TcpStream};
use std::num::NonZeroUsize;
use std::path::PathBuf;
use std::sync::{Arc, Mutex};
use std::time::{Duration, Instant};
use tokio::runtime::Runtime;
use tokio::sync::{mpsc, oneshot};
use vh_fix as fix;

pub type U256 = ant_evm::U256;

pub fn scratch_base() -> PathBuf {
    if let Ok(p) = std::env::var("VERIF_TMP") {
        return PathBuf::from(p);
    }
    let shm = std::path::Path::new("/dev/shm");
    if shm.is_dir() {
        shm.to_path_buf()
    } else {
        std::env::temp_dir()
    }
}

pub fn new_tempdir() -> tempfile::TempDir {
    tempfile::Builder::new().prefix("vh-node-").tempdir_in(scratch_base()).expect("tempdir")
}

// ------------------------------------------------------------------------------------------------
// EVM JSON-RPC stub
// ------------------------------------------------------------------------------------------------

#[derive(Default)]
pub struct StubState {
    /// quote hash -> (isValid, amountPaid)
    pub verdicts: HashMap<[u8; 32], (bool, u64)>,
    pub default_valid: bool,
    /// quote hashes of every verifyPayment call, in order
    pub calls: Vec<Vec<[u8; 32]>>,
    /// the contract cannot be asked: 0 = reachable, 1 = HTTP 503, 2 = JSON-RPC error object
    /// ("execution reverted"), 3 = empty result, 4 = connection closed without a reply
    pub outage: u8,
    /// requests that arrived while `outage` was set
    pub outage_hits: u32,
}

#[derive(Clone)]
pub struct EvmStub {
    pub state: Arc<Mutex<StubState>>,
    pub addr: SocketAddr,
}

impl EvmStub {
    pub fn start() -> EvmStub {
        let listener = TcpListener::bind("127.0.0.1:0").expect("bind stub");
        let addr = listener.local_addr().unwrap();
        let state = Arc::new(Mutex::new(StubState { default_valid: true, ..Default::default() }));
        let st = state.clone();
        std::thread::Builder::new()
            .name("evm-stub".into())
            .spawn(move || {
                for conn in listener.incoming() {
                    let Ok(conn) = conn else { continue };
                    let st = st.clone();
                    let _ = std::thread::Builder::new().name("evm-stub-conn".into()).spawn(move || serve(conn, st));
                }
            })
            .expect("spawn stub");
        EvmStub { state, addr }
    }

    pub fn network(&self) -> EvmNetwork {
        EvmNetwork::new_custom(
            &format!("http://{}/", self.addr),
            "0x0000000000000000000000000000000000000001",
            "0x0000000000000000000000000000000000000002",
        )
    }

    pub fn reset(&self) {
        let mut s = self.state.lock().unwrap();
        s.verdicts.clear();
        s.calls.clear();
        s.default_valid = true;
        s.outage = 0;
        s.outage_hits = 0;
    }
}

fn serve(mut conn: TcpStream, st: Arc<Mutex<StubState>>) {
    let _ = conn.set_nodelay(true);
    let mut buf: Vec<u8> = vec![];
    let mut tmp = [0u8; 8192];
    loop {
        // read one request
        let (head_end, clen) = loop {
            if let Some(p) = find(&buf, b"\r\n\r\n") {
                let head = String::from_utf8_lossy(&buf[..p]).to_ascii_lowercase();
                let clen = head
                    .lines()
                    .find_map(|l| l.strip_prefix("content-length:").map(|v| v.trim().parse::<usize>().unwrap_or(0)))
                    .unwrap_or(0);
                break (p + 4, clen);
            }
            match conn.read(&mut tmp) {
                Ok(0) | Err(_) => return,
                Ok(n) => buf.extend_from_slice(&tmp[..n]),
            }
        };
        while buf.len() < head_end + clen {
            match conn.read(&mut tmp) {
                Ok(0) | Err(_) => return,
                Ok(n) => buf.extend_from_slice(&tmp[..n]),
            }
        }
        let body: Vec<u8> = buf[head_end..head_end + clen].to_vec();
        buf.drain(..head_end + clen);
        let outage = {
            let mut s = st.lock().unwrap();
            if s.outage != 0 {
                s.outage_hits += 1;
            }
            s.outage
        };
        match outage {
            1 => {
                let b = "service unavailable";
                let resp = format!("HTTP/1.1 503 Service Unavailable\r\ncontent-type: text/plain\r\ncontent-length: {}\r\nconnection: keep-alive\r\n\r\n{b}", b.len());
                if conn.write_all(resp.as_bytes()).is_err() {
                    return;
                }
                continue;
            }
            2 | 3 => {
                let v: serde_json::Value = serde_json::from_slice(&body).unwrap_or(serde_json::Value::Null);
                let id = v.get("id").cloned().unwrap_or(serde_json::json!(1));
                let reply = if outage == 2 {
                    serde_json::json!({"jsonrpc": "2.0", "id": id, "error": {"code": 3, "message": "execution reverted"}}).to_string()
                } else {
                    serde_json::json!({"jsonrpc": "2.0", "id": id, "result": "0x"}).to_string()
                };
                let resp = format!("HTTP/1.1 200 OK\r\ncontent-type: application/json\r\ncontent-length: {}\r\nconnection: keep-alive\r\n\r\n{reply}", reply.len());
                if conn.write_all(resp.as_bytes()).is_err() {
                    return;
                }
                continue;
            }
            4 => return,
            _ => {}
        }
        let reply = answer(&body, &st);
        let resp = format!(
            "HTTP/1.1 200 OK\r\ncontent-type: application/json\r\ncontent-length: {}\r\nconnection: keep-alive\r\n\r\n",
            reply.len()
        );
        if conn.write_all(resp.as_bytes()).is_err() || conn.write_all(reply.as_bytes()).is_err() {
            return;
        }
    }
}

fn find(h: &[u8], n: &[u8]) -> Option<usize> {
    h.windows(n.len()).position(|w| w == n)
}

fn answer(body: &[u8], st: &Arc<Mutex<StubState>>) -> String {
    let v: serde_json::Value = serde_json::from_slice(body).unwrap_or(serde_json::Value::Null);
    let id = v.get("id").cloned().unwrap_or(serde_json::json!(1));
    let method = v.get("method").and_then(|m| m.as_str()).unwrap_or("");
    let result = match method {
        "eth_call" => {
            let p0 = &v["params"][0];
            let data = p0.get("input").or_else(|| p0.get("data")).and_then(|d| d.as_str()).unwrap_or("0x");
            let bytes = hex::decode(data.trim_start_matches("0x")).unwrap_or_default();
            match IPaymentVault::verifyPaymentCall::abi_decode(&bytes, true) {
                Ok(call) => {
                    let mut s = st.lock().unwrap();
                    let hashes: Vec<[u8; 32]> = call._payments.iter().map(|p| p.quoteHash.0).collect();
                    s.calls.push(hashes.clone());
                    let mut results: Vec<IPaymentVault::PaymentVerificationResult> = hashes
                        .iter()
                        .map(|h| {
                            let (valid, amount) = s.verdicts.get(h).copied().unwrap_or((s.default_valid, 1));
                            IPaymentVault::PaymentVerificationResult {
                                quoteHash: (*h).into(),
                                amountPaid: U256::from(amount),
                                isValid: valid,
                            }
                        })
                        .collect();
                    while results.len() < 3 {
                        results.push(IPaymentVault::PaymentVerificationResult { quoteHash: [0u8; 32].into(), amountPaid: U256::ZERO, isValid: true });
                    }
                    results.truncate(3);
                    let arr: [IPaymentVault::PaymentVerificationResult; 3] = [results[0].clone(), results[1].clone(), results[2].clone()];
                    let enc = IPaymentVault::verifyPaymentCall::abi_encode_returns(&(arr,));
                    serde_json::json!(format!("0x{}", hex::encode(enc)))
                }
                Err(_) => serde_json::json!("0x"),
            }
        }
        "eth_chainId" => serde_json::json!("0x1"),
        "eth_blockNumber" => serde_json::json!("0x1"),
        _ => serde_json::json!("0x"),
    };
    serde_json::json!({"jsonrpc": "2.0", "id": id, "result": result}).to_string()
}

thread_local! {
    static STUB: EvmStub = EvmStub::start();
}

pub fn thread_stub() -> EvmStub {
    STUB.with(|s| s.clone())
}

// ------------------------------------------------------------------------------------------------
// nodes
// ------------------------------------------------------------------------------------------------

pub struct NodeSim {
    pub net: Network,
    pub driver: SwarmDriver,
    pub events: mpsc::Receiver<NetworkEvent>,
    pub node: VerifNode,
    pub dir: tempfile::TempDir,
    pub keypair: Keypair,
    pub peer: PeerId,
    pub rewards: RewardsAddress,
}

pub enum Action {
    Local(usize, LocalSwarmCmd),
    Net(usize, NetworkSwarmCmd),
    Event(usize, NetworkEvent),
}

impl Action {
    pub fn describe(&self) -> String {
        match self {
            Action::Local(n, c) => format!("n{n} local {}", vh_core::one_line(&format!("{c:?}"), 80)),
            Action::Net(n, c) => format!("n{n} net {}", vh_core::one_line(&format!("{c:?}"), 80)),
            Action::Event(n, e) => format!("n{n} event {}", vh_core::one_line(&format!("{e:?}"), 80)),
        }
    }
    pub fn is_notification(&self) -> bool {
        matches!(self, Action::Local(_, LocalSwarmCmd::AddLocalRecordAsStored { .. }) | Action::Local(_, LocalSwarmCmd::RemoveFailedLocalRecord { .. }))
    }
}

/// (node, key) of a store completion notification
fn notification_key(a: &Action) -> Option<(usize, RecordKey)> {
    match a {
        Action::Local(n, LocalSwarmCmd::AddLocalRecordAsStored { key, .. }) => Some((*n, key.clone())),
        Action::Local(n, LocalSwarmCmd::RemoveFailedLocalRecord { key }) => Some((*n, key.clone())),
        _ => None,
    }
}

pub struct Cluster {
    pub rt: Runtime,
    pub nodes: Vec<NodeSim>,
    pub stub: EvmStub,
    pub pending: Vec<Action>,
    /// transport log: (from, to, what)
    pub wire: Vec<(usize, Option<usize>, String)>,
    pub replicate_lists: Vec<(usize, usize, Vec<(NetworkAddress, RecordType)>)>,
    /// replication lists addressed to peers that are no node of the cluster (routing-table entries only)
    pub replicate_to_strangers: Vec<(usize, PeerId, Vec<(NetworkAddress, RecordType)>)>,
    pub inconclusive: bool,
    /// alive tasks while idle (transport background tasks)
    pub idle_tasks: usize,
}

pub struct Op<T>(pub Arc<Mutex<Option<T>>>);
impl<T> Op<T> {
    pub fn done(&self) -> bool {
        self.0.lock().unwrap().is_some()
    }
    pub fn take(&self) -> Option<T> {
        self.0.lock().unwrap().take()
    }
}

impl Drop for Cluster {
    fn drop(&mut self) {
        let _g = self.rt.enter();
        self.pending.clear();
        self.nodes.clear();
    }
}

impl Cluster {
    /// `seeds[i]` identifies node i (keypair). Every node knows every other node as a peer.
    pub fn new(seeds: &[u64], store: Option<(usize, usize)>) -> Cluster {
        let rt = tokio::runtime::Builder::new_current_thread().enable_all().build().expect("runtime");
        let stub = thread_stub();
        stub.reset();
        let mut nodes = vec![];
        for s in seeds {
            let dir = new_tempdir();
            let keypair = fix::ed_keypair(*s);
            let (net, events, driver) = rt.block_on(async {
                ant_networking::verif_hooks::set_store_overrides(store);
                let mut b = NetworkBuilder::new(keypair.clone(), true);
                b.listen_addr("127.0.0.1:0".parse::<SocketAddr>().unwrap());
                let r = b.build_node(dir.path().to_path_buf()).expect("build_node");
                ant_networking::verif_hooks::set_store_overrides(None);
                r
            });
            let rewards = RewardsAddress::from_slice(&fix::h32("rewards", &[*s])[..20]);
            let node = VerifNode::new(net.clone(), rewards, stub.network());
            let peer = PeerId::from(keypair.public());
            nodes.push(NodeSim { net, driver, events, node, dir, keypair, peer, rewards });
        }
        let mut c = Cluster { rt, nodes, stub, pending: vec![], wire: vec![], replicate_lists: vec![], replicate_to_strangers: vec![], inconclusive: false, idle_tasks: usize::MAX };
        let n = c.nodes.len();
        for i in 0..n {
            for j in 0..n {
                if i != j {
                    let p = c.nodes[j].peer;
                    c.add_peer(i, p);
                }
            }
        }
        // let construction-time tasks (metrics flush etc.) finish, then take the idle baseline
        for _ in 0..3 {
            c.run_tasks();
            c.collect();
            while !c.pending.is_empty() {
                c.step(0);
            }
        }
        c.run_tasks();
        c.idle_tasks = c.alive_tasks();
        c
    }

    pub fn add_peer(&mut self, node: usize, peer: PeerId) -> bool {
        let addr: libp2p::Multiaddr = "/ip4/127.0.0.1/udp/4001/quic-v1".parse().unwrap();
        let d = &mut self.nodes[node].driver;
        self.rt.block_on(async move { d.verif_add_peer(peer, addr) })
    }

    pub fn idx_of(&self, p: &PeerId) -> Option<usize> {
        self.nodes.iter().position(|n| n.peer == *p)
    }

    /// Run a top-level operation on the shared runtime.
    pub fn spawn<T: Send + 'static>(&mut self, fut: impl std::future::Future<Output = T> + Send + 'static) -> Op<T> {
        let slot = Arc::new(Mutex::new(None));
        let s2 = slot.clone();
        self.rt.block_on(async move {
            tokio::spawn(async move {
                let r = fut.await;
                *s2.lock().unwrap() = Some(r);
            });
        });
        Op(slot)
    }

    /// Scheduler barrier: every task spawned before has run once this returns.
    pub fn run_tasks(&mut self) {
        self.rt.block_on(async {
            let done = Arc::new(std::sync::atomic::AtomicBool::new(false));
            let d2 = done.clone();
            tokio::spawn(async move {
                d2.store(true, std::sync::atomic::Ordering::SeqCst);
            });
            let mut spins = 0u32;
            while !done.load(std::sync::atomic::Ordering::SeqCst) {
                tokio::task::yield_now().await;
                spins += 1;
                if spins > 1_000_000 {
                    panic!("sentinel never ran");
                }
            }
        });
    }

    /// Move everything the nodes have sent into the pending list (arrival order per channel).
    pub fn collect(&mut self) -> usize {
        let mut n = 0;
        for i in 0..self.nodes.len() {
            while let Some(c) = self.nodes[i].driver.verif_try_recv_local_cmd() {
                self.pending.push(Action::Local(i, c));
                n += 1;
            }
            while let Some(c) = self.nodes[i].driver.verif_try_recv_network_cmd() {
                self.pending.push(Action::Net(i, c));
                n += 1;
            }
            while let Ok(e) = self.nodes[i].events.try_recv() {
                self.pending.push(Action::Event(i, e));
                n += 1;
            }
        }
        n
    }

    /// Execute the i-th pending action.
    pub fn step(&mut self, i: usize) {
        if i >= self.pending.len() {
            return;
        }
        // completion notifications of ONE key keep their issue order (as in the store sims: the
        // statements quantify over the order of messages and of tasks for different keys, not over a
        // reordering of one key's own completions): picking a later one delivers the earliest
        let i = match notification_key(&self.pending[i]) {
            Some(k) => self.pending.iter().position(|a| notification_key(a).as_ref() == Some(&k)).unwrap_or(i),
            None => i,
        };
        let act = self.pending.remove(i);
        if std::env::var_os("VERIF_DEBUG").is_some() {
            eprintln!("      step: {}", act.describe());
        }
        match act {
            Action::Local(n, cmd) => {
                let d = &mut self.nodes[n].driver;
                self.rt.block_on(async move {
                    let _ = d.verif_handle_local_cmd(cmd);
                });
            }
            Action::Event(n, ev) => {
                let node = self.nodes[n].node.clone();
                self.rt.block_on(async move { node.handle_network_event(ev) });
            }
            Action::Net(n, cmd) => self.transport(n, cmd),
        }
    }

    fn transport(&mut self, from: usize, cmd: NetworkSwarmCmd) {
        match cmd {
            NetworkSwarmCmd::SendRequest { req, peer, sender } => {
                let target = self.idx_of(&peer);
                self.wire.push((from, target, { let t = format!("{req:?}"); if std::env::var_os("VERIF_DEBUG").is_some() { let k = t.find("key:").or(t.find("keys:")).unwrap_or(0); t[k..].chars().take(100).collect() } else { vh_core::one_line(&t, 100) } }));
                let Some(t) = target else {
                    if let Request::Cmd(Cmd::Replicate { keys, .. }) = &req {
                        self.replicate_to_strangers.push((from, peer, keys.clone()));
                    }
                    // nobody there: the request fails
                    if let Some(s) = sender {
                        let _ = s.send(Err(NetworkError::InternalMsgChannelDropped));
                    }
                    return;
                };
                if t == from {
                    // the driver's own self-delivery branch
                    let d = &mut self.nodes[from].driver;
                    self.rt.block_on(async move {
                        let _ = d.verif_handle_network_cmd(NetworkSwarmCmd::SendRequest { req, peer, sender });
                    });
                    return;
                }
                match req {
                    Request::Cmd(Cmd::Replicate { holder, keys }) => {
                        self.replicate_lists.push((from, t, keys.clone()));
                        let d = &mut self.nodes[t].driver;
                        self.rt.block_on(async move { d.verif_on_replicate(holder, keys) });
                        if let Some(s) = sender {
                            let _ = s.send(Ok(Response::Cmd(CmdResponse::Replicate(Ok(())))));
                        }
                    }
                    Request::Cmd(Cmd::PeerConsideredAsBad { .. }) => {
                        if let Some(s) = sender {
                            let _ = s.send(Ok(Response::Cmd(CmdResponse::PeerConsideredAsBad(Ok(())))));
                        }
                    }
                    Request::Query(query) => {
                        // arrives at the target as the event its request-response behaviour would emit
                        self.pending.push(Action::Event(t, NetworkEvent::QueryRequestReceived { query, channel: MsgResponder::FromSelf(sender) }));
                    }
                }
            }
            NetworkSwarmCmd::GetNetworkRecord { key, sender, cfg } => {
                // nobody answers kad queries in these sims: the query ends as NotFound
                let before: Vec<_> = self.nodes[from].driver.verif_pending_get_record().into_iter().map(|x| x.0).collect();
                let k2 = key.clone();
                let d = &mut self.nodes[from].driver;
                self.rt.block_on(async move {
                    let _ = d.verif_handle_network_cmd(NetworkSwarmCmd::GetNetworkRecord { key: k2, sender, cfg });
                });
                let after = self.nodes[from].driver.verif_pending_get_record();
                for (id, k, _) in after {
                    if !before.contains(&id) || k == key {
                        let ev = kad::Event::OutboundQueryProgressed {
                            id,
                            result: QueryResult::GetRecord(Err(kad::GetRecordError::NotFound { key: k, closest_peers: vec![] })),
                            stats: QueryStats::empty(),
                            step: ProgressStep { count: NonZeroUsize::new(1).unwrap(), last: true },
                        };
                        let d = &mut self.nodes[from].driver;
                        self.rt.block_on(async move {
                            let _ = d.verif_handle_kad_event(ev);
                        });
                    }
                }
            }
            other => {
                let d = &mut self.nodes[from].driver;
                self.rt.block_on(async move {
                    let _ = d.verif_handle_network_cmd(other);
                });
            }
        }
    }

    /// Run until nothing is pending and `done()` holds; `pick(len)` chooses the next action.
    /// Real I/O (the EVM stub) may be in flight: nap instead of spinning. A wall-clock cap marks the
    /// case inconclusive, never a violation.
    pub fn run_until(&mut self, mut done: impl FnMut() -> bool, mut pick: impl FnMut(&[Action]) -> usize) {
        let t0 = Instant::now();
        let mut idle = 0;
        loop {
            self.run_tasks();
            self.collect();
            if !self.pending.is_empty() {
                idle = 0;
                let i = pick(&self.pending).min(self.pending.len() - 1);
                self.step(i);
                continue;
            }
            if done() {
                idle += 1;
                if idle >= 3 {
                    return;
                }
                continue;
            }
            self.rt.block_on(async { tokio::time::sleep(Duration::from_micros(300)).await });
            if t0.elapsed() > Duration::from_secs(10) {
                self.inconclusive = true;
                return;
            }
        }
    }

    /// Number of tasks alive on the shared runtime (background transport tasks included).
    pub fn alive_tasks(&self) -> usize {
        self.rt.metrics().num_alive_tasks()
    }

    /// FIFO scheduling until nothing is pending and no more tasks are alive than `baseline`
    /// (taken while the cluster was idle): spawned validations / fetches that are waiting on real
    /// I/O (the EVM stub) or on a retry sleep are thereby waited for.
    pub fn settle(&mut self) {
        let base = self.idle_tasks;
        let h = self.rt.handle().clone();
        self.run_until(move || h.metrics().num_alive_tasks() <= base, |_| 0);
    }

    /// Same, with a generated choice among the pending actions.
    pub fn settle_with(&mut self, pick: impl FnMut(&[Action]) -> usize) {
        let base = self.idle_tasks;
        let h = self.rt.handle().clone();
        self.run_until(move || h.metrics().num_alive_tasks() <= base, pick);
    }

    pub fn settle_op<T>(&mut self, op: &Op<T>) {
        let slot = op.0.clone();
        self.run_until(move || slot.lock().unwrap().is_some(), |_| 0);
    }

    /// Run until `op` has finished, but leave the store's completion notifications
    /// (AddLocalRecordAsStored / RemoveFailedLocalRecord) pending: the validation has returned while the
    /// driver has not yet handled the write's completion — the state in which the next delivery may arrive.
    pub fn settle_op_holding_acks<T>(&mut self, op: &Op<T>) {
        let t0 = Instant::now();
        let mut idle = 0;
        loop {
            self.run_tasks();
            self.collect();
            if let Some(i) = self.pending.iter().position(|a| !a.is_notification()) {
                idle = 0;
                self.step(i);
                continue;
            }
            if op.done() {
                idle += 1;
                if idle >= 3 {
                    return;
                }
                continue;
            }
            self.rt.block_on(async { tokio::time::sleep(Duration::from_micros(300)).await });
            if t0.elapsed() > Duration::from_secs(10) {
                self.inconclusive = true;
                return;
            }
        }
    }

    // ---- observations through the real command arms ---------------------------------------------

    pub fn local_get(&mut self, n: usize, key: &RecordKey) -> Option<Record> {
        let (tx, mut rx) = oneshot::channel();
        let d = &mut self.nodes[n].driver;
        let key = key.clone();
        self.rt.block_on(async move {
            let _ = d.verif_handle_local_cmd(LocalSwarmCmd::GetLocalRecord { key, sender: tx });
        });
        rx.try_recv().expect("sync answer")
    }

    pub fn local_has(&mut self, n: usize, key: &RecordKey) -> bool {
        let (tx, mut rx) = oneshot::channel();
        let d = &mut self.nodes[n].driver;
        let key = key.clone();
        self.rt.block_on(async move {
            let _ = d.verif_handle_local_cmd(LocalSwarmCmd::RecordStoreHasKey { key, sender: tx });
        });
        rx.try_recv().expect("sync answer")
    }

    pub fn local_list(&mut self, n: usize) -> HashMap<NetworkAddress, RecordType> {
        let (tx, mut rx) = oneshot::channel();
        let d = &mut self.nodes[n].driver;
        self.rt.block_on(async move {
            let _ = d.verif_handle_local_cmd(LocalSwarmCmd::GetAllLocalRecordAddresses { sender: tx });
        });
        rx.try_recv().expect("sync answer")
    }

    /// A snapshot of the whole store of node n: key bytes -> value bytes
    pub fn snapshot(&mut self, n: usize) -> std::collections::BTreeMap<Vec<u8>, Vec<u8>> {
        let mut out = std::collections::BTreeMap::new();
        for (addr, _) in self.local_list(n) {
            let k = addr.to_record_key();
            if let Some(r) = self.local_get(n, &k) {
                out.insert(k.to_vec(), r.value);
            } else {
                out.insert(k.to_vec(), vec![]);
            }
        }
        out
    }

    /// Seed a record into node n's store the way accepted records get there (PutLocalRecord + ack).
    pub fn seed_record(&mut self, n: usize, rec: Record) {
        let d = &mut self.nodes[n].driver;
        self.rt.block_on(async move {
            let _ = d.verif_handle_local_cmd(LocalSwarmCmd::PutLocalRecord { record: rec });
        });
        self.settle();
    }
}
