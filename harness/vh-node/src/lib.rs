//! vh-node: checks over the real node validation / replication code (ant-node) on hand-stepped
//! swarm drivers, with the harness as scheduler, transport and payment contract.
pub mod c03;
pub mod c04;
pub mod c07;
pub mod c09;
pub mod c10q;
pub mod payments;
pub mod sim;

pub fn main_entry() {
    let cfg = vh_core::RunCfg::from_args();
    match cfg.prop.as_str() {
        "C03" => c03::run(cfg),
        "C04" => c04::run(cfg),
        "C07" => c07::run(cfg),
        "C09" => c09::run(cfg),
        // the node-side section of C10 (child of vh-store's C10)
        "C10" => c10q::run_c10(cfg),
        other => {
            eprintln!("vh-node: unknown property {other}");
            std::process::exit(2);
        }
    }
}

/// Sections that the coverage-guided campaigns of the thorough tier drive (`/verif/fuzz`).
pub fn fuzz_table() -> vh_core::secfuzz::Table {
    use vh_core::secfuzz::entry;
    vec![
        entry("C03", "payment", c03::case_strategy, c03::check),
        entry("C03", "sequence", c03::seq_strategy, c03::check_sequence),
        entry("C03", "issued_quote", c10q::strategy, c10q::check),
        entry("C04", "address", c04::case_strategy, c04::check),
        entry("C07", "updates", c07::case_strategy, c07::check),
        entry("C07", "same_key_other_kind", c07::mix_strategy, c07::check_mix),
        entry("C09", "cluster", c09::case_strategy, c09::check),
        entry("C09", "forced_fetch", c09::forced_strategy, c09::check_forced),
        entry("C09", "advert_fanout", c09::fanout_strategy, c09::check_fanout),
    ]
}
