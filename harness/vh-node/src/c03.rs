//! C03 — new data is stored from a client only with a valid payment for that exact data.
//!
//! One real node (VerifNode over a hand-stepped driver, routing table with generated peers, EVM
//! JSON-RPC stub). Case = record kind x prior store content x a proof of payment of 3 quotes built
//! with six independently toggled conditions. Oracle: store-iff-all-conditions, store unchanged on
//! rejection, unpaid uploads only as updates of held mutable records.

use crate::payments::{proof, quote};
use crate::sim::*;
use ant_evm::ProofOfPayment;
use ant_protocol::storage::{try_serialize_record, RecordKind};
use ant_protocol::NetworkAddress;
use libp2p::kad::{Record, RecordKey};
use libp2p::PeerId;
use proptest::prelude::*;
use serde::{Deserialize, Serialize};
use sha2::{Digest, Sha256};
use vh_core::{pick_idx, Ctx, Report, RunCfg};
use vh_fix as fix;
use xor_name::XorName;

#[derive(Clone, Copy, Debug, Serialize, Deserialize, PartialEq, Eq, Hash)]
pub enum Kind {
    Chunk,
    Pad,
    Tx,
    Reg,
}

#[derive(Clone, Copy, Debug, Serialize, Deserialize, PartialEq, Eq, Hash)]
pub enum SFault {
    Ok,
    /// signature bytes of quote j corrupted
    CorruptSig(u8),
    /// quote j is genuinely signed by peer X but listed under payee Y
    ClaimedOther(u8),
    /// pub_key of quote j replaced by another key
    OtherPubKey(u8),
    /// entry j is listed under payee-id bytes that do not decode to a peer id, and its quote is
    /// forged (signed by a stranger in the name of the payee that stood there)
    UndecodablePayee(u8),
}

#[derive(Clone, Copy, Debug, Serialize, Deserialize, PartialEq, Eq, Hash)]
pub enum EFault {
    Ok,
    /// quote j is older than the validity window by this many seconds (>= 60)
    Old(u8, u16),
    /// quote j is dated this many seconds in the future (>= 60)
    Future(u8, u16),
}

#[derive(Clone, Copy, Debug, Serialize, Deserialize, PartialEq, Eq, Hash)]
pub enum KFault {
    Ok,
    /// a payee the node has never heard of
    Unknown,
    /// a payee that is in the routing table but beyond the K closest
    KnownButFar,
}

/// the payment contract cannot be asked at all (as opposed to answering "not paid")
#[derive(Clone, Copy, Debug, Default, Serialize, Deserialize, PartialEq, Eq, Hash)]
pub enum Rpc {
    #[default]
    Ok,
    Http503,
    RevertError,
    EmptyResult,
    ConnectionClosed,
}

#[derive(Clone, Debug, Serialize, Deserialize)]
pub struct Case {
    pub kind: Kind,
    pub paid: bool,
    /// 0 = key absent; 1.. = a prior version is held
    pub prior: u8,
    /// extra peers in the routing table
    pub rt_peers: u8,
    pub s: SFault,
    /// this node is among the payees
    pub p: bool,
    pub k: KFault,
    pub e: EFault,
    /// contract verdict per quote (false = not confirmed)
    pub o: [bool; 3],
    /// ... or no verdict can be had from the contract
    #[serde(default)]
    pub rpc: Rpc,
    /// this node's quote was issued for the stored address
    pub a: bool,
    /// position of this node's quote among the three
    pub own_pos: u8,
    pub seed: u8,
    /// scratchpads and transactions only: the node holds, under the SAME record key (an owner's
    /// scratchpad and transaction set share one), a record of the other kind — not "a mutable record
    /// the node already holds" of the uploaded kind
    #[serde(default)]
    pub prior_other_kind: bool,
}

impl Case {
    fn all_true(&self) -> bool {
        self.s == SFault::Ok && self.p && self.k == KFault::Ok && self.e == EFault::Ok && self.o.iter().all(|x| *x) && self.rpc == Rpc::Ok && self.a
    }
    fn false_count(&self) -> usize {
        [self.s != SFault::Ok, !self.p, self.k != KFault::Ok, self.e != EFault::Ok, !(self.o.iter().all(|x| *x) && self.rpc == Rpc::Ok), !self.a].iter().filter(|x| **x).count()
    }
}

pub fn case_strategy() -> BoxedStrategy<Case> {
    let kind = prop_oneof![Just(Kind::Chunk), Just(Kind::Pad), Just(Kind::Tx), Just(Kind::Reg)];
    let s = prop_oneof![(0u8..3).prop_map(SFault::CorruptSig), (0u8..3).prop_map(SFault::ClaimedOther), (0u8..3).prop_map(SFault::OtherPubKey), (0u8..3).prop_map(SFault::UndecodablePayee)];
    let e = prop_oneof![(0u8..3, 60u16..4000).prop_map(|(j, d)| EFault::Old(j, d)), (0u8..3, 60u16..4000).prop_map(|(j, d)| EFault::Future(j, d))];
    let k = prop_oneof![Just(KFault::Unknown), Just(KFault::KnownButFar)];
    // (verdicts, reachability): either the contract says "not paid" for some quote, or it cannot be asked
    let o = prop_oneof![
        4 => prop_oneof![Just([false, true, true]), Just([true, false, true]), Just([true, true, false]), Just([false, false, false])].prop_map(|o| (o, Rpc::Ok)),
        2 => prop_oneof![Just(Rpc::Http503), Just(Rpc::RevertError), Just(Rpc::EmptyResult), Just(Rpc::ConnectionClosed)].prop_map(|r| ([true; 3], r)),
    ];
    // which conditions are violated: all true / exactly one / several
    let mask = prop_oneof![
        3 => Just(0u8),
        6 => (0u8..6).prop_map(|i| 1u8 << i),
        2 => 1u8..64,
    ];
    (kind, prop_oneof![5 => Just(true), 1 => Just(false)], prop_oneof![3 => Just(0u8), 1 => 1u8..3], prop_oneof![Just(0u8), Just(4), Just(19), Just(28)], mask, s, k, e, o, 0u8..3, (any::<u8>(), prop_oneof![5 => Just(false), 1 => Just(true)]))
        .prop_map(|(kind, paid, prior, rt_peers, mask, s, k, e, o, own_pos, (seed, prior_other_kind))| Case {
            kind,
            paid,
            prior,
            rt_peers,
            s: if mask & 1 != 0 { s } else { SFault::Ok },
            p: mask & 2 == 0,
            k: if mask & 4 != 0 { k } else { KFault::Ok },
            e: if mask & 8 != 0 { e } else { EFault::Ok },
            o: if mask & 16 != 0 { o.0 } else { [true; 3] },
            rpc: if mask & 16 != 0 { o.1 } else { Rpc::Ok },
            a: mask & 32 == 0,
            own_pos,
            seed,
            prior_other_kind: prior_other_kind && !paid && matches!(kind, Kind::Pad | Kind::Tx),
        })
        .boxed()
}

pub struct Payload {
    pub key: RecordKey,
    pub address: NetworkAddress,
    pub xorname: XorName,
    /// record as a paying client uploads it
    pub build: Box<dyn Fn(Option<&ProofOfPayment>) -> Record>,
    /// an earlier version held by the node (prior >= 1), as it sits in the store
    pub prior: Option<Record>,
    /// the bytes the store must hold when the upload is accepted on an empty key
    pub expect_value: Vec<u8>,
}

pub fn payload(kind: Kind, seed: u8) -> Payload {
    let s = seed as u64;
    match kind {
        Kind::Chunk => {
            let c = fix::chunk(1000 + s, 40 + seed as usize % 50);
            let addr = c.network_address();
            let key = addr.to_record_key();
            let stored = fix::chunk_record(&c);
            let c2 = c.clone();
            let k2 = key.clone();
            Payload {
                key: key.clone(),
                xorname: *c.name(),
                address: addr,
                expect_value: stored.value.clone(),
                prior: Some(stored),
                build: Box::new(move |p| match p {
                    Some(p) => fix::record(k2.clone(), try_serialize_record(&(p.clone(), c2.clone()), RecordKind::ChunkWithPayment).unwrap().to_vec()),
                    None => fix::chunk_record(&c2),
                }),
            }
        }
        Kind::Pad => {
            let owner = 10 + s % 5;
            let pad = fix::scratchpad(owner, 1, fix::pseudo_bytes(s, 30), 5, fix::Sig::Valid);
            let old = fix::scratchpad(owner, 1, fix::pseudo_bytes(s + 1, 30), 2, fix::Sig::Valid);
            let addr = pad.network_address();
            let key = addr.to_record_key();
            let k2 = key.clone();
            let p2 = pad.clone();
            Payload {
                key: key.clone(),
                xorname: pad.name(),
                address: addr,
                expect_value: fix::scratchpad_record(&pad).value,
                prior: Some(fix::scratchpad_record(&old)),
                build: Box::new(move |p| match p {
                    Some(p) => fix::record(k2.clone(), try_serialize_record(&(p.clone(), p2.clone()), RecordKind::ScratchpadWithPayment).unwrap().to_vec()),
                    None => fix::scratchpad_record(&p2),
                }),
            }
        }
        Kind::Tx => {
            let owner = 20 + s % 5;
            let tx = fix::transaction(owner, s % 4, true);
            let old = fix::transaction(owner, 7, true);
            let key = fix::transaction_key(owner);
            let addr = NetworkAddress::from_transaction_address(tx.address());
            let k2 = key.clone();
            let t2 = tx.clone();
            Payload {
                key: key.clone(),
                xorname: *tx.address().xorname(),
                address: addr,
                expect_value: fix::transactions_record(key.clone(), &vec![tx.clone()]).value,
                prior: Some(fix::transactions_record(key.clone(), &vec![old])),
                build: Box::new(move |p| match p {
                    Some(p) => fix::record(k2.clone(), try_serialize_record(&(p.clone(), t2.clone()), RecordKind::TransactionWithPayment).unwrap().to_vec()),
                    None => fix::transactions_record(k2.clone(), &vec![t2.clone()]),
                }),
            }
        }
        Kind::Reg => {
            let owner = 30 + s % 3;
            let meta = s % 2;
            let base = fix::register_base(owner, meta, Some(vec![]));
            let ops = fix::register_ops(owner, meta, 3, &[owner]);
            let reg = fix::signed_register(&base, owner, ops[0..2].to_vec());
            let old = fix::signed_register(&base, owner, ops[2..3].to_vec());
            let key = fix::register_key(owner, meta);
            let addr = NetworkAddress::from_register_address(*reg.address());
            let k2 = key.clone();
            let r2 = reg.clone();
            Payload {
                key: key.clone(),
                xorname: reg.address().xorname(),
                address: addr,
                expect_value: fix::register_record(key.clone(), &reg).value,
                prior: Some(fix::register_record(key.clone(), &old)),
                build: Box::new(move |p| match p {
                    Some(p) => fix::record(k2.clone(), try_serialize_record(&(p.clone(), r2.clone()), RecordKind::RegisterWithPayment).unwrap().to_vec()),
                    None => fix::register_record(k2.clone(), &r2),
                }),
            }
        }
    }
}

/// reference distance (harness metric) between two peers
fn dist(a: &PeerId, b: &PeerId) -> [u8; 32] {
    let ha: [u8; 32] = Sha256::digest(a.to_bytes()).into();
    let hb: [u8; 32] = Sha256::digest(b.to_bytes()).into();
    let mut x = [0u8; 32];
    for i in 0..32 {
        x[i] = ha[i] ^ hb[i];
    }
    x
}

/// Build the proof for `case`; returns the proof, the quote hashes in order, and whether the
/// routing table allowed the requested K fault to be constructed.
pub fn build_proof(case: &Case, cl: &mut Cluster, pl: &Payload) -> (ProofOfPayment, Vec<[u8; 32]>, bool) {
    let me = cl.nodes[0].peer;
    let me_kp = cl.nodes[0].keypair.clone();
    // routing table: peers 200.. ; sorted by distance to self
    let mut known: Vec<(u64, PeerId)> = vec![];
    for i in 0..case.rt_peers as u64 {
        let p = fix::peer(200 + i);
        if cl.add_peer(0, p) {
            known.push((200 + i, p));
        }
    }
    known.sort_by_key(|(_, p)| dist(&me, p));
    // payees: self (if P) + others
    let mut k_constructed = true;
    let mut others: Vec<(u64, PeerId)> = vec![];
    let close: Vec<(u64, PeerId)> = known.iter().take(19).cloned().collect();
    let mut it = close.iter();
    while others.len() < 3 {
        match it.next() {
            Some(x) => others.push(*x),
            None => {
                // not enough known peers: with an (almost) empty routing table the only payee the
                // node can know as close is itself
                break;
            }
        }
    }
    let mut payees: Vec<(u64, PeerId)> = vec![];
    let own_pos = case.own_pos as usize % 3;
    let mut oi = 0;
    for pos in 0..3 {
        if pos == own_pos && case.p {
            payees.push((0, me));
        } else if oi < others.len() {
            payees.push(others[oi]);
            oi += 1;
        } else if case.p && pos != own_pos {
            // too few known peers: repeat self as payee (a proof may name a payee several times)
            payees.push((0, me));
        } else {
            payees.push((0, me));
        }
    }
    if !case.p {
        // self must not be a payee at all
        if others.len() < 3 {
            // cannot build 3 known payees without self: use unknown peers instead (P false dominates)
            payees = (0..3).map(|i| (900 + i as u64, fix::peer(900 + i as u64))).collect();
        } else {
            payees = others.iter().take(3).cloned().collect();
        }
    }
    match case.k {
        KFault::Ok => {}
        KFault::Unknown => {
            let j = (own_pos + 1) % 3;
            payees[j] = (950, fix::peer(950));
        }
        KFault::KnownButFar => {
            if known.len() >= 21 {
                let far = known[known.len() - 1];
                let j = (own_pos + 1) % 3;
                payees[j] = far;
            } else {
                let j = (own_pos + 1) % 3;
                payees[j] = (950, fix::peer(950));
                k_constructed = known.len() >= 21;
            }
        }
    }
    let other_xor = XorName(fix::h32("c03-other-content", &[case.seed as u64]));
    let mut entries: Vec<(PeerId, ant_evm::PaymentQuote)> = vec![];
    for (j, (id, peer)) in payees.iter().enumerate() {
        let kp = if *peer == me { me_kp.clone() } else { fix::ed_keypair(*id) };
        let age: i64 = match case.e {
            EFault::Old(q, d) if q as usize % 3 == j => 3600 + d as i64,
            EFault::Future(q, d) if q as usize % 3 == j => -(d as i64),
            _ => 5 + j as i64,
        };
        let content = if *peer == me && !case.a { other_xor } else { pl.xorname };
        let mut q = quote(&kp, content, age, case.seed as u64 * 10 + j as u64);
        let mut claimed = *peer;
        match case.s {
            SFault::CorruptSig(t) if t as usize % 3 == j => {
                let n = q.signature.len();
                q.signature[n / 2] ^= 0x40;
            }
            SFault::ClaimedOther(t) if t as usize % 3 == j => {
                // genuinely signed by someone else than the listed payee
                let stranger = fix::ed_keypair(970 + j as u64);
                q = quote(&stranger, content, age, case.seed as u64 * 10 + j as u64);
                claimed = *peer;
            }
            SFault::OtherPubKey(t) if t as usize % 3 == j => {
                q.pub_key = fix::ed_keypair(980 + j as u64).public().encode_protobuf();
            }
            SFault::UndecodablePayee(t) if t as usize % 3 == j => {
                // a quote in the payee's name that the payee never signed
                let n = q.signature.len();
                q.signature[n / 3] ^= 0x11;
            }
            _ => {}
        }
        entries.push((claimed, q));
    }
    let hashes: Vec<[u8; 32]> = entries.iter().map(|(_, q)| q.hash().0).collect();
    let mut pr = proof(entries);
    if let SFault::UndecodablePayee(t) = case.s {
        let j = t as usize % 3;
        // payee id bytes that are no valid multihash
        let junk: ant_evm::EncodedPeerId = rmp_serde::from_slice(&rmp_serde::to_vec(&vec![0xffu8, 0x00, 0x13, 0x37]).unwrap()).expect("EncodedPeerId is a byte vector");
        pr.peer_quotes[j].0 = junk;
    }
    (pr, hashes, k_constructed)
}

pub fn check(case: &Case, ctx: &mut Ctx) {
    let mut cl = Cluster::new(&[1], None);
    let pl = payload(case.kind, case.seed);
    // prior content
    let mut other_kind_held = false;
    if case.prior_other_kind && matches!(case.kind, Kind::Pad | Kind::Tx) {
        let s = case.seed as u64;
        let (owner, rec) = match case.kind {
            Kind::Pad => (10 + s % 5, fix::transactions_record(pl.key.clone(), &vec![fix::transaction(10 + s % 5, 1, true)])),
            _ => (20 + s % 5, fix::record(pl.key.clone(), fix::scratchpad_record(&fix::scratchpad(20 + s % 5, 1, fix::pseudo_bytes(s, 30), 3, fix::Sig::Valid)).value)),
        };
        if fix::transaction_key(owner) == pl.key && fix::scratchpad_key(owner) == pl.key {
            cl.seed_record(0, rec);
            other_kind_held = true;
            ctx.label("holds_a_record_of_another_kind_under_the_uploaded_key");
        }
    } else if case.prior > 0 {
        cl.seed_record(0, pl.prior.clone().expect("prior"));
    }
    // an unrelated record that must never change
    let bystander = fix::chunk(5, 33);
    cl.seed_record(0, fix::chunk_record(&bystander));
    let (proof, hashes, k_ok) = build_proof(case, &mut cl, &pl);
    {
        let mut st = cl.stub.state.lock().unwrap();
        for (j, h) in hashes.iter().enumerate() {
            st.verdicts.insert(*h, (case.o[j], 7 + j as u64));
        }
        st.outage = match case.rpc {
            Rpc::Ok => 0,
            Rpc::Http503 => 1,
            Rpc::RevertError => 2,
            Rpc::EmptyResult => 3,
            Rpc::ConnectionClosed => 4,
        };
    }
    let before = cl.snapshot(0);
    let held_before = before.contains_key(&pl.key.to_vec());
    let rec = (pl.build)(if case.paid { Some(&proof) } else { None });
    let node = cl.nodes[0].node.clone();
    let op = cl.spawn(async move { node.validate_and_store_record(rec).await.map_err(|e| format!("{e:?}")) });
    cl.settle_op(&op);
    cl.settle();
    if cl.inconclusive {
        ctx.label("inconclusive_timeout");
        return;
    }
    let res = op.take().expect("finished");
    let after = cl.snapshot(0);
    let held_after = after.contains_key(&pl.key.to_vec());
    let stored_new = !held_before && held_after;
    let calls = cl.stub.state.lock().unwrap().calls.clone();
    let all_true = case.all_true() && k_ok;
    let fc = case.false_count();
    ctx.sample = Some(serde_json::json!({"case": case, "result": format!("{res:?}"), "stored_new": stored_new, "contract_calls": calls.len()}));
    ctx.canon = Some(format!("{:?}/{}/{}/{:?}/{}/{:?}/{:?}/{:?}/{}/{}", case.kind, case.paid, case.prior.min(1), case.s, case.p, case.k, case.e, (case.o, case.rpc), case.a, case.rt_peers));
    ctx.label(format!("kind_{:?}_{}", case.kind, if case.paid { "paid" } else { "unpaid" }));
    ctx.label(if case.prior == 0 { "key_absent" } else { "key_held" });
    ctx.label(format!("conditions_false_{}", fc.min(2)));
    ctx.label_if(case.rpc != Rpc::Ok, &format!("contract_unreachable_{:?}", case.rpc));
    ctx.nontrivial_if(case.paid && fc <= 1 && k_ok);

    // the bystander never changes, no key other than the target ever appears
    for (k, v) in &after {
        if *k != pl.key.to_vec() && before.get(k) != Some(v) {
            ctx.fail("unrelated_record_changed", format!("key {} changed or appeared", hex::encode(&k[..6])));
        }
    }
    for k in before.keys() {
        if !after.contains_key(k) {
            ctx.fail("record_disappeared", format!("key {} vanished", hex::encode(&k[..6])));
        }
    }

    if !case.paid {
        // uploads without payment: only as updates to mutable records the node already holds
        if stored_new {
            ctx.fail("unpaid_upload_stored_new_data", format!("{:?} without payment stored at a key not held before", case.kind));
        }
        if !held_before && res.is_ok() {
            ctx.fail("unpaid_upload_of_new_data_not_rejected", format!("{:?} without payment on an absent key returned Ok", case.kind));
        }
        if matches!(case.kind, Kind::Chunk | Kind::Tx) && after != before {
            ctx.fail("unpaid_immutable_upload_changed_store", format!("{:?}", case.kind));
        }
        if other_kind_held && after != before {
            ctx.fail("unpaid_upload_replaced_a_held_record_of_another_kind", format!("{:?} without payment; the node held a record of another kind of the same owner under that key, result {res:?}", case.kind));
        }
        return;
    }
    if held_before {
        // the statement constrains new data only; held keys follow the update rules (C07)
        if case.kind == Kind::Chunk && after != before {
            ctx.fail("held_chunk_changed", "a chunk already held was modified".to_string());
        }
        return;
    }
    if all_true {
        if !stored_new || res.is_err() {
            ctx.precondition_failed("valid_paid_upload_rejected", format!("{:?}: every payment condition holds, yet result {res:?}, stored={stored_new}", case.kind));
        } else {
            if after.get(&pl.key.to_vec()) != Some(&pl.expect_value) {
                ctx.fail("stored_bytes_differ_from_upload", format!("{:?}", case.kind));
            }
            let asked_all = calls.last().map(|c| hashes.iter().all(|h| c.contains(h))).unwrap_or(false);
            if !asked_all {
                ctx.fail("stored_without_asking_the_contract_about_every_quote", format!("{} contract calls, last {:?}", calls.len(), calls.last().map(|c| c.len())));
            }
        }
    } else if case.all_true() && !k_ok {
        // requested K fault could not be constructed (too few known peers): payee is unknown => still K false
    }
    if !case.all_true() || !k_ok {
        if stored_new {
            let only_a = fc == 1 && !case.a;
            let sig = if only_a {
                "stored_with_own_quote_issued_for_another_address".to_string()
            } else {
                format!("stored_despite_failed_condition/S{}P{}K{}E{}O{}A{}", (case.s == SFault::Ok) as u8, case.p as u8, (case.k == KFault::Ok) as u8, (case.e == EFault::Ok) as u8, (case.o.iter().all(|x| *x) && case.rpc == Rpc::Ok) as u8, case.a as u8)
            };
            ctx.fail(sig, format!("{:?}: stored new data although S={:?} P={} K={:?} E={:?} O={:?} A={}", case.kind, case.s, case.p, case.k, case.e, (case.o, case.rpc), case.a));
        } else if res.is_ok() {
            ctx.fail("invalid_payment_not_rejected", format!("{:?}: nothing stored but the upload returned Ok with S={:?} P={} K={:?} E={:?} O={:?} A={}", case.kind, case.s, case.p, case.k, case.e, (case.o, case.rpc), case.a));
        }
        if !stored_new && after != before {
            ctx.fail("rejected_upload_changed_store", format!("{:?}", case.kind));
        }
    }
    let _ = pick_idx(0, 1);
}


// ------------------------------------------------------------------------------------------------
// section sequence: several uploads to ONE node. The statement judges every upload on its own proof
// ("the payment is confirmed by the payment contract"): what an earlier upload established — a
// confirmation of this node's quote, a stored-and-pruned record — must not carry over.
// ------------------------------------------------------------------------------------------------

#[derive(Clone, Debug, Serialize, Deserialize)]
pub struct SeqStep {
    /// scratchpads only: false = the payload is signed by a foreign key (rejected after the payment step)
    pub payload_valid: bool,
    pub own_paid: bool,
    pub others_paid: [bool; 2],
    pub rpc: Rpc,
    /// the proof carries this node's quote of the FIRST step again (clients re-send proofs)
    pub reuse_own_quote: bool,
    /// afterwards the record is dropped from the store (pruned), so the next upload is new data again
    pub remove_after: bool,
    /// right before this upload the node drops one of the other payees from its routing table (as it
    /// does with a peer it found bad): that payee is no longer a peer the node knows as close
    #[serde(default)]
    pub evict_co_payee: bool,
}

#[derive(Clone, Debug, Serialize, Deserialize)]
pub struct SeqCase {
    pub kind: Kind,
    pub seed: u8,
    pub steps: Vec<SeqStep>,
}

pub fn seq_strategy() -> BoxedStrategy<SeqCase> {
    let rpc = prop_oneof![8 => Just(Rpc::Ok), 1 => Just(Rpc::Http503), 1 => Just(Rpc::RevertError)];
    let step = (
        prop_oneof![2 => Just(true), 1 => Just(false)],
        prop_oneof![4 => Just(true), 1 => Just(false)],
        prop_oneof![3 => Just([true, true]), 1 => Just([false, true]), 1 => Just([true, false]), 1 => Just([false, false])],
        rpc,
        prop_oneof![3 => Just(true), 1 => Just(false)],
        prop_oneof![2 => Just(true), 1 => Just(false)],
        prop_oneof![4 => Just(false), 1 => Just(true)],
    )
        .prop_map(|(payload_valid, own_paid, others_paid, rpc, reuse_own_quote, remove_after, evict_co_payee)| SeqStep { payload_valid, own_paid, others_paid, rpc, reuse_own_quote, remove_after, evict_co_payee });
    (prop_oneof![3 => Just(Kind::Pad), 1 => Just(Kind::Chunk), 1 => Just(Kind::Tx), 1 => Just(Kind::Reg)], any::<u8>(), proptest::collection::vec(step, 2..vh_core::depth(5, 8)))
        .prop_map(|(kind, seed, steps)| SeqCase { kind, seed, steps })
        .boxed()
}

pub fn check_sequence(case: &SeqCase, ctx: &mut Ctx) {
    let mut cl = Cluster::new(&[1], None);
    let pl = payload(case.kind, case.seed);
    let me = cl.nodes[0].peer;
    let mut own_quote: Option<ant_evm::PaymentQuote> = None;
    let (mut judged_new, mut after_confirmed, mut reused) = (0, 0, 0);
    let mut evictions = 0;
    // this node's quote has been confirmed by the contract in an earlier step
    let mut confirmed_before = false;
    for (i, st) in case.steps.iter().enumerate() {
        let pc = Case { kind: case.kind, paid: true, prior: 0, rt_peers: 4, s: SFault::Ok, p: true, k: KFault::Ok, e: EFault::Ok, o: [true; 3], rpc: Rpc::Ok, a: true, own_pos: 0, seed: case.seed.wrapping_add(i as u8 * 7), prior_other_kind: false };
        let (mut proof, _h, _k) = build_proof(&pc, &mut cl, &pl);
        let own_pos = proof.peer_quotes.iter().position(|(p, _)| p.to_peer_id().ok() == Some(me));
        let Some(own_pos) = own_pos else {
            ctx.precondition_failed("own_quote_not_in_proof", String::new());
            return;
        };
        if i == 0 || own_quote.is_none() {
            own_quote = Some(proof.peer_quotes[own_pos].1.clone());
        } else if st.reuse_own_quote {
            proof.peer_quotes[own_pos].1 = own_quote.clone().expect("set");
            reused += 1;
        }
        {
            let mut s = cl.stub.state.lock().unwrap();
            let mut oi = 0;
            for (j, (_, q)) in proof.peer_quotes.iter().enumerate() {
                let v = if j == own_pos {
                    st.own_paid
                } else {
                    oi += 1;
                    st.others_paid[(oi - 1) % 2]
                };
                s.verdicts.insert(q.hash().0, (v, 3 + j as u64));
            }
            s.outage = match st.rpc {
                Rpc::Ok => 0,
                Rpc::Http503 => 1,
                Rpc::RevertError => 2,
                Rpc::EmptyResult => 3,
                Rpc::ConnectionClosed => 4,
            };
        }
        let mut evicted = false;
        if st.evict_co_payee {
            if let Some(p) = proof.peer_quotes.iter().filter_map(|(p, _)| p.to_peer_id().ok()).find(|p| *p != me) {
                let d = &mut cl.nodes[0].driver;
                cl.rt.block_on(async move { d.verif_remove_peer(&p) });
                evicted = true;
                evictions += 1;
            }
        }
        let payload_valid = st.payload_valid || case.kind != Kind::Pad;
        let rec = if payload_valid {
            (pl.build)(Some(&proof))
        } else {
            let s = case.seed as u64;
            let bad = fix::scratchpad(10 + s % 5, 1, fix::pseudo_bytes(s, 30), 5, fix::Sig::OtherKey);
            fix::record(pl.key.clone(), try_serialize_record(&(proof.clone(), bad), RecordKind::ScratchpadWithPayment).unwrap().to_vec())
        };
        let held_before = cl.local_get(0, &pl.key).is_some();
        let node = cl.nodes[0].node.clone();
        let op = cl.spawn(async move { node.validate_and_store_record(rec).await.map_err(|e| format!("{e:?}")) });
        cl.settle_op(&op);
        cl.settle();
        if cl.inconclusive {
            ctx.label("inconclusive_timeout");
            return;
        }
        let res = op.take().expect("finished");
        let held_after = cl.local_get(0, &pl.key).is_some();
        let confirmed = st.own_paid && st.others_paid.iter().all(|x| *x) && st.rpc == Rpc::Ok;
        if !held_before {
            judged_new += 1;
            if confirmed_before {
                after_confirmed += 1;
            }
            if held_after && evicted {
                ctx.fail(
                    "stored_with_a_payee_the_node_has_dropped_from_its_routing_table",
                    format!("step {i}: {:?} stored new data although one payee had just been removed from the routing table (result {res:?})", case.kind),
                );
                return;
            }
            if held_after && !(confirmed && payload_valid) {
                let what = if !payload_valid { "payload_not_owner_signed" } else if st.rpc != Rpc::Ok { "contract_unreachable" } else if !st.own_paid { "own_quote_unpaid" } else { "another_payees_quote_unpaid" };
                ctx.fail(
                    format!("stored_despite_unconfirmed_payment_in_a_later_upload/{what}"),
                    format!("step {i} of {:?}: {:?} stored new data; own quote {} (confirmed in an earlier step: {confirmed_before}), verdicts own={} others={:?} rpc={:?}, result {res:?}", case.steps.len(), case.kind, if st.reuse_own_quote && i > 0 { "re-sent" } else { "fresh" }, st.own_paid, st.others_paid, st.rpc),
                );
                return;
            }
            if !held_after && confirmed && payload_valid && !evicted {
                ctx.precondition_failed("valid_paid_upload_rejected(sequence)", format!("step {i}: {res:?}"));
            }
            if !held_after && res.is_ok() {
                ctx.fail("invalid_payment_not_rejected", format!("step {i}: nothing stored but Ok"));
            }
        }
        if confirmed {
            confirmed_before = true;
        }
        if st.remove_after && held_after {
            let d = &mut cl.nodes[0].driver;
            let k = pl.key.clone();
            cl.rt.block_on(async move {
                if let Some(store) = d.verif_node_store() {
                    use libp2p::kad::store::RecordStore;
                    store.remove(&k);
                }
            });
            cl.settle();
        }
    }
    ctx.label(format!("kind_{:?}", case.kind));
    ctx.label_if(reused > 0, "own_quote_re_sent");
    ctx.label_if(evictions > 0, "payee_dropped_from_routing_table_before_an_upload");
    ctx.label_if(after_confirmed > 0, "new_data_upload_after_own_quote_was_confirmed");
    ctx.nontrivial_if(after_confirmed > 0 && reused > 0 && judged_new >= 2);
}

pub fn run(cfg: RunCfg) {
    let mut rep = Report::new(cfg, "exploration");
    rep.rule = "C03: record kind (4 paid + 4 unpaid) x prior content x proof of 3 quotes with conditions S (signatures), P (payee), K (payees known as close), E (expiry), O (contract verdict), A (quoted address) toggled by construction: all true / exactly one false / several false.".into();
    rep.assumptions = vec![
        "the payment contract is the JSON-RPC stub's verdict table (Solidity contract not in the repository); proofs carry 3 quotes, the contract interface's fixed arity".into(),
        "expired / future quotes are at least 60 s beyond the boundary (wall clock)".into(),
        "uploads to a key already held are only required not to create other keys (their content rules are C07's)".into(),
    ];
    vh_core::section!(
        rep, "payment", (9_000, 120_000), 16,
        "non-trivial: paid upload with all conditions true or exactly one false; distinct by (kind, paid, prior, condition vector, routing-table size)",
        case_strategy, check
    );
    vh_core::section!(
        rep, "sequence", (4_000, 60_000), 16,
        "2..4 paid uploads of one address to one node: verdicts of the contract per quote and per step, reachability, this node's first quote re-sent in later proofs, payload validity (scratchpads), record pruned between steps; every upload of new data is judged on its own proof. non-trivial: a new-data upload after this node's quote was confirmed once, with that quote re-sent",
        seq_strategy, check_sequence
    );
    vh_core::section!(
        rep, "issued_quote", (1_500, 30_000), 16,
        &format!("{}. non-trivial: >= 2 new-data uploads judged, one of them with a quote the node issued for another address", crate::c10q::RULE),
        crate::c10q::strategy, crate::c10q::check
    );
    vh_core::fuzz_section!(rep, "payment", case_strategy, check, "sec_node", "node", 8_000, 300, 12);
    vh_core::fuzz_section!(rep, "sequence", seq_strategy, check_sequence, "sec_node", "node", 4_000, 300, 12);
    vh_core::fuzz_section!(rep, "issued_quote", crate::c10q::strategy, crate::c10q::check, "sec_node", "node", 3_000, 300, 12);
    rep.finish();
}
