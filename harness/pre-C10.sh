#!/bin/bash
# C10 has a node-side section (quotes the node really issues) that lives in vh-node (it needs the node
# simulator); build that binary too.
cd "$(dirname "$0")" || exit 2
LOG="$(mktemp)"
if ! CARGO_NET_OFFLINE=true cargo build --release --offline -p vh-node >"$LOG" 2>&1; then
  echo "pre-check: vh-node build failed" >&2; tail -30 "$LOG" >&2; rm -f "$LOG"; exit 2
fi
rm -f "$LOG"
