//! C19 — service lifecycle state matches the managed processes, even under faults.
//!
//! Generated: sequences of <=10 operations (add / start / stop / remove / upgrade, plus the
//! environment event "process crashes") over <=5 registry entries, executed by the real `add_node`
//! and the real `ServiceManager` over the stateful FakeOS, with a fault plan of 0-2 failing
//! FakeOS/RPC calls. Two ways of driving the manager are generated, both copied from callers in the
//! repository: `Cli` (what `cmd/node.rs` does per command: load the registry file, refresh it from the
//! process table, resolve the service by name skipping removed ones, run the operation, save on
//! success) and `Direct` (what the daemon's `rpc.rs` does: a `ServiceManager` over the in-memory
//! entry, no refresh; the harness saves after every operation).
//!
//! Oracle (after every operation, against FakeOS truth), written from the property statement:
//!   R1 recorded Running => a live process for that binary with the recorded pid (entries whose
//!      process the *environment* killed since the last successful operation on them are exempt)
//!   R2 stop/remove returned Ok => no live process for that binary and no recorded pid
//!   R3 an entry once recorded Removed stays Removed
//!   R4 operation returned Err => no entry went from not-Running to Running without such a process
//!   R5 after add: recorded names pairwise distinct, recorded data directories pairwise distinct
//!   R6 add requesting a port some (non-removed) entry already records => Err and no new entry
//!   R7 NodeRegistry::load(save(r)) serialises to the same JSON value as r and is the same state (Debug form)

use crate::fakeos::{self, CallKind, FakeOs, Fault};
use ant_bootstrap::PeersArgs;
use ant_evm::{EvmNetwork, RewardsAddress};
use ant_logging::LogFormat;
use ant_node_manager::{
    add_services::{
        add_node,
        config::{AddNodeServiceOptions, PortRange},
    },
    refresh_node_registry, ServiceManager, VerbosityLevel,
};
use ant_service_management::{
    NatDetectionStatus, NodeRegistry, NodeService, ServiceStatus, UpgradeOptions, UpgradeResult,
};
use proptest::prelude::*;
use serde::{Deserialize, Serialize};
use serde_json::json;
use std::{
    collections::{BTreeMap, BTreeSet},
    net::Ipv4Addr,
    path::{Path, PathBuf},
    str::FromStr,
    time::{Duration, Instant},
};
use vh_core::{pick_idx, Ctx, Failure, Report, RunCfg, SectionStats};

const MAX_ENTRIES: usize = 5;
const PORT_BASE: u16 = 12_000;

// ------------------------------------------------------------------------------------------------
// case types
// ------------------------------------------------------------------------------------------------

#[derive(Clone, Copy, Debug, PartialEq, Eq, Serialize, Deserialize)]
pub enum Glue {
    Cli,
    Direct,
}

#[derive(Clone, Debug, Serialize, Deserialize)]
pub enum PortBase {
    /// PORT_BASE + n
    Fresh(u8),
    /// the `pick`-th port currently recorded in the registry, minus `back` (so that a range can
    /// cover a recorded port that is not its first element); Fresh(0) if nothing is recorded
    Recorded { pick: u16, back: u8 },
}

#[derive(Clone, Debug, Serialize, Deserialize)]
pub enum PortShape {
    /// as many ports as services: Single for one, Range(start, start+count-1) otherwise
    Fit,
    Single,
    /// Range(start, start+len-1), len >= 2
    RangeLen(u8),
}

#[derive(Clone, Debug, Serialize, Deserialize)]
pub struct PortReq {
    pub base: PortBase,
    pub shape: PortShape,
}

#[derive(Clone, Debug, Serialize, Deserialize)]
pub struct AddOp {
    pub count: Option<u16>,
    pub node_port: Option<PortReq>,
    pub rpc_port: Option<PortReq>,
    pub metrics_port: Option<PortReq>,
    pub enable_metrics: bool,
    pub user_mode: bool,
    pub first: bool,
    pub env: bool,
    /// preset bundle of the remaining options (exercises the registry's serialisation)
    pub flavour: u8,
    /// 0: auto_set_nat_flags off; 1..=4: on, with registry nat_status None/Public/UPnP/Private
    pub nat: u8,
}

#[derive(Clone, Copy, Debug, Serialize, Deserialize)]
pub enum VerDir {
    Up,
    Same,
    Down,
}

#[derive(Clone, Debug, Serialize, Deserialize)]
pub enum Op {
    Add(AddOp),
    Start(u16),
    Stop(u16),
    Remove(u16, bool),
    Upgrade {
        i: u16,
        ver: VerDir,
        force: bool,
        start: bool,
    },
    /// environment event: the service's process disappears
    Crash(u16),
}

impl Op {
    fn kind(&self) -> &'static str {
        match self {
            Op::Add(_) => "add",
            Op::Start(_) => "start",
            Op::Stop(_) => "stop",
            Op::Remove(..) => "remove",
            Op::Upgrade { .. } => "upgrade",
            Op::Crash(_) => "crash",
        }
    }
    fn short(&self) -> String {
        match self {
            Op::Add(a) => format!(
                "add(count={:?},node={},rpc={},metrics={}{}{}{})",
                a.count,
                port_short(&a.node_port),
                port_short(&a.rpc_port),
                port_short(&a.metrics_port),
                if a.first { ",first" } else { "" },
                if a.user_mode { ",user" } else { "" },
                if a.nat > 0 { ",nat" } else { "" },
            ),
            Op::Start(i) => format!("start({i})"),
            Op::Stop(i) => format!("stop({i})"),
            Op::Remove(i, k) => format!("remove({i},keep={k})"),
            Op::Upgrade {
                i,
                ver,
                force,
                start,
            } => format!("upgrade({i},{ver:?},force={force},start={start})"),
            Op::Crash(i) => format!("crash({i})"),
        }
    }
}

fn port_short(p: &Option<PortReq>) -> String {
    match p {
        None => "-".into(),
        Some(r) => format!("{:?}/{:?}", r.base, r.shape),
    }
}

#[derive(Clone, Debug, Serialize, Deserialize)]
pub struct Case {
    pub glue: Glue,
    pub ops: Vec<Op>,
    pub faults: Vec<Fault>,
}

// ------------------------------------------------------------------------------------------------
// generators
// ------------------------------------------------------------------------------------------------

fn port_req() -> BoxedStrategy<Option<PortReq>> {
    let base = prop_oneof![
        5 => (0u8..16).prop_map(PortBase::Fresh),
        1 => (any::<u16>(), 0u8..3).prop_map(|(pick, back)| PortBase::Recorded { pick, back }),
    ];
    let shape = prop_oneof![
        16 => Just(PortShape::Fit),
        1 => Just(PortShape::Single),
        1 => (2u8..4).prop_map(PortShape::RangeLen),
    ];
    prop_oneof![
        3 => Just(None),
        4 => (base, shape).prop_map(|(base, shape)| Some(PortReq { base, shape })),
    ]
    .boxed()
}

fn add_op() -> BoxedStrategy<AddOp> {
    (
        prop_oneof![2 => Just(None), 3 => Just(Some(1u16)), 3 => Just(Some(2u16)), 3 => Just(Some(3u16))],
        port_req(),
        port_req(),
        port_req(),
        any::<bool>(),
        any::<bool>(),
        prop::bool::weighted(0.12),
        prop::bool::weighted(0.3),
        0u8..4,
        prop_oneof![12 => Just(0u8), 1 => 1u8..5],
    )
        .prop_map(
            |(count, node_port, rpc_port, metrics_port, enable_metrics, user_mode, first, env, flavour, nat)| AddOp {
                count,
                node_port,
                rpc_port,
                metrics_port,
                enable_metrics,
                user_mode,
                first,
                env,
                flavour,
                nat,
            },
        )
        .boxed()
}

fn op_strategy() -> BoxedStrategy<Op> {
    let ver = prop_oneof![3 => Just(VerDir::Up), 1 => Just(VerDir::Same), 1 => Just(VerDir::Down)];
    prop_oneof![
        3 => add_op().prop_map(Op::Add),
        5 => any::<u16>().prop_map(Op::Start),
        4 => any::<u16>().prop_map(Op::Stop),
        3 => (any::<u16>(), any::<bool>()).prop_map(|(i, k)| Op::Remove(i, k)),
        4 => (any::<u16>(), ver, any::<bool>(), any::<bool>())
            .prop_map(|(i, ver, force, start)| Op::Upgrade { i, ver, force, start }),
        2 => any::<u16>().prop_map(Op::Crash),
    ]
    .boxed()
}

fn ops_strategy() -> BoxedStrategy<Vec<Op>> {
    // a sequence starts with an add (nothing else can act on an empty registry)
    (add_op(), proptest::collection::vec(op_strategy(), 0..10))
        .prop_map(|(mut a, rest)| {
            // keep the opening add free of the combinations add_node rejects up front
            a.nat = 0;
            if a.count.unwrap_or(1) > 1 {
                a.first = false;
            }
            for p in [&mut a.node_port, &mut a.rpc_port, &mut a.metrics_port].into_iter().flatten() {
                p.shape = PortShape::Fit;
            }
            let mut v = vec![Op::Add(a)];
            v.extend(rest);
            v
        })
        .boxed()
}

fn fault_strategy() -> BoxedStrategy<Fault> {
    // call index within the operation: most operations make 1-6 calls
    let call = prop_oneof![7 => 0u8..3, 3 => 3u8..6, 1 => 6u8..12];
    (0u8..10, call, any::<u8>())
        .prop_map(|(op, call, variant)| Fault { op, call, variant })
        .boxed()
}

pub fn case_strategy() -> BoxedStrategy<Case> {
    let faults = prop_oneof![
        3 => Just(vec![]),
        10 => fault_strategy().prop_map(|f| vec![f]),
        7 => (fault_strategy(), fault_strategy()).prop_map(|(a, b)| vec![a, b]),
    ];
    (
        prop_oneof![Just(Glue::Cli), Just(Glue::Direct)],
        ops_strategy(),
        faults,
    )
        .prop_map(|(glue, ops, mut faults)| {
            // place faults inside the sequence (monotone in `op`)
            let n = ops.len();
            for f in faults.iter_mut() {
                f.op = ((f.op as usize * n) / 10) as u8;
            }
            Case { glue, ops, faults }
        })
        .boxed()
}

// ------------------------------------------------------------------------------------------------
// interpreter
// ------------------------------------------------------------------------------------------------

fn fatal(msg: String) -> ! {
    eprintln!("vh-mgmt: harness environment failure (inconclusive): {msg}");
    std::process::exit(2);
}

struct Env {
    tmp: tempfile::TempDir,
    os: FakeOs,
    glue: Glue,
    reg_path: PathBuf,
    /// Direct glue: the long-lived in-memory registry
    reg: NodeRegistry,
    src_bin: PathBuf,
    new_bin: PathBuf,
    username: Option<String>,
}

fn empty_registry(path: &Path) -> NodeRegistry {
    NodeRegistry {
        auditor: None,
        daemon: None,
        environment_variables: None,
        faucet: None,
        nat_status: None,
        nodes: vec![],
        save_path: path.to_path_buf(),
    }
}

impl Env {
    fn new(glue: Glue, faults: Vec<Fault>) -> Env {
        let tmp = fakeos::scratch_dir("vh-c19-").unwrap_or_else(|e| fatal(format!("tempdir: {e}")));
        let src_bin = tmp.path().join("src").join("antnode");
        let new_bin = tmp.path().join("src").join("antnode-new");
        std::fs::create_dir_all(tmp.path().join("src")).unwrap_or_else(|e| fatal(format!("{e}")));
        std::fs::write(&src_bin, b"#!/bin/false\nold\n").unwrap_or_else(|e| fatal(format!("{e}")));
        std::fs::write(&new_bin, b"#!/bin/false\nnew\n").unwrap_or_else(|e| fatal(format!("{e}")));
        let reg_path = tmp.path().join("registry").join("node_registry.json");
        Env {
            os: FakeOs::new(faults),
            glue,
            reg: empty_registry(&reg_path),
            reg_path,
            src_bin,
            new_bin,
            username: fakeos::current_username(),
            tmp,
        }
    }

    /// the registry as a later command (or `antctl status`) would find it
    /// Err: the file the code under test saved last does not load ("the registry saved after each
    /// step loads back to the same state" — a violation, not an environment failure)
    fn recorded(&self) -> Result<NodeRegistry, String> {
        match self.glue {
            Glue::Cli => NodeRegistry::load(&self.reg_path).map_err(|e| format!("{e}")),
            Glue::Direct => Ok(self.reg.clone()),
        }
    }
}

fn recorded_ports(reg: &NodeRegistry, include_removed: bool) -> BTreeSet<u16> {
    let mut s = BTreeSet::new();
    for n in &reg.nodes {
        if !include_removed && n.status == ServiceStatus::Removed {
            continue;
        }
        if let Some(p) = n.node_port {
            s.insert(p);
        }
        if let Some(p) = n.metrics_port {
            s.insert(p);
        }
        s.insert(n.rpc_socket_addr.port());
    }
    s
}

fn resolve_port(req: &Option<PortReq>, count: u16, reg: &NodeRegistry) -> Option<PortRange> {
    let req = req.as_ref()?;
    let start = match &req.base {
        PortBase::Fresh(n) => PORT_BASE + *n as u16,
        PortBase::Recorded { pick, back } => {
            let all: Vec<u16> = recorded_ports(reg, true).into_iter().collect();
            if all.is_empty() {
                PORT_BASE
            } else {
                all[pick_idx(*pick, all.len())].saturating_sub(*back as u16).max(1024)
            }
        }
    };
    Some(match req.shape {
        PortShape::Fit if count <= 1 => PortRange::Single(start),
        PortShape::Fit => PortRange::Range(start, start + count - 1),
        PortShape::Single => PortRange::Single(start),
        PortShape::RangeLen(n) => PortRange::Range(start, start + (n.max(2) as u16) - 1),
    })
}

fn ports_of(r: &Option<PortRange>) -> Vec<u16> {
    match r {
        None => vec![],
        Some(PortRange::Single(p)) => vec![*p],
        Some(PortRange::Range(a, b)) => (*a..=*b).collect(),
    }
}

fn rewards_address(n: u8) -> RewardsAddress {
    RewardsAddress::from_str(&format!("0x{}", hex::encode([n.max(1); 20]))).expect("address")
}

fn flavour(a: &AddOp, tmp: &Path) -> (EvmNetwork, PeersArgs, Option<LogFormat>, Option<String>, Option<u8>, Option<Ipv4Addr>, Option<Ipv4Addr>, bool, bool, Option<usize>) {
    let mut peers = PeersArgs::default();
    let (evm, log_format, owner, network_id, node_ip, rpc_ip, home, upnp, max_logs) = match a.flavour {
        0 => (EvmNetwork::ArbitrumOne, None, None, None, None, None, false, false, None),
        1 => {
            peers.addrs = vec![format!(
                "/ip4/10.0.0.1/udp/4000/quic-v1/p2p/{}",
                fakeos::peer_id_from("bootstrap", 1)
            )
            .parse()
            .expect("multiaddr")];
            (
                EvmNetwork::new_custom(
                    "http://localhost:8545",
                    "0x5FbDB2315678afecb367f032d93F642f64180aa3",
                    "0x8464135c8F25Da09e49BC8782676a84730C318bC",
                ),
                Some(LogFormat::Json),
                Some("Alice".to_string()),
                None,
                None,
                None,
                false,
                false,
                Some(7),
            )
        }
        2 => {
            peers.local = true;
            peers.disable_mainnet_contacts = true;
            (
                EvmNetwork::ArbitrumSepolia,
                Some(LogFormat::Default),
                None,
                Some(9),
                Some(Ipv4Addr::new(10, 1, 2, 3)),
                Some(Ipv4Addr::new(127, 0, 0, 2)),
                false,
                false,
                None,
            )
        }
        _ => {
            peers.network_contacts_url = vec!["http://contacts.example/list".to_string()];
            peers.ignore_cache = true;
            peers.bootstrap_cache_dir = Some(tmp.join("boot cache"));
            (EvmNetwork::ArbitrumOne, None, Some("bob".to_string()), None, None, None, true, true, Some(3))
        }
    };
    if a.first {
        peers.addrs.clear();
        peers.network_contacts_url.clear();
        peers.first = true;
    }
    (evm, peers, log_format, owner, network_id, node_ip, rpc_ip, home, upnp, max_logs)
}

struct AddInfo {
    requested: Vec<u16>,
    before_len: usize,
    had_gap: bool,
}

struct OpOutcome {
    kind: &'static str,
    skipped: bool,
    ok: bool,
    msg: String,
    /// registry index the operation acted on (after name resolution)
    target: Option<usize>,
    add: Option<AddInfo>,
    crashed: Option<usize>,
}

fn target_version(current: &str, dir: VerDir) -> semver::Version {
    let mut v = semver::Version::parse(current).unwrap_or_else(|_| semver::Version::new(0, 112, 3));
    match dir {
        VerDir::Up => v.patch += 1,
        VerDir::Same => {}
        VerDir::Down => {
            if v.minor > 0 {
                v.minor -= 1;
                v.patch = 9;
            } else {
                v = semver::Version::new(0, 0, 0);
            }
        }
    }
    v
}

async fn run_op(env: &mut Env, op_idx: usize, op: &Op) -> Result<OpOutcome, String> {
    Ok(run_op_inner(env, op_idx, op).await?)
}

async fn run_op_inner(env: &mut Env, op_idx: usize, op: &Op) -> Result<OpOutcome, String> {
    env.os.st().begin_op(op_idx);
    let mut out = OpOutcome {
        kind: op.kind(),
        skipped: false,
        ok: false,
        msg: String::new(),
        target: None,
        add: None,
        crashed: None,
    };

    if let Op::Crash(i) = op {
        let rec = env.recorded()?;
        if rec.nodes.is_empty() {
            out.skipped = true;
            return Ok(out);
        }
        let k = pick_idx(*i, rec.nodes.len());
        if env.os.crash(&rec.nodes[k].antnode_path) {
            out.crashed = Some(k);
        }
        out.ok = true;
        out.target = Some(k);
        return Ok(out);
    }

    // the registry the command works on
    let mut reg = match env.glue {
        Glue::Cli => NodeRegistry::load(&env.reg_path).map_err(|e| format!("{e}"))?,
        Glue::Direct => std::mem::replace(&mut env.reg, empty_registry(&env.reg_path)),
    };
    let os = env.os.clone();

    match op {
        Op::Add(a) => {
            let count = a.count.unwrap_or(1);
            if reg.nodes.len() + count as usize > MAX_ENTRIES {
                out.skipped = true;
            } else {
                let node_port = resolve_port(&a.node_port, count, &reg);
                let rpc_port = resolve_port(&a.rpc_port, count, &reg);
                let metrics_port = resolve_port(&a.metrics_port, count, &reg);
                let mut requested = ports_of(&node_port);
                requested.extend(ports_of(&rpc_port));
                requested.extend(ports_of(&metrics_port));
                let max_number = reg.nodes.iter().map(|n| n.number as usize).max().unwrap_or(0);
                out.add = Some(AddInfo {
                    requested,
                    before_len: reg.nodes.len(),
                    had_gap: max_number > reg.nodes.len(),
                });
                if a.nat > 0 {
                    // `antctl nat-detection` result, stored in the registry by an earlier command
                    reg.nat_status = match a.nat {
                        1 => None,
                        2 => Some(NatDetectionStatus::Public),
                        3 => Some(NatDetectionStatus::UPnP),
                        _ => Some(NatDetectionStatus::Private),
                    };
                }
                let (evm, peers, log_format, owner, network_id, node_ip, rpc_ip, home, upnp, max_logs) =
                    flavour(a, env.tmp.path());
                let user_mode = a.user_mode || env.username.is_none();
                let base = env.tmp.path().join(if user_mode { "user data" } else { "services" });
                let logs = env.tmp.path().join(if user_mode { "user logs" } else { "log" });
                let options = AddNodeServiceOptions {
                    antnode_dir_path: base.clone(),
                    antnode_src_path: env.src_bin.clone(),
                    auto_restart: a.flavour == 1,
                    auto_set_nat_flags: a.nat > 0,
                    count: a.count,
                    delete_antnode_src: false,
                    enable_metrics_server: a.enable_metrics,
                    env_variables: if a.env {
                        Some(vec![("RUST_LOG".to_string(), "debug".to_string())])
                    } else {
                        None
                    },
                    evm_network: evm,
                    home_network: home,
                    log_format,
                    max_archived_log_files: max_logs,
                    max_log_files: max_logs.map(|n| n + 1),
                    metrics_port,
                    network_id,
                    node_ip,
                    node_port,
                    owner,
                    peers_args: peers,
                    rewards_address: rewards_address(a.flavour + 1),
                    rpc_address: rpc_ip,
                    rpc_port,
                    service_data_dir_path: base,
                    service_log_dir_path: logs,
                    upnp,
                    user: if user_mode { None } else { env.username.clone() },
                    user_mode,
                    version: "0.112.3".to_string(),
                };
                match add_node(options, &mut reg, &os, VerbosityLevel::Minimal).await {
                    Ok(_) => {
                        out.ok = true;
                        // cmd::node::add saves after a successful add_node
                        reg.save().unwrap_or_else(|e| fatal(format!("save: {e}")));
                    }
                    Err(e) => out.msg = format!("{e}"),
                }
            }
        }
        Op::Start(i) | Op::Stop(i) | Op::Remove(i, _) | Op::Upgrade { i, .. } => {
            if reg.nodes.is_empty() {
                out.skipped = true;
            } else {
                if env.glue == Glue::Cli {
                    // every CLI command refreshes the registry from the process table first
                    if let Err(e) =
                        refresh_node_registry(&mut reg, &os, false, false, false).await
                    {
                        out.msg = format!("refresh: {e}");
                    }
                }
                let k = pick_idx(*i, reg.nodes.len());
                let idx = match env.glue {
                    Glue::Direct => Some(k),
                    Glue::Cli => {
                        // get_services_for_ops: by name, skipping removed entries
                        let name = reg.nodes[k].service_name.clone();
                        reg.nodes
                            .iter()
                            .position(|x| x.service_name == name && x.status != ServiceStatus::Removed)
                    }
                };
                match idx {
                    None => out.msg = "No service named".to_string(),
                    Some(idx) if out.msg.is_empty() => {
                        out.target = Some(idx);
                        let environment_variables = reg.environment_variables.clone();
                        let node = &mut reg.nodes[idx];
                        let current_version = node.version.clone();
                        let rpc = os.rpc(node.rpc_socket_addr);
                        let mut service = NodeService::new(node, Box::new(rpc));
                        if matches!(op, Op::Start(_) | Op::Upgrade { .. }) {
                            service = service.with_connection_timeout(Duration::from_secs(300));
                        }
                        let mut manager =
                            ServiceManager::new(service, Box::new(os.clone()), VerbosityLevel::Minimal);
                        let mut save_anyway = false;
                        let res: Result<String, String> = match op {
                            Op::Start(_) => manager.start().await.map(|_| String::new()).map_err(|e| e.to_string()),
                            Op::Stop(_) => manager.stop().await.map(|_| String::new()).map_err(|e| e.to_string()),
                            Op::Remove(_, keep) => manager
                                .remove(*keep)
                                .await
                                .map(|_| String::new())
                                .map_err(|e| e.to_string()),
                            Op::Upgrade { ver, force, start, .. } => {
                                save_anyway = true; // cmd::node::upgrade saves in both arms
                                let options = UpgradeOptions {
                                    auto_restart: false,
                                    env_variables: environment_variables,
                                    force: *force,
                                    start_service: *start,
                                    target_bin_path: env.new_bin.clone(),
                                    target_version: target_version(&current_version, *ver),
                                };
                                manager
                                    .upgrade(options)
                                    .await
                                    .map(|r| match r {
                                        UpgradeResult::Forced(..) => "forced".to_string(),
                                        UpgradeResult::NotRequired => "not_required".to_string(),
                                        UpgradeResult::Upgraded(..) => "upgraded".to_string(),
                                        UpgradeResult::UpgradedButNotStarted(..) => {
                                            "upgraded_not_started".to_string()
                                        }
                                        UpgradeResult::Error(_) => "error".to_string(),
                                    })
                                    .map_err(|e| e.to_string())
                            }
                            _ => unreachable!(),
                        };
                        drop(manager);
                        match res {
                            Ok(m) => {
                                out.ok = true;
                                out.msg = m;
                            }
                            Err(m) => out.msg = m,
                        }
                        if env.glue == Glue::Cli && (out.ok || save_anyway) {
                            reg.save().unwrap_or_else(|e| fatal(format!("save: {e}")));
                        }
                    }
                    Some(_) => {}
                }
            }
        }
        Op::Crash(_) => unreachable!(),
    }

    if env.glue == Glue::Direct {
        // the long-lived owner of the registry persists it after every operation
        reg.save().unwrap_or_else(|e| fatal(format!("save: {e}")));
        env.reg = reg;
    }
    Ok(out)
}

// ------------------------------------------------------------------------------------------------
// oracle
// ------------------------------------------------------------------------------------------------

pub struct Exec {
    pub failures: Vec<Failure>,
    pub labels: Vec<String>,
    pub calls: BTreeMap<usize, Vec<CallKind>>,
    pub hits: Vec<(Fault, CallKind, &'static str)>,
    pub ops_run: usize,
}

fn snapshot(reg: &NodeRegistry) -> Vec<(ServiceStatus, Option<u32>)> {
    reg.nodes.iter().map(|n| (n.status.clone(), n.pid)).collect()
}

pub fn execute(case: &Case) -> Exec {
    fakeos::block_on(execute_async(case))
}

async fn execute_async(case: &Case) -> Exec {
    let mut env = Env::new(case.glue, case.faults.clone());
    let mut failures: Vec<Failure> = vec![];
    let mut labels: Vec<String> = vec![format!("glue/{:?}", case.glue)];
    let mut removed: Vec<bool> = vec![];
    let mut stale: Vec<bool> = vec![];
    let mut ops_run = 0usize;
    let mut untracked_after_failed_start: BTreeSet<PathBuf> = BTreeSet::new();
    let fail = |sig: String, detail: String, failures: &mut Vec<Failure>| {
        if failures.len() < 8 {
            failures.push(Failure { sig, detail });
        }
    };

    for (op_idx, op) in case.ops.iter().enumerate() {
        // the registry file is written by the code under test only (`NodeRegistry::save` after every
        // command): when it does not load, that is the finding, and the history ends there
        let unloadable = |e: String, when: &str, failures: &mut Vec<Failure>| {
            failures.push(Failure { sig: "saved_registry_does_not_load".into(), detail: format!("{when} op #{op_idx} {}: NodeRegistry::load of the file the previous command saved fails: {e}", op.short()) });
        };
        let before = match env.recorded() {
            Ok(r) => r,
            Err(e) => {
                unloadable(e, "before", &mut failures);
                break;
            }
        };
        let before_snap = snapshot(&before);
        let out = match run_op(&mut env, op_idx, op).await {
            Ok(o) => o,
            Err(e) => {
                unloadable(e, "at the start of", &mut failures);
                break;
            }
        };
        if out.skipped {
            labels.push(format!("skipped/{}", out.kind));
            continue;
        }
        ops_run += 1;
        labels.push(format!(
            "op/{}/{}",
            out.kind,
            if out.ok { "ok" } else { "err" }
        ));
        if out.kind == "upgrade" && out.ok {
            labels.push(format!("upgrade_result/{}", out.msg));
        }
        let rec = match env.recorded() {
            Ok(r) => r,
            Err(e) => {
                unloadable(e, "after", &mut failures);
                break;
            }
        };
        // the FakeOS/RPC calls this operation made (failure details only)
        let call_trace: String = {
            let st = env.os.st();
            st.log
                .iter()
                .filter(|c| c.op == op_idx)
                .map(|c| {
                    let name = Path::new(&c.arg)
                        .file_name()
                        .map(|f| f.to_string_lossy().to_string())
                        .unwrap_or_else(|| c.arg.clone());
                    match c.injected {
                        Some(v) => format!("#{}:{}({})!{}", c.call, c.kind.short(), name, v),
                        None => format!("#{}:{}({})", c.call, c.kind.short(), name),
                    }
                })
                .collect::<Vec<_>>()
                .join(" ")
        };
        let ctxt = |what: &str| -> String {
            format!(
                "{what} | after op #{op_idx} {} -> {} {:?} | calls: {}",
                op.short(),
                if out.ok { "Ok" } else { "Err" },
                out.msg,
                call_trace
            )
        };
        removed.resize(rec.nodes.len().max(removed.len()), false);
        stale.resize(rec.nodes.len().max(stale.len()), false);
        if let Some(k) = out.crashed {
            stale[k] = true;
            labels.push("process_crashed".into());
        }
        // the exemption ends with the next operation on that service that returns Ok and did
        // something (an upgrade answering "not required" returns before looking at anything)
        if out.ok && out.kind != "crash" && !(out.kind == "upgrade" && out.msg == "not_required") {
            if let Some(t) = out.target {
                stale[t] = false;
            }
        }

        let st = env.os.st();
        // bookkeeping for attribution only: a start (also the one inside upgrade) that failed after
        // the process it launched had come up, leaving that process unrecorded
        untracked_after_failed_start.retain(|p| st.pid_of(p).is_some());
        for n in rec.nodes.iter() {
            if n.status == ServiceStatus::Running && n.pid.is_some() && n.pid == st.pid_of(&n.antnode_path) {
                untracked_after_failed_start.remove(&n.antnode_path);
            }
        }
        if (out.kind == "start" && !out.ok)
            || (out.kind == "upgrade" && (!out.ok || out.msg == "upgraded_not_started"))
        {
            if let Some(n) = out.target.and_then(|t| rec.nodes.get(t)) {
                let live = st.pid_of(&n.antnode_path);
                if live.is_some() && (n.status != ServiceStatus::Running || n.pid != live) {
                    untracked_after_failed_start.insert(n.antnode_path.clone());
                    labels.push("start_failed_after_launch".into());
                }
            }
        }
        let attribute = |path: &Path| -> &'static str {
            // a root cause the harness itself witnessed earlier for this binary, so that any other
            // way of reaching the same discrepancy keeps its own signature
            // (a pid lookup that fails for a live process used to be a root cause of its own; since the
            // repair in /repo it leaves the record alone, so it gets no attribution any more and would
            // be reported under the plain signature should it return)
            if env.glue == Glue::Direct && (untracked_after_failed_start.contains(path) || st.lookup_failed_post_launch.contains(path)) {
                // (under the CLI glue every command refreshes the registry first, which repairs this
                // record on the unchanged tree: there the discrepancy keeps its plain signature)
                "/after_start_failed_post_launch"
            } else {
                ""
            }
        };
        // R1 / R3
        for (k, n) in rec.nodes.iter().enumerate() {
            let live = st.pid_of(&n.antnode_path);
            if n.status == ServiceStatus::Running {
                let consistent = n.pid.is_some() && live == n.pid;
                if !consistent {
                    if stale[k] {
                        labels.push("stale_running_after_crash(exempt)".into());
                    } else {
                        let newly = before_snap.get(k).map(|(s, _)| *s != ServiceStatus::Running).unwrap_or(true);
                        let sig = if !out.ok && newly {
                            "failed_op_newly_records_running_without_process".to_string()
                        } else if live.is_none() {
                            "recorded_running_without_process".to_string()
                        } else {
                            format!("recorded_running_with_wrong_pid{}", attribute(&n.antnode_path))
                        };
                        fail(
                            sig,
                            ctxt(&format!(
                                "{} recorded Running pid {:?}, process table has {:?} for {}",
                                n.service_name,
                                n.pid,
                                live,
                                n.antnode_path.display()
                            )),
                            &mut failures,
                        );
                    }
                }
            }
            if removed[k] && n.status != ServiceStatus::Removed {
                fail(
                    "removed_service_changed_status".into(),
                    ctxt(&format!("{} was Removed, is now {:?}", n.service_name, n.status)),
                    &mut failures,
                );
            }
            if n.status == ServiceStatus::Removed {
                removed[k] = true;
            }
        }
        if rec.nodes.len() < before.nodes.len() {
            fail(
                "registry_entries_vanished".into(),
                ctxt(&format!("{} entries before, {} after", before.nodes.len(), rec.nodes.len())),
                &mut failures,
            );
        }
        // R4: a failed operation never newly records Running without a process. Non-exempt entries
        // were judged by R1 above (with this signature); here the entries exempt from R1: "newly"
        // is about this operation, so the exemption does not apply
        if !out.ok {
            for (k, n) in rec.nodes.iter().enumerate() {
                let was_running = before_snap.get(k).map(|(s, _)| *s == ServiceStatus::Running).unwrap_or(false);
                if n.status == ServiceStatus::Running && !was_running {
                    let live = st.pid_of(&n.antnode_path);
                    if (live.is_none() || live != n.pid) && stale[k] {
                        fail(
                            "failed_op_newly_records_running_without_process".into(),
                            ctxt(&format!("{} newly Running pid {:?}, process table {:?}", n.service_name, n.pid, live)),
                            &mut failures,
                        );
                    }
                }
            }
        }
        // R2
        if out.ok && (out.kind == "stop" || out.kind == "remove") {
            if let Some(n) = out.target.and_then(|t| rec.nodes.get(t)) {
                let live = st.pid_of(&n.antnode_path);
                if live.is_some() {
                    let sig = format!("{}_ok_but_process_alive{}", out.kind, attribute(&n.antnode_path));
                    fail(
                        sig,
                        ctxt(&format!(
                            "{} still has live process {:?} ({}), recorded {:?} pid {:?}",
                            n.service_name,
                            live,
                            n.antnode_path.display(),
                            n.status,
                            n.pid
                        )),
                        &mut failures,
                    );
                }
                if n.pid.is_some() {
                    fail(
                        format!("{}_ok_but_pid_recorded", out.kind),
                        ctxt(&format!("{} records pid {:?}", n.service_name, n.pid)),
                        &mut failures,
                    );
                }
                if out.kind == "remove" && n.status != ServiceStatus::Removed {
                    labels.push("remove_ok_not_recorded_removed".into());
                }
            }
        }
        drop(st);
        // R5 / R6
        if let Some(add) = &out.add {
            let gap = if add.had_gap { "numbering_gap_before_add" } else { "no_numbering_gap" };
            let mut names = BTreeMap::new();
            let mut dirs = BTreeMap::new();
            for (k, n) in rec.nodes.iter().enumerate() {
                if let Some(j) = names.insert(n.service_name.clone(), k) {
                    if k >= add.before_len {
                        fail(
                            format!("add_reuses_recorded_name/{gap}"),
                            ctxt(&format!("entries #{j} and #{k} are both named {}", n.service_name)),
                            &mut failures,
                        );
                    }
                }
                if let Some(j) = dirs.insert(n.data_dir_path.clone(), k) {
                    if k >= add.before_len {
                        fail(
                            format!("add_reuses_recorded_data_dir/{gap}"),
                            ctxt(&format!(
                                "entries #{j} and #{k} both use data dir {}",
                                n.data_dir_path.display()
                            )),
                            &mut failures,
                        );
                    }
                }
            }
            let live_ports = recorded_ports(&before, false);
            let all_ports = recorded_ports(&before, true);
            let clash: Vec<u16> = add.requested.iter().copied().filter(|p| live_ports.contains(p)).collect();
            let clash_removed_only: Vec<u16> = add
                .requested
                .iter()
                .copied()
                .filter(|p| all_ports.contains(p) && !live_ports.contains(p))
                .collect();
            if !clash.is_empty() {
                labels.push("add_requests_recorded_port".into());
                if out.ok || rec.nodes.len() != add.before_len {
                    fail(
                        "add_accepts_recorded_port".into(),
                        ctxt(&format!(
                            "requested ports {:?} include already recorded {:?}; entries {} -> {}",
                            add.requested,
                            clash,
                            add.before_len,
                            rec.nodes.len()
                        )),
                        &mut failures,
                    );
                }
            } else if !clash_removed_only.is_empty() {
                labels.push("add_requests_port_of_removed_service(either)".into());
            }
            if rec.nodes.len() > add.before_len {
                labels.push("add_created_entries".into());
            }
            if !out.ok && rec.nodes.len() > add.before_len {
                labels.push("add_partial_batch".into());
            }
        }
        // R7
        {
            let mut copy = rec.clone();
            copy.save_path = env.tmp.path().join("registry").join("roundtrip.json");
            let v1 = serde_json::to_value(&copy).unwrap_or_else(|e| fatal(format!("to_value: {e}")));
            match copy.save() {
                Err(e) => fail("registry_save_fails".into(), ctxt(&format!("{e}")), &mut failures),
                Ok(()) => match NodeRegistry::load(&copy.save_path) {
                    Err(e) => fail("saved_registry_does_not_load".into(), ctxt(&format!("{e}")), &mut failures),
                    Ok(back) => {
                        let v2 = serde_json::to_value(&back).unwrap_or_else(|e| fatal(format!("to_value: {e}")));
                        if v1 != v2 {
                            fail(
                                "registry_roundtrip_differs".into(),
                                ctxt(&format!("saved {v1} loaded {v2}")),
                                &mut failures,
                            );
                        } else if format!("{copy:?}") != format!("{back:?}") {
                            // same JSON both ways, yet the loaded state is not the saved state
                            // (something is lost symmetrically)
                            fail(
                                "registry_roundtrip_state_differs".into(),
                                ctxt(&format!("saved {copy:?} loaded {back:?}")),
                                &mut failures,
                            );
                        }
                    }
                },
            }
            if env.glue == Glue::Cli && (out.ok || out.kind == "upgrade") && out.kind != "crash" {
                labels.push("cli_saved".into());
            }
        }
        if !failures.is_empty() {
            // later steps would only show consequences of the same root cause
            break;
        }
    }
    let st = env.os.st();
    for (_, kind, variant) in &st.hits {
        labels.push(format!("fault_hit/{}/{}", kind.short(), variant));
    }
    let calls = st.calls_per_op.clone();
    let hits = st.hits.clone();
    drop(st);
    Exec {
        failures,
        labels,
        calls,
        hits,
        ops_run,
    }
}

fn canon_of(case: &Case, ex: &Exec) -> String {
    let kinds: Vec<&str> = case.ops.iter().map(|o| o.kind()).collect();
    let mut sites: Vec<String> = ex.hits.iter().map(|(_, k, v)| format!("{}:{}", k.short(), v)).collect();
    sites.sort();
    format!("{:?}|{}|{}", case.glue, kinds.join(","), sites.join(","))
}

fn sample_of(case: &Case, ex: &Exec) -> serde_json::Value {
    json!({
        "glue": format!("{:?}", case.glue),
        "ops": case.ops.iter().map(|o| o.short()).collect::<Vec<_>>(),
        "faults": case.faults.iter().map(|f| format!("op{}#call{}v{}", f.op, f.call, f.variant)).collect::<Vec<_>>(),
        "faults_hit": ex.hits.iter().map(|(f, k, v)| format!("op{}#call{}:{}:{}", f.op, f.call, k.short(), v)).collect::<Vec<_>>(),
    })
}

pub fn check(case: &Case, ctx: &mut Ctx) {
    let ex = execute(case);
    for l in &ex.labels {
        ctx.label(l.clone());
    }
    ctx.label(format!("faults_planned/{}", case.faults.len()));
    ctx.label(format!("faults_hit/{}", ex.hits.len()));
    ctx.nontrivial_if(ex.ops_run >= 3 && !ex.hits.is_empty());
    ctx.canon = Some(canon_of(case, &ex));
    ctx.sample = Some(sample_of(case, &ex));
    for f in ex.failures {
        ctx.fail(f.sig, f.detail);
    }
}

// ------------------------------------------------------------------------------------------------
// exhaustive fault enumeration over a fixed catalogue
// ------------------------------------------------------------------------------------------------

fn plain_add(count: Option<u16>) -> AddOp {
    AddOp {
        count,
        node_port: None,
        rpc_port: None,
        metrics_port: None,
        enable_metrics: false,
        user_mode: true,
        first: false,
        env: false,
        flavour: 0,
        nat: 0,
    }
}

/// ~200 fixed sequences: a dozen written by hand around the mechanisms the property names, the rest
/// drawn once from the section's own generator with a fixed seed (independent of VERIF_SEED).
pub fn catalogue() -> Vec<(Glue, Vec<Op>)> {
    use proptest::strategy::ValueTree;
    use proptest::test_runner::{Config, RngAlgorithm, TestRng, TestRunner};
    let up = |i, force, start| Op::Upgrade {
        i,
        ver: VerDir::Up,
        force,
        start,
    };
    let hi = u16::MAX;
    let mut hand: Vec<Vec<Op>> = vec![
        vec![Op::Add(plain_add(Some(3))), Op::Add(plain_add(Some(1))), Op::Add(plain_add(None))],
        vec![Op::Add(plain_add(Some(2))), Op::Start(0), Op::Start(hi), Op::Stop(0), Op::Remove(0, false)],
        vec![Op::Add(plain_add(None)), Op::Start(0), up(0, false, true), Op::Stop(0), Op::Remove(0, true)],
        vec![Op::Add(plain_add(None)), Op::Start(0), Op::Crash(0), Op::Start(0), Op::Stop(0)],
        vec![Op::Add(plain_add(None)), Op::Start(0), Op::Crash(0), Op::Remove(0, false), Op::Remove(0, false)],
        vec![Op::Add(plain_add(Some(2))), Op::Start(0), up(0, true, false), Op::Start(0), up(hi, false, true)],
        vec![Op::Add(plain_add(None)), Op::Remove(0, false), Op::Start(0), Op::Add(plain_add(None)), Op::Start(hi)],
        vec![Op::Add(plain_add(Some(2))), Op::Start(0), Op::Start(hi), Op::Remove(0, false), Op::Stop(hi), Op::Remove(hi, true)],
        vec![Op::Add(plain_add(None)), Op::Start(0), Op::Stop(0), Op::Start(0), Op::Stop(0), Op::Remove(0, false)],
        vec![Op::Add(plain_add(None)), up(0, false, true), Op::Crash(0), up(0, true, true), Op::Stop(0)],
    ];
    // explicit ports: second add re-requests the first one's ports
    let mut with_ports = plain_add(Some(2));
    with_ports.node_port = Some(PortReq { base: PortBase::Fresh(0), shape: PortShape::Fit });
    with_ports.rpc_port = Some(PortReq { base: PortBase::Fresh(4), shape: PortShape::Fit });
    with_ports.metrics_port = Some(PortReq { base: PortBase::Fresh(8), shape: PortShape::Fit });
    let mut again = plain_add(Some(1));
    again.rpc_port = Some(PortReq { base: PortBase::Recorded { pick: 0, back: 0 }, shape: PortShape::Fit });
    hand.push(vec![Op::Add(with_ports.clone()), Op::Add(again), Op::Start(0), Op::Stop(0)]);
    let mut sys = plain_add(Some(2));
    sys.user_mode = false;
    sys.enable_metrics = true;
    hand.push(vec![Op::Add(sys), Op::Start(0), Op::Start(hi), up(0, false, true), Op::Remove(hi, false)]);

    let mut out: Vec<(Glue, Vec<Op>)> = vec![];
    for (n, ops) in hand.into_iter().enumerate() {
        out.push((if n % 2 == 0 { Glue::Cli } else { Glue::Direct }, ops.clone()));
        out.push((if n % 2 == 0 { Glue::Direct } else { Glue::Cli }, ops));
    }
    let seed = vh_core::derive_seed(0xC19, "C19", "catalogue", 0);
    let mut runner = TestRunner::new_with_rng(
        Config {
            failure_persistence: None,
            ..Config::default()
        },
        TestRng::from_seed(RngAlgorithm::ChaCha, &seed),
    );
    let strat = case_strategy();
    while out.len() < 200 {
        let c = strat.new_tree(&mut runner).expect("catalogue generation").current();
        let ops: Vec<Op> = c.ops;
        if ops.len() >= 3 {
            out.push((c.glue, ops));
        }
    }
    out
}

fn variant_byte(v: usize, n: usize) -> u8 {
    ((v * 256) / n) as u8
}

/// all single-fault placements of the trace `calls`, optionally only those after `after`
fn placements(calls: &BTreeMap<usize, Vec<CallKind>>, after: Option<(u8, u8)>) -> Vec<Fault> {
    let mut v = vec![];
    for (op, kinds) in calls {
        for (call, kind) in kinds.iter().enumerate() {
            if *op > 255 || call > 255 {
                continue;
            }
            let pos = (*op as u8, call as u8);
            if let Some(a) = after {
                if pos <= a {
                    continue;
                }
            }
            let n = kind.variants().len();
            for var in 0..n {
                v.push(Fault {
                    op: pos.0,
                    call: pos.1,
                    variant: variant_byte(var, n),
                });
            }
        }
    }
    v
}

struct EnumOut {
    stats: SectionStats,
    violations: Vec<(Failure, serde_json::Value)>,
    complete: bool,
    placements: u64,
}

fn enumerate_chunk(
    rep: &Report,
    items: &[(Glue, Vec<Op>)],
    pairs: bool,
    deadline: Instant,
    stop: &std::sync::atomic::AtomicBool,
) -> EnumOut {
    use std::sync::atomic::Ordering;
    let mut out = EnumOut {
        stats: SectionStats::default(),
        violations: vec![],
        complete: true,
        placements: 0,
    };
    let account = |case: &Case, ex: &Exec, out: &mut EnumOut| {
        out.stats.evaluations += 1;
        for l in &ex.labels {
            *out.stats.classes.entry(l.clone()).or_default() += 1;
        }
        if ex.ops_run >= 3 && !ex.hits.is_empty() {
            let fresh = out
                .stats
                .nontrivial_hashes
                .insert(vh_core::stable_hash(&format!("{case:?}")));
            if fresh && out.stats.samples.len() < 2 {
                out.stats.samples.push(sample_of(case, ex));
            }
        }
        let unknown: Vec<&Failure> = ex
            .failures
            .iter()
            .filter(|f| !rep.is_known("sequences", &f.sig))
            .collect();
        if ex.failures.is_empty() {
            return false;
        }
        if unknown.is_empty() {
            out.stats.excluded_known += 1;
            let mut seen = rep.known_seen.lock().unwrap();
            for f in &ex.failures {
                seen.insert(f.sig.clone());
            }
            return false;
        }
        out.violations.push((
            unknown[0].clone(),
            serde_json::to_value(case).unwrap_or(serde_json::Value::Null),
        ));
        true
    };
    'items: for (glue, ops) in items {
        let base = Case {
            glue: *glue,
            ops: ops.clone(),
            faults: vec![],
        };
        let ex0 = execute(&base);
        if account(&base, &ex0, &mut out) {
            stop.store(true, Ordering::Relaxed);
            break;
        }
        for f1 in placements(&ex0.calls, None) {
            if stop.load(Ordering::Relaxed) {
                break 'items;
            }
            if Instant::now() > deadline {
                out.complete = false;
                out.stats.stopped_by_budget = true;
                break 'items;
            }
            let c1 = Case {
                glue: *glue,
                ops: ops.clone(),
                faults: vec![f1.clone()],
            };
            let ex1 = execute(&c1);
            out.placements += 1;
            if account(&c1, &ex1, &mut out) {
                stop.store(true, Ordering::Relaxed);
                break 'items;
            }
            if !pairs {
                continue;
            }
            for f2 in placements(&ex1.calls, Some((f1.op, f1.call))) {
                let c2 = Case {
                    glue: *glue,
                    ops: ops.clone(),
                    faults: vec![f1.clone(), f2],
                };
                let ex2 = execute(&c2);
                out.placements += 1;
                if account(&c2, &ex2, &mut out) {
                    stop.store(true, Ordering::Relaxed);
                    break 'items;
                }
            }
        }
    }
    out
}

fn enumerate(rep: &mut Report, name: &str, pairs: bool) {
    if let Some(o) = &rep.cfg.only {
        if !name.contains(o.as_str()) {
            return;
        }
    }
    if rep.cfg.replay.is_some() {
        return;
    }
    let t0 = Instant::now();
    let mut cat = catalogue();
    // the harness-testing knob VERIF_SCALE shortens the catalogue (the section is then not exhaustive
    // over the full catalogue and says so)
    let full = cat.len();
    if rep.cfg.scale < 1.0 {
        let n = ((full as f64) * rep.cfg.scale).ceil().max(1.0) as usize;
        cat.truncate(n);
    }
    let workers = rep.cfg.workers.min(cat.len()).max(1);
    let deadline = Instant::now() + rep.budget_left();
    let stop = std::sync::atomic::AtomicBool::new(false);
    let results: std::sync::Mutex<Vec<(usize, EnumOut)>> = std::sync::Mutex::new(vec![]);
    {
        let this: &Report = rep;
        let cat = &cat;
        let stop = &stop;
        let results = &results;
        std::thread::scope(|scope| {
            for w in 0..workers {
                std::thread::Builder::new()
                    .name(format!("C19-{name}-w{w}"))
                    .stack_size(16 << 20)
                    .spawn_scoped(scope, move || {
                        // interleaved assignment balances long and short sequences
                        let mine: Vec<(Glue, Vec<Op>)> = cat
                            .iter()
                            .enumerate()
                            .filter(|(i, _)| i % workers == w)
                            .map(|(_, c)| c.clone())
                            .collect();
                        let r = enumerate_chunk(this, &mine, pairs, deadline, stop);
                        results.lock().unwrap().push((w, r));
                    })
                    .expect("spawn");
            }
        });
    }
    let mut results = results.into_inner().unwrap();
    results.sort_by_key(|(w, _)| *w);
    let mut stats = SectionStats {
        name: name.to_string(),
        rule: format!(
            "fixed catalogue of {} sequences ({} hand-written x2 glue variants, rest drawn once with a fixed seed); \
             for each: every placement of one injected failure (each failure variant of the call found there){}; \
             non-trivial: >=3 operations executed and the fault was hit; distinct by case",
            cat.len(),
            12,
            if pairs { ", and for each of those every placement of a second failure at a later call of the resulting trace (= every pair)" } else { "" }
        ),
        ..Default::default()
    };
    let mut complete = true;
    let mut placements = 0u64;
    let mut violations = vec![];
    for (_, r) in results {
        stats.evaluations += r.stats.evaluations;
        stats.nontrivial_hashes.extend(r.stats.nontrivial_hashes);
        for (k, v) in r.stats.classes {
            *stats.classes.entry(k).or_default() += v;
        }
        for s in r.stats.samples {
            if stats.samples.len() < 2 {
                stats.samples.push(s);
            }
        }
        stats.excluded_known += r.stats.excluded_known;
        stats.stopped_by_budget |= r.stats.stopped_by_budget;
        complete &= r.complete;
        placements += r.placements;
        violations.extend(r.violations);
    }
    let violated = !violations.is_empty();
    stats.exhaustive = complete && !violated && cat.len() == full;
    stats.wall_s = t0.elapsed().as_secs_f64();
    stats.extra.insert("catalogue_sequences".into(), json!(cat.len()));
    stats.extra.insert("fault_placements_run".into(), json!(placements));
    if stats.stopped_by_budget {
        rep.inconclusive.push(format!("section {name} stopped by time budget"));
    }
    rep.add_manual(stats);
    if let Some((f, case)) = violations.into_iter().next() {
        // replayable through the generated section, whose case type this is
        rep.manual_violation("sequences", f, &case);
    }
}

// ------------------------------------------------------------------------------------------------

pub fn run(cfg: RunCfg) {
    if ant_node_manager::config::get_user_antnode_data_dir().is_err() {
        fatal("no user data directory (HOME unset?): add_node cannot run".into());
    }
    let mut rep = Report::new(cfg, "fault_enumeration");
    rep.rule = "C19: lifecycle operation sequences over the real add_node/ServiceManager with the OS and RPC seams replaced by a stateful FakeOS; 0-2 injected failures; oracle = registry vs. FakeOS truth after every operation.".into();
    rep.assumptions = vec![
        "trusted base: FakeOS models the OS service manager (install overwrites, start launches one process per binary path, stop kills it, uninstall does not kill, pid lookup by binary path) and answers RPC from its process table; the real ServiceController/systemd/RpcClient are not exercised".into(),
        "an injected failure of get_process_pid is an I/O-style error, never a false 'ServiceProcessNotFound'; an injected failure of stop leaves the process alive; 'start silently does nothing' and 'service definition vanished' are the two non-error variants".into(),
        "environment crash of a process: the entry may stay recorded Running until the next operation on that service that returns Ok and is not an upgrade answering NotRequired (either-zone, counted under class stale_running_after_crash(exempt)); OS-driven restarts with a new pid are not modelled".into(),
        "a requested port recorded only by a Removed entry may be refused or accepted (statement silent); clashes between the ports requested within one add are not judged".into(),
        "cmd/node.rs glue (load, refresh_node_registry, resolve by name skipping Removed, save on Ok; upgrade saves always) is replicated by hand in the harness; sleeps/intervals, downloads and `antctl status` are left out".into(),
        "system-mode services use the current OS user as service user so that create_owned_dir's chown is a no-op; all directories live in a per-case temp dir".into(),
        "after the first failing step of a sequence the rest of that sequence is not judged (consequences of the same root cause)".into(),
    ];
    fakeos::quietly(&mut rep, |rep| {
        vh_core::section!(
            rep,
            "sequences",
            (40_000, 1_500_000),
            16,
            "first op is an add, then 0-9 ops drawn from add/start/stop/remove/upgrade/crash over <=5 entries; ports none/single/range, fresh or taken from recorded ones; glue Cli|Direct; 0/1/2 faults (15/50/35 %) placed at (operation, call index); non-trivial: >=3 operations executed and >=1 fault actually hit; distinct by (glue, op kinds, hit call-site kinds)",
            case_strategy,
            check
        )
    });
    let thorough = rep.tier() == vh_core::Tier::Thorough;
    fakeos::quietly(&mut rep, |rep| enumerate(rep, "enum_single_fault", false));
    if thorough {
        fakeos::quietly(&mut rep, |rep| enumerate(rep, "enum_fault_pairs", true));
    }
    fakeos::quietly(&mut rep, |rep| vh_core::fuzz_section!(rep, "sequences", case_strategy, check, "sec_mgmt", "mgmt", 100_000, 300, 10));
    rep.finish();
}
