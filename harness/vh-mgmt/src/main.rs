//! vh-mgmt: checks of the node service manager (antctl) over a simulated OS.
//!   C19 — lifecycle state vs. managed processes under injected faults
//!   C20 — upgrade keeps every setting; the real antnode accepts what antctl writes
mod c19;
mod c20;
mod fakeos;

fn main() {
    let cfg = vh_core::RunCfg::from_args();
    match cfg.prop.as_str() {
        "C19" => c19::run(cfg),
        "C20" => c20::run(cfg),
        other => {
            eprintln!("vh-mgmt: unknown property {other}");
            std::process::exit(2);
        }
    }
}
