fn main() {
    let cfg = vh_core::RunCfg::from_args();
    eprintln!("vh-mgmt: property {} not built yet", cfg.prop);
    std::process::exit(2);
}
