fn main() {
    vh_mgmt::main_entry()
}
