pub fn run(_cfg: vh_core::RunCfg) {
    eprintln!("C20 not built yet");
    std::process::exit(2);
}
