//! C20 — upgraded services keep every setting, and antnode accepts what antctl writes.
//!
//! Per case: a combination of the installable node options. The real `add_node` runs over FakeOS
//! and the `ServiceInstallCtx` it hands to `install` is captured; optionally the service is started
//! (so that the registry learns the node's port); then the real `ServiceManager::upgrade(force)` runs
//! on the registry entry and the re-install `ServiceInstallCtx` is captured.
//!
//! Oracle, from the statement:
//!  (1) program, user, label, contents, working directory identical; arguments identical as a
//!      multiset of (flag, values) groups (global part and sub-command part separately);
//!      autostart / environment equal the `UpgradeOptions` passed (explicit upgrade inputs); if the
//!      service was started and no port was requested, `--port <recorded port>` is the one admissible
//!      addition;
//!  (2) the real `antnode` binary (built from /repo with the `verif-hooks` feature, which adds an
//!      early exit printing the parsed options) exits 0 on both argument lists, prints the same
//!      parsed options for both, and those equal the intended configuration field by field.

use crate::fakeos::{self, FakeOs};
use ant_bootstrap::PeersArgs;
use ant_evm::{EvmNetwork, RewardsAddress};
use ant_logging::LogFormat;
use ant_node_manager::{
    add_services::{
        add_node,
        config::{AddNodeServiceOptions, PortRange},
    },
    ServiceManager, VerbosityLevel,
};
use ant_service_management::{NodeRegistry, NodeService, UpgradeOptions};
use proptest::prelude::*;
use serde::{Deserialize, Serialize};
use serde_json::json;
use service_manager::ServiceInstallCtx;
use std::{
    collections::BTreeMap,
    net::{IpAddr, Ipv4Addr, SocketAddr},
    path::{Path, PathBuf},
    process::Command,
    str::FromStr,
    sync::OnceLock,
    time::{Duration, Instant},
};
use vh_core::{Ctx, Failure, Report, RunCfg, SectionStats};

// bits of `Case::mask`: which optional options are given
const B_NODE_PORT: u16 = 1 << 0;
const B_RPC_PORT: u16 = 1 << 1;
const B_METRICS_PORT: u16 = 1 << 2;
const B_NODE_IP: u16 = 1 << 3;
const B_RPC_IP: u16 = 1 << 4;
const B_PEERS: u16 = 1 << 5;
const B_LOG_FORMAT: u16 = 1 << 6;
const B_MAX_LOG: u16 = 1 << 7;
const B_MAX_ARCH: u16 = 1 << 8;
const B_OWNER: u16 = 1 << 9;
const B_NETWORK_ID: u16 = 1 << 10;
const B_HOME: u16 = 1 << 11;
const B_UPNP: u16 = 1 << 12;
const B_ENV: u16 = 1 << 13;
const N_BITS: u32 = 14;
const BIT_NAMES: [&str; 14] = [
    "node_port",
    "rpc_port",
    "metrics_port",
    "node_ip",
    "rpc_ip",
    "peers",
    "log_format",
    "max_log_files",
    "max_archived_log_files",
    "owner",
    "network_id",
    "home_network",
    "upnp",
    "env",
];

#[derive(Clone, Debug, Serialize, Deserialize)]
pub enum Evm {
    ArbitrumOne,
    ArbitrumSepolia,
    Custom {
        https: bool,
        host: String,
        port: Option<u16>,
        path: String,
        token: u64,
        payments: u64,
    },
}

#[derive(Clone, Debug, Serialize, Deserialize)]
pub struct PeerAddr {
    pub ip: [u8; 4],
    pub port: u16,
    /// 0: /udp/../quic-v1/p2p/<id>, 1: /udp/../quic-v1, 2: /tcp/../ws/p2p/<id>, 3: /dns4/<host>/udp/../quic-v1/p2p/<id>
    pub form: u8,
    pub id: u8,
}

#[derive(Clone, Debug, Serialize, Deserialize)]
pub struct PeersSpec {
    pub first: bool,
    pub local: bool,
    pub testnet: bool,
    pub ignore_cache: bool,
    pub addrs: Vec<PeerAddr>,
    pub urls: Vec<String>,
    /// name of the cache directory under the case's temp dir
    pub cache_dir: Option<String>,
}

#[derive(Clone, Debug, Serialize, Deserialize)]
pub struct UpgradeSpec {
    pub auto_restart: bool,
    pub start_service: bool,
    /// `antctl upgrade --env ...`; None: the registry's variables are used (as cmd/node.rs does)
    pub env_override: Option<Vec<(String, String)>>,
}

#[derive(Clone, Debug, Serialize, Deserialize)]
pub struct Case {
    pub mask: u16,
    pub evm: Evm,
    pub node_port: u16,
    pub rpc_port: u16,
    pub metrics_port: u16,
    pub enable_metrics_server: bool,
    pub node_ip: [u8; 4],
    pub rpc_ip: [u8; 4],
    pub peers: PeersSpec,
    pub log_json: bool,
    pub max_log_files: u32,
    pub max_archived_log_files: u32,
    pub owner: String,
    pub network_id: u8,
    pub env: Vec<(String, String)>,
    pub user_mode: bool,
    pub auto_restart: bool,
    pub count_given: bool,
    pub data_dir: String,
    pub log_dir: String,
    pub rewards: u64,
    pub start_before_upgrade: bool,
    /// before the upgrade, another `antctl add` (a second service, no `--env`, otherwise default) runs
    /// against the same registry: what it leaves in the registry must not change service 1's upgrade
    #[serde(default)]
    pub second_add_before_upgrade: bool,
    pub up: UpgradeSpec,
}

impl Case {
    fn has(&self, bit: u16) -> bool {
        self.mask & bit != 0
    }
}

// ------------------------------------------------------------------------------------------------
// generators
// ------------------------------------------------------------------------------------------------

fn dir_name() -> BoxedStrategy<String> {
    // single path component; spaces, quotes, '=', non-ASCII; never '/', NUL, or empty
    prop_oneof![
        3 => "[a-z]{1,8}",
        3 => "[a-z]{1,5} [a-z]{1,5}",
        1 => "[a-z]{1,3}  [a-z]{1,3} [a-z]{1,3}",
        1 => Just("donn\u{e9}es n\u{153}uds".to_string()),
        1 => "[a-z]{1,4}'[a-z]{1,4}",
        1 => "[a-z]{1,4}=[a-z]{1,4}",
        1 => "--[a-z]{1,6}",
        1 => "[a-z]{1,4},[a-z]{1,4}",
    ]
    .boxed()
}

fn owner_name() -> BoxedStrategy<String> {
    // a Discord-style user name; never starts with '-' (antctl's own clap would take that as a flag)
    prop_oneof![
        6 => "[A-Za-z0-9_.]{1,24}",
        2 => "[A-Za-z0-9_.][A-Za-z0-9_. #-]{0,16}",
        1 => "[A-Z\u{c4}\u{d6}\u{dc}\u{c9}]{1,4}[a-z\u{df}\u{e9}]{0,6}",
    ]
    .boxed()
}

fn url_strategy() -> BoxedStrategy<String> {
    // no ',' (antctl's --network-contacts-url splits on it, so a single URL never contains one)
    (
        any::<bool>(),
        "[a-z]{1,8}(\\.[a-z]{2,5}){0,2}",
        proptest::option::of(1024u16..65535),
        proptest::collection::vec("[a-zA-Z0-9_.-]{1,8}", 0..3),
        proptest::option::of("[a-z]{1,4}=[a-z0-9]{1,4}"),
    )
        .prop_map(|(https, host, port, segs, query)| {
            let mut s = format!("{}://{}", if https { "https" } else { "http" }, host);
            if let Some(p) = port {
                s.push_str(&format!(":{p}"));
            }
            for seg in segs {
                s.push('/');
                s.push_str(&seg);
            }
            if let Some(q) = query {
                s.push('?');
                s.push_str(&q);
            }
            s
        })
        .boxed()
}

fn peers_spec() -> BoxedStrategy<PeersSpec> {
    let addr = (any::<[u8; 4]>(), 1u16..65535, 0u8..4, 0u8..8).prop_map(|(ip, port, form, id)| PeerAddr {
        ip,
        port,
        form,
        id,
    });
    (
        prop::bool::weighted(0.2),
        prop::bool::weighted(0.25),
        prop::bool::weighted(0.3),
        prop::bool::weighted(0.3),
        proptest::collection::vec(addr, 0..4),
        proptest::collection::vec(url_strategy(), 0..3),
        proptest::option::weighted(0.3, dir_name()),
    )
        .prop_map(|(first, local, testnet, ignore_cache, mut addrs, mut urls, cache_dir)| {
            // the clap rules of PeersArgs, which antctl's own command line enforces:
            // --peer and --network-contacts-url conflict with --first; --local conflicts with
            // --network-contacts-url
            if first {
                addrs.clear();
                urls.clear();
            }
            if local {
                urls.clear();
            }
            let mut s = PeersSpec {
                first,
                local,
                testnet,
                ignore_cache,
                addrs,
                urls,
                cache_dir,
            };
            if !s.first && !s.local && !s.testnet && !s.ignore_cache && s.addrs.is_empty() && s.urls.is_empty() && s.cache_dir.is_none() {
                s.ignore_cache = true;
            }
            s
        })
        .boxed()
}

fn env_strategy() -> BoxedStrategy<Vec<(String, String)>> {
    let name = prop_oneof![
        Just("RUST_LOG".to_string()),
        Just("ANT_LOG".to_string()),
        Just("RUST_BACKTRACE".to_string()),
        "VH_[A-Z]{1,5}",
    ];
    // variables the node itself reads for its EVM network when NO network is named on its command line
    // (evmlib get_evm_network_from_env): antctl always names the network, so they must not change what
    // the node runs on
    let evm_var = prop_oneof![
        3 => prop_oneof![Just("arbitrum-one"), Just("arbitrum-sepolia"), Just("local"), Just("mainnet")].prop_map(|v| ("EVM_NETWORK".to_string(), v.to_string())),
        1 => "[a-z]{1,6}".prop_map(|h| ("RPC_URL".to_string(), format!("http://{h}.example:8545/"))),
        1 => any::<u64>().prop_map(|n| ("PAYMENT_TOKEN_ADDRESS".to_string(), format!("0x{:040x}", n))),
        1 => any::<u64>().prop_map(|n| ("DATA_PAYMENTS_ADDRESS".to_string(), format!("0x{:040x}", n))),
    ];
    let plain = (name, "[a-zA-Z0-9_:/.=-]{0,12}");
    let evm_triple = (any::<u64>(), any::<u64>(), "[a-z]{1,6}").prop_map(|(a, b, h)| {
        vec![
            ("RPC_URL".to_string(), format!("http://{h}.example:8545/")),
            ("PAYMENT_TOKEN_ADDRESS".to_string(), format!("0x{:040x}", a)),
            ("DATA_PAYMENTS_ADDRESS".to_string(), format!("0x{:040x}", b)),
        ]
    });
    (
        proptest::collection::vec(prop_oneof![5 => plain, 1 => evm_var], 1..4),
        prop_oneof![6 => Just(vec![]), 1 => evm_triple],
    )
        .prop_map(|(mut v, extra)| {
            v.extend(extra);
            v
        })
        .prop_map(|mut v| {
            // one value per name
            let mut seen = std::collections::BTreeSet::new();
            v.retain(|(k, _)| seen.insert(k.clone()));
            v
        })
        .boxed()
}

fn evm_strategy() -> BoxedStrategy<Evm> {
    let custom = (
        any::<bool>(),
        prop_oneof![
            3 => "[a-z]{1,8}(\\.[a-z]{2,5}){0,2}",
            1 => Just("localhost".to_string()),
            1 => any::<[u8; 4]>().prop_map(|b| Ipv4Addr::from(b).to_string()),
        ],
        proptest::option::of(1u16..65535),
        prop_oneof![2 => Just(String::new()), 1 => Just("/".to_string()), 2 => "(/[a-zA-Z0-9_-]{1,8}){1,3}"],
        any::<u64>(),
        any::<u64>(),
    )
        .prop_map(|(https, host, port, path, token, payments)| Evm::Custom {
            https,
            host,
            port,
            path,
            token,
            payments,
        });
    prop_oneof![2 => Just(Evm::ArbitrumOne), 2 => Just(Evm::ArbitrumSepolia), 3 => custom].boxed()
}

fn port_value() -> BoxedStrategy<u16> {
    // 65535 is left out: add_node computes `port + 1` for the next service even when there is none,
    // which the harness build (overflow checks on) turns into a panic; that arithmetic is C17's
    // subject ("port arithmetic overflow at 65535"), and would only mask C20's search here
    prop_oneof![
        10 => 1024u16..65535,
        1 => Just(65534u16),
        1 => 1u16..1024,
    ]
    .boxed()
}

/// `mask`: None = random presence pattern (biased to many options), Some(m) = exactly that pattern
pub fn case_strategy(mask: Option<u16>) -> BoxedStrategy<Case> {
    let mask_s: BoxedStrategy<u16> = match mask {
        Some(m) => Just(m).boxed(),
        None => prop_oneof![
            3 => 0u16..(1 << N_BITS),
            // dense patterns: each option present with probability 3/4
            2 => (0u16..(1 << N_BITS), 0u16..(1 << N_BITS)).prop_map(|(a, b)| a | b),
            1 => Just((1u16 << N_BITS) - 1),
        ]
        .boxed(),
    };
    let ports = (
        port_value(),
        port_value(),
        // a metrics port of 0 is what `antctl add --metrics-port 0` produces; kept rare
        prop_oneof![120 => port_value(), 1 => Just(0u16)],
        any::<bool>(),
        any::<[u8; 4]>(),
        prop_oneof![2 => Just([127u8, 0, 0, 1]), 1 => Just([0u8, 0, 0, 0]), 2 => any::<[u8; 4]>()],
    );
    let logs = (
        any::<bool>(),
        prop_oneof![4 => 0u32..20, 1 => any::<u32>()],
        prop_oneof![4 => 0u32..20, 1 => any::<u32>()],
        owner_name(),
        any::<u8>(),
        env_strategy(),
    );
    let misc = (
        any::<bool>(),
        any::<bool>(),
        any::<bool>(),
        dir_name(),
        dir_name(),
        any::<u64>(),
        any::<bool>(),
    );
    let up = (
        any::<bool>(),
        any::<bool>(),
        proptest::option::weighted(0.3, env_strategy()),
    )
        .prop_map(|(auto_restart, start_service, env_override)| UpgradeSpec {
            auto_restart,
            start_service,
            env_override,
        });
    (mask_s, evm_strategy(), ports, peers_spec(), logs, misc, up)
        .prop_map(
            |(
                mask,
                evm,
                (node_port, rpc_port, metrics_port, enable_metrics_server, node_ip, rpc_ip),
                peers,
                (log_json, max_log_files, max_archived_log_files, owner, network_id, env),
                (user_mode, auto_restart, count_given, data_dir, log_dir, rewards, start_before_upgrade),
                up,
            )| {
                let mut c = Case {
                    mask,
                    evm,
                    node_port,
                    rpc_port,
                    metrics_port,
                    enable_metrics_server,
                    node_ip,
                    rpc_ip,
                    peers,
                    log_json,
                    max_log_files,
                    max_archived_log_files,
                    owner,
                    network_id,
                    env,
                    user_mode,
                    auto_restart,
                    count_given,
                    data_dir,
                    log_dir,
                    rewards,
                    start_before_upgrade,
                    // derived from generated bits so that older replay files stay valid
                    second_add_before_upgrade: rewards % 3 == 0,
                    up,
                };
                // the three requested ports of one service are distinct (a real caller picks
                // different ports for different listeners)
                let bump = |p: u16| if p >= 65534 { 1024 } else { p + 1 };
                if c.rpc_port == c.node_port {
                    c.rpc_port = bump(c.rpc_port);
                }
                while c.metrics_port != 0 && (c.metrics_port == c.node_port || c.metrics_port == c.rpc_port) {
                    c.metrics_port = bump(c.metrics_port);
                }
                if c.log_dir == c.data_dir {
                    c.log_dir.push_str("-logs");
                }
                // `antctl add --count` conflicts with --first
                if c.mask & B_PEERS != 0 && c.peers.first {
                    c.count_given = false;
                }
                c
            },
        )
        .boxed()
}

// ------------------------------------------------------------------------------------------------
// building the inputs
// ------------------------------------------------------------------------------------------------

fn address_from(seed: u64) -> String {
    let mut b = [0u8; 20];
    let mut x = seed;
    for chunk in b.chunks_mut(8) {
        x = vh_core::splitmix64(x);
        let bytes = x.to_le_bytes();
        chunk.copy_from_slice(&bytes[..chunk.len()]);
    }
    format!("0x{}", hex::encode(b))
}

fn evm_of(e: &Evm) -> EvmNetwork {
    match e {
        Evm::ArbitrumOne => EvmNetwork::ArbitrumOne,
        Evm::ArbitrumSepolia => EvmNetwork::ArbitrumSepolia,
        Evm::Custom {
            https,
            host,
            port,
            path,
            token,
            payments,
        } => {
            let mut url = format!("{}://{}", if *https { "https" } else { "http" }, host);
            if let Some(p) = port {
                url.push_str(&format!(":{p}"));
            }
            url.push_str(path);
            EvmNetwork::new_custom(&url, &address_from(*token), &address_from(*payments))
        }
    }
}

fn peers_of(c: &Case, tmp: &Path) -> PeersArgs {
    if !c.has(B_PEERS) {
        return PeersArgs::default();
    }
    let p = &c.peers;
    let addrs = p
        .addrs
        .iter()
        .map(|a| {
            let ip = Ipv4Addr::from(a.ip);
            let id = fakeos::peer_id_from("bootstrap-peer", a.id);
            let s = match a.form {
                0 => format!("/ip4/{ip}/udp/{}/quic-v1/p2p/{id}", a.port),
                1 => format!("/ip4/{ip}/udp/{}/quic-v1", a.port),
                2 => format!("/ip4/{ip}/tcp/{}/ws/p2p/{id}", a.port),
                _ => format!("/dns4/node{}.example.org/udp/{}/quic-v1/p2p/{id}", a.id, a.port),
            };
            s.parse().expect("generated multiaddr parses")
        })
        .collect();
    PeersArgs {
        first: p.first,
        addrs,
        network_contacts_url: p.urls.clone(),
        local: p.local,
        disable_mainnet_contacts: p.testnet,
        ignore_cache: p.ignore_cache,
        bootstrap_cache_dir: p.cache_dir.as_ref().map(|d| tmp.join("cache").join(d)),
    }
}

// ------------------------------------------------------------------------------------------------
// the antnode binary
// ------------------------------------------------------------------------------------------------

static ANTNODE: OnceLock<PathBuf> = OnceLock::new();

fn inconclusive(msg: String) -> ! {
    eprintln!("vh-mgmt C20: {msg} (inconclusive)");
    std::process::exit(2);
}

/// Build (no-op when fresh) the hooked antnode from the repository's current working tree.
fn ensure_antnode(cfg: &RunCfg) -> PathBuf {
    if let Some(p) = std::env::var_os("ANTNODE_BIN") {
        return PathBuf::from(p);
    }
    let target = cfg.root.join("harness").join("target-antnode");
    let out = Command::new("cargo")
        .args(["build", "--release", "--offline", "--locked"])
        .args(["--manifest-path", "/repo/ant-node/Cargo.toml"])
        .args(["--features", "verif-hooks", "--bin", "antnode", "--target-dir"])
        .arg(&target)
        .env("CARGO_NET_OFFLINE", "true")
        .output()
        .unwrap_or_else(|e| inconclusive(format!("cannot run cargo: {e}")));
    if !out.status.success() {
        let err = String::from_utf8_lossy(&out.stderr);
        let tail: Vec<&str> = err.lines().rev().take(30).collect();
        for l in tail.iter().rev() {
            eprintln!("{l}");
        }
        inconclusive("building antnode with --features verif-hooks failed".into());
    }
    target.join("release").join("antnode")
}

struct Dump {
    status_ok: bool,
    stdout: String,
    stderr: String,
}

fn run_antnode(ctx: &ServiceInstallCtx, cwd: &Path) -> Dump {
    run_antnode_hook(ctx, cwd, "ANTNODE_VERIF_DUMP_OPTS")
}

/// `hook`: ANTNODE_VERIF_DUMP_OPTS (exit right after the options are resolved) or ANTNODE_VERIF_DUMP_PROTO
/// (go on through key / log set-up and report the protocol identifiers the node would start with)
fn run_antnode_hook(ctx: &ServiceInstallCtx, cwd: &Path, hook: &str) -> Dump {
    let bin = ANTNODE.get().expect("antnode path set");
    let mut cmd = Command::new(bin);
    cmd.args(&ctx.args).env_clear().current_dir(cwd);
    if let Some(home) = std::env::var_os("HOME") {
        cmd.env("HOME", home);
    }
    // the service manager launches the node with the definition's environment
    if let Some(env) = &ctx.environment {
        for (k, v) in env {
            // (the generated ANT_LOG values are no valid log filters: logging set-up, which only the
            // PROTO hook reaches, would refuse them; the variable has no bearing on what is reported)
            if hook == "ANTNODE_VERIF_DUMP_PROTO" && k == "ANT_LOG" {
                continue;
            }
            cmd.env(k, v);
        }
    }
    cmd.env(hook, "1");
    match cmd.output() {
        Ok(o) => Dump {
            status_ok: o.status.success(),
            stdout: String::from_utf8_lossy(&o.stdout).to_string(),
            stderr: String::from_utf8_lossy(&o.stderr).to_string(),
        },
        Err(e) => inconclusive(format!("cannot spawn {}: {e}", bin.display())),
    }
}

/// The hook's report: top-level fields of the pretty-printed `Opt`, plus the three summary lines.
struct Parsed {
    fields: BTreeMap<String, String>,
    rewards: String,
    evm: String,
    socket: String,
    text: String,
}

fn parse_dump(stdout: &str) -> Option<Parsed> {
    let start = stdout.find("VERIF-OPT Opt {")?;
    let text = stdout[start..].to_string();
    let mut fields: BTreeMap<String, String> = BTreeMap::new();
    let mut cur: Option<String> = None;
    let (mut rewards, mut evm, mut socket) = (None, None, None);
    let mut in_opt = false;
    for line in text.lines() {
        if line.starts_with("VERIF-OPT Opt {") {
            in_opt = true;
            continue;
        }
        if in_opt {
            if line == "}" {
                in_opt = false;
                continue;
            }
            let body = line.strip_prefix("    ").unwrap_or(line);
            let is_field = line.starts_with("    ")
                && !body.starts_with(' ')
                && body
                    .split_once(": ")
                    .map(|(n, _)| !n.is_empty() && n.chars().all(|c| c.is_ascii_lowercase() || c == '_'))
                    .unwrap_or(false);
            if is_field {
                let (n, v) = body.split_once(": ").unwrap();
                cur = Some(n.to_string());
                fields.insert(n.to_string(), v.to_string());
            } else if let Some(n) = &cur {
                let e = fields.get_mut(n).unwrap();
                e.push('\n');
                e.push_str(body);
            }
            continue;
        }
        if let Some(r) = line.strip_prefix("VERIF-REWARDS ") {
            rewards = Some(r.to_string());
        } else if let Some(r) = line.strip_prefix("VERIF-EVM ") {
            evm = Some(r.to_string());
        } else if let Some(r) = line.strip_prefix("VERIF-SOCKET ") {
            socket = Some(r.to_string());
        }
    }
    for v in fields.values_mut() {
        if let Some(s) = v.strip_suffix(',') {
            *v = s.to_string();
        }
    }
    Some(Parsed {
        fields,
        rewards: rewards?,
        evm: evm?,
        socket: socket?,
        text,
    })
}

/// stable part of a clap / startup error message: first "error:" line with values blanked
fn error_signature(stderr: &str) -> String {
    let line = stderr
        .lines()
        .find(|l| l.to_lowercase().contains("error"))
        .or_else(|| stderr.lines().find(|l| !l.trim().is_empty()))
        .unwrap_or("no message");
    let mut out = String::new();
    let mut in_quote = false;
    for ch in line.chars() {
        match ch {
            '\'' => {
                in_quote = !in_quote;
                if in_quote {
                    out.push_str("'_'");
                }
            }
            _ if in_quote => {}
            c if c.is_ascii_digit() => {
                if !out.ends_with('N') {
                    out.push('N');
                }
            }
            c if c.is_ascii_alphanumeric() || c == '-' || c == '_' => out.push(c),
            _ => {
                if !out.ends_with(' ') {
                    out.push(' ');
                }
            }
        }
    }
    // for "required arguments were not provided" the argument is on the next line
    let extra = if line.contains("required arguments") {
        stderr
            .lines()
            .skip_while(|l| !l.contains("required arguments"))
            .nth(1)
            .map(|l| l.trim().to_string())
            .unwrap_or_default()
    } else {
        String::new()
    };
    format!("{} {}", out.trim(), extra).trim().chars().take(90).collect()
}

// ------------------------------------------------------------------------------------------------
// argument grouping
// ------------------------------------------------------------------------------------------------

/// (global groups, sub-command groups); a group is a flag followed by its values; the sub-command
/// token starts the second list.
fn group_args(args: &[String]) -> (Vec<Vec<String>>, Vec<Vec<String>>) {
    let mut global: Vec<Vec<String>> = vec![];
    let mut sub: Vec<Vec<String>> = vec![];
    let mut in_sub = false;
    for a in args {
        let dst = if in_sub { &mut sub } else { &mut global };
        if !in_sub && a.starts_with("evm-") && !a.starts_with("--") {
            in_sub = true;
            sub.push(vec![a.clone()]);
            continue;
        }
        if a.starts_with("--") || dst.is_empty() {
            dst.push(vec![a.clone()]);
        } else {
            dst.last_mut().unwrap().push(a.clone());
        }
    }
    global.sort();
    sub.sort();
    (global, sub)
}

fn flag_of(group: &[String]) -> String {
    group.first().cloned().unwrap_or_default()
}

// ------------------------------------------------------------------------------------------------
// the check
// ------------------------------------------------------------------------------------------------

#[derive(Debug)]
#[allow(dead_code)]
enum LogOutputDestArg {
    Path(PathBuf),
}

fn pretty<T: std::fmt::Debug>(t: &T) -> String {
    format!("{t:#?}")
}

pub struct Outcome {
    pub failures: Vec<Failure>,
    pub labels: Vec<String>,
    pub nontrivial: bool,
    pub sample: serde_json::Value,
}

fn fatal(msg: String) -> ! {
    eprintln!("vh-mgmt: harness environment failure (inconclusive): {msg}");
    std::process::exit(2);
}

pub fn execute(c: &Case) -> Outcome {
    fakeos::block_on(execute_async(c))
}

async fn execute_async(c: &Case) -> Outcome {
    let mut failures: Vec<Failure> = vec![];
    let mut labels: Vec<String> = vec![];
    macro_rules! fail {
        ($sig:expr, $detail:expr $(,)?) => {{
            let (sig, detail): (String, String) = ($sig, $detail);
            if failures.len() < 12 {
                failures.push(Failure { sig, detail });
            }
        }};
    }

    let tmp = fakeos::scratch_dir("vh-c20-").unwrap_or_else(|e| fatal(format!("tempdir: {e}")));
    let src_dir = tmp.path().join("src");
    std::fs::create_dir_all(&src_dir).unwrap_or_else(|e| fatal(format!("{e}")));
    let src_bin = src_dir.join("antnode");
    let new_bin = src_dir.join("antnode-new");
    std::fs::write(&src_bin, b"old").unwrap_or_else(|e| fatal(format!("{e}")));
    std::fs::write(&new_bin, b"new").unwrap_or_else(|e| fatal(format!("{e}")));
    let base_data = tmp.path().join("d").join(&c.data_dir);
    let base_log = tmp.path().join("l").join(&c.log_dir);
    let reg_path = tmp.path().join("registry").join("node_registry.json");
    let mut reg = NodeRegistry::load(&reg_path).unwrap_or_else(|e| fatal(format!("{e}")));
    let os = FakeOs::new(vec![]);
    let username = fakeos::current_username();
    let user_mode = c.user_mode || username.is_none();

    // ---- intended configuration ---------------------------------------------------------------
    let evm = evm_of(&c.evm);
    let peers = peers_of(c, tmp.path());
    let rewards = RewardsAddress::from_str(&address_from(c.rewards)).expect("address");
    let node_port = c.has(B_NODE_PORT).then_some(c.node_port);
    let rpc_port = c.has(B_RPC_PORT).then_some(c.rpc_port);
    let metrics_port = c.has(B_METRICS_PORT).then_some(c.metrics_port);
    let node_ip = c.has(B_NODE_IP).then(|| Ipv4Addr::from(c.node_ip));
    let rpc_ip = c.has(B_RPC_IP).then(|| Ipv4Addr::from(c.rpc_ip));
    let log_format = c
        .has(B_LOG_FORMAT)
        .then_some(if c.log_json { LogFormat::Json } else { LogFormat::Default });
    let max_log_files = c.has(B_MAX_LOG).then_some(c.max_log_files as usize);
    let max_archived = c.has(B_MAX_ARCH).then_some(c.max_archived_log_files as usize);
    let owner = c.has(B_OWNER).then(|| c.owner.clone());
    let network_id = c.has(B_NETWORK_ID).then_some(c.network_id);
    let env = c.has(B_ENV).then(|| c.env.clone());

    let options = AddNodeServiceOptions {
        antnode_dir_path: base_data.clone(),
        antnode_src_path: src_bin.clone(),
        auto_restart: c.auto_restart,
        auto_set_nat_flags: false,
        count: c.count_given.then_some(1),
        delete_antnode_src: false,
        enable_metrics_server: c.enable_metrics_server,
        env_variables: env.clone(),
        evm_network: evm.clone(),
        home_network: c.has(B_HOME),
        log_format,
        max_archived_log_files: max_archived,
        max_log_files,
        metrics_port: metrics_port.map(PortRange::Single),
        network_id,
        node_ip,
        node_port: node_port.map(PortRange::Single),
        owner: owner.clone(),
        peers_args: peers.clone(),
        rewards_address: rewards,
        rpc_address: rpc_ip,
        rpc_port: rpc_port.map(PortRange::Single),
        service_data_dir_path: base_data.clone(),
        service_log_dir_path: base_log.clone(),
        upnp: c.has(B_UPNP),
        user: if user_mode { None } else { username.clone() },
        user_mode,
        version: "0.112.3".to_string(),
    };

    let set_bits = (0..N_BITS).filter(|b| c.mask & (1 << b) != 0).count();
    let custom = matches!(c.evm, Evm::Custom { .. });
    for (b, name) in BIT_NAMES.iter().enumerate() {
        if c.mask & (1 << b) != 0 {
            labels.push(format!("opt/{name}"));
        }
    }
    labels.push(format!("options_set/{}", set_bits.min(14) / 2 * 2));
    labels.push(format!("evm/{}", match c.evm { Evm::ArbitrumOne => "one", Evm::ArbitrumSepolia => "sepolia", Evm::Custom { .. } => "custom" }));
    labels.push(format!("mode/{}", if user_mode { "user" } else { "system" }));
    if c.has(B_PEERS) {
        let p = &c.peers;
        if p.first { labels.push("peers/first".into()); }
        if p.local { labels.push("peers/local".into()); }
        if p.testnet { labels.push("peers/testnet".into()); }
        if p.ignore_cache { labels.push("peers/ignore_cache".into()); }
        if !p.addrs.is_empty() { labels.push("peers/addrs".into()); }
        if !p.urls.is_empty() { labels.push("peers/contacts_urls".into()); }
        if p.cache_dir.is_some() { labels.push("peers/cache_dir".into()); }
    }
    if c.data_dir.contains(' ') || c.log_dir.contains(' ') {
        labels.push("path_with_space".into());
    }
    let nontrivial = set_bits >= 3 && (custom || c.mask & (B_PEERS | B_LOG_FORMAT | B_MAX_LOG | B_MAX_ARCH) != 0);
    let sample = json!({
        "options": BIT_NAMES.iter().enumerate().filter(|(b, _)| c.mask & (1 << b) != 0).map(|(_, n)| *n).collect::<Vec<_>>(),
        "evm": format!("{:?}", c.evm),
        "data_dir": c.data_dir, "log_dir": c.log_dir,
        "peers": if c.has(B_PEERS) { format!("{:?}", c.peers) } else { "-".into() },
        "owner": owner, "user_mode": user_mode,
        "started_before_upgrade": c.start_before_upgrade,
    });
    macro_rules! done {
        () => {
            return Outcome { failures, labels, nontrivial, sample }
        };
    }

    // ---- install --------------------------------------------------------------------------------
    if let Err(e) = add_node(options, &mut reg, &os, VerbosityLevel::Minimal).await {
        fail!("add_node_fails".into(), format!("add_node returned Err for an admissible option set: {e}"));
        done!();
    }
    reg.save().unwrap_or_else(|e| fatal(format!("save: {e}")));
    let install_ctx = match os.st().install_history.first().cloned() {
        Some((ctx, _)) => ctx,
        None => {
            fail!("add_node_installed_nothing".into(), "add_node Ok without an install call".into());
            done!();
        }
    };
    if reg.nodes.len() != 1 {
        fail!("add_node_entry_count".into(), format!("{} entries after one add", reg.nodes.len()));
        done!();
    }

    // ---- optional start (the registry learns the listening port) -------------------------------
    let mut started = false;
    if c.start_before_upgrade {
        let rpc = os.rpc(reg.nodes[0].rpc_socket_addr);
        let service = NodeService::new(&mut reg.nodes[0], Box::new(rpc))
            .with_connection_timeout(Duration::from_secs(300));
        let mut manager = ServiceManager::new(service, Box::new(os.clone()), VerbosityLevel::Minimal);
        match manager.start().await {
            Ok(()) => started = true,
            Err(e) => labels.push(format!("start_failed:{e}")),
        }
        drop(manager);
        reg.save().unwrap_or_else(|e| fatal(format!("save: {e}")));
        labels.push("started_before_upgrade".into());
    }
    // ---- optionally another `antctl add` in between (no --env, everything else default) ------------
    if c.second_add_before_upgrade {
        let second = AddNodeServiceOptions {
            antnode_dir_path: base_data.clone(),
            antnode_src_path: src_bin.clone(),
            auto_restart: false,
            auto_set_nat_flags: false,
            count: None,
            delete_antnode_src: false,
            enable_metrics_server: false,
            env_variables: None,
            evm_network: evm.clone(),
            home_network: false,
            log_format: None,
            max_archived_log_files: None,
            max_log_files: None,
            metrics_port: None,
            network_id: None,
            node_ip: None,
            node_port: None,
            owner: None,
            peers_args: PeersArgs::default(),
            rewards_address: rewards,
            rpc_address: None,
            rpc_port: None,
            service_data_dir_path: base_data.clone(),
            service_log_dir_path: base_log.clone(),
            upnp: false,
            user: if user_mode { None } else { username.clone() },
            user_mode,
            version: "0.112.3".to_string(),
        };
        match add_node(second, &mut reg, &os, VerbosityLevel::Minimal).await {
            Ok(_) => labels.push("second_add_before_upgrade".into()),
            Err(e) => labels.push(format!("inconclusive_precondition/second_add_failed:{}", vh_core::one_line(&e.to_string(), 40))),
        }
        reg.save().unwrap_or_else(|e| fatal(format!("save: {e}")));
    }
    let recorded = reg.nodes[0].clone();

    // ---- upgrade (forced), as cmd/node.rs builds its options --------------------------------------
    let up_env = if c.up.env_override.is_some() {
        c.up.env_override.clone()
    } else {
        reg.environment_variables.clone()
    };
    let up_options = UpgradeOptions {
        auto_restart: c.up.auto_restart,
        env_variables: up_env.clone(),
        force: true,
        start_service: c.up.start_service,
        target_bin_path: new_bin.clone(),
        target_version: semver::Version::new(0, 112, 4),
    };
    {
        let rpc = os.rpc(reg.nodes[0].rpc_socket_addr);
        let service = NodeService::new(&mut reg.nodes[0], Box::new(rpc))
            .with_connection_timeout(Duration::from_secs(300));
        let mut manager = ServiceManager::new(service, Box::new(os.clone()), VerbosityLevel::Minimal);
        if let Err(e) = manager.upgrade(up_options).await {
            fail!("upgrade_fails".into(), format!("forced upgrade returned Err: {e}"));
            done!();
        }
    }
    let upgrade_ctx = {
        let st = os.st();
        if st.install_history.len() < 2 {
            drop(st);
            fail!("upgrade_did_not_reinstall".into(), "no second install call".into());
            done!();
        }
        st.install_history.last().unwrap().0.clone()
    };

    // ---- (1) definition equality ------------------------------------------------------------------
    if install_ctx.program != upgrade_ctx.program {
        fail!("upgrade_changes/program".into(), format!("{:?} -> {:?}", install_ctx.program, upgrade_ctx.program));
    }
    if install_ctx.username != upgrade_ctx.username {
        fail!("upgrade_changes/username".into(), format!("{:?} -> {:?}", install_ctx.username, upgrade_ctx.username));
    }
    if install_ctx.label != upgrade_ctx.label {
        fail!("upgrade_changes/label".into(), format!("{:?} -> {:?}", install_ctx.label, upgrade_ctx.label));
    }
    if install_ctx.contents != upgrade_ctx.contents {
        fail!("upgrade_changes/contents".into(), format!("{:?} -> {:?}", install_ctx.contents, upgrade_ctx.contents));
    }
    if install_ctx.working_directory != upgrade_ctx.working_directory {
        fail!(
            "upgrade_changes/working_directory".into(),
            format!("{:?} -> {:?}", install_ctx.working_directory, upgrade_ctx.working_directory),
        );
    }
    if upgrade_ctx.autostart != c.up.auto_restart {
        fail!(
            "upgrade_ignores_option/auto_restart".into(),
            format!("UpgradeOptions.auto_restart={} but definition autostart={}", c.up.auto_restart, upgrade_ctx.autostart),
        );
    }
    if upgrade_ctx.environment != up_env {
        fail!(
            "upgrade_ignores_option/env_variables".into(),
            format!("UpgradeOptions.env_variables={:?} but definition environment={:?}", up_env, upgrade_ctx.environment),
        );
    }
    // an upgrade that names no environment of its own re-creates the one the service was installed with
    if c.up.env_override.is_none() && upgrade_ctx.environment != install_ctx.environment {
        fail!(
            "upgrade_changes_environment".into(),
            format!("installed with {:?}; the upgraded definition (no environment given to the upgrade) has {:?}", install_ctx.environment, upgrade_ctx.environment),
        );
    }
    // install-time: what the caller asked for
    if install_ctx.autostart != c.auto_restart {
        fail!("install_ignores_option/auto_restart".into(), format!("asked {} got {}", c.auto_restart, install_ctx.autostart));
    }
    if install_ctx.environment != env {
        fail!("install_ignores_option/env_variables".into(), format!("asked {:?} got {:?}", env, install_ctx.environment));
    }
    let to_strings = |ctx: &ServiceInstallCtx| -> Vec<String> {
        ctx.args.iter().map(|a| a.to_string_lossy().to_string()).collect()
    };
    let (ig, is) = group_args(&to_strings(&install_ctx));
    let (mut ug, us) = group_args(&to_strings(&upgrade_ctx));
    let mut port_added = false;
    if started && node_port.is_none() {
        // the one admissible addition: the port learnt from the running node
        if let Some(p) = recorded.node_port {
            let extra = vec!["--port".to_string(), p.to_string()];
            if let Some(pos) = ug.iter().position(|g| *g == extra) {
                if !ig.contains(&extra) {
                    ug.remove(pos);
                    port_added = true;
                    labels.push("upgrade_adds_recorded_port".into());
                }
            }
        }
    }
    if ig != ug || is != us {
        let mut missing: Vec<String> = vec![];
        let mut added: Vec<String> = vec![];
        for (a, b) in [(&ig, &ug), (&is, &us)] {
            let mut rest = b.clone();
            for g in a.iter() {
                match rest.iter().position(|x| x == g) {
                    Some(p) => {
                        rest.remove(p);
                    }
                    None => missing.push(flag_of(g)),
                }
            }
            added.extend(rest.iter().map(|g| flag_of(g)));
        }
        missing.sort();
        added.sort();
        // signature by the flags concerned (a flag both missing and added = changed value)
        let changed: Vec<String> = missing.iter().filter(|f| added.contains(f)).cloned().collect();
        let sig = if !changed.is_empty() {
            format!("upgrade_changes_arg/{}", changed.join("+"))
        } else if !missing.is_empty() {
            format!("upgrade_drops_arg/{}", missing.join("+"))
        } else {
            format!("upgrade_adds_arg/{}", added.join("+"))
        };
        fail!(
            sig,
            format!("install args {:?} | upgrade args {:?}", to_strings(&install_ctx), to_strings(&upgrade_ctx)),
        );
    }

    // ---- (2) the node binary's reading of both argument lists ------------------------------------
    let d1 = run_antnode(&install_ctx, tmp.path());
    let d2 = if to_strings(&install_ctx) == to_strings(&upgrade_ctx) && install_ctx.environment == upgrade_ctx.environment {
        Dump { status_ok: d1.status_ok, stdout: d1.stdout.clone(), stderr: d1.stderr.clone() }
    } else {
        run_antnode(&upgrade_ctx, tmp.path())
    };
    let mut parsed: Vec<Option<Parsed>> = vec![];
    for (which, d, ctx) in [("install", &d1, &install_ctx), ("upgrade", &d2, &upgrade_ctx)] {
        let p = if d.status_ok { parse_dump(&d.stdout) } else { None };
        if p.is_none() {
            fail!(
                format!("antnode_rejects_{which}_args/{}", error_signature(&d.stderr)),
                format!("args {:?} | exit ok={} | stderr: {}", to_strings(ctx), d.status_ok, vh_core::one_line(&d.stderr, 300)),
            );
        }
        parsed.push(p);
    }
    let (Some(p1), Some(p2)) = (&parsed[0], &parsed[1]) else {
        done!();
    };
    // same interpretation of both lists (field-wise, so that the signature names the field)
    for (name, v1) in &p1.fields {
        let v2 = p2.fields.get(name).cloned().unwrap_or_default();
        if *v1 != v2 {
            if name == "port" && port_added {
                continue;
            }
            fail!(
                format!("upgrade_changes_interpretation/{name}"),
                format!("install-time: {} | upgrade-time: {}", vh_core::one_line(v1, 150), vh_core::one_line(&v2, 150)),
            );
        }
    }
    if p1.rewards != p2.rewards {
        fail!("upgrade_changes_interpretation/rewards_address".into(), format!("{} | {}", p1.rewards, p2.rewards));
    }
    if p1.evm != p2.evm {
        fail!("upgrade_changes_interpretation/evm_network".into(), format!("{} | {}", p1.evm, p2.evm));
    }
    if p1.socket != p2.socket && !port_added {
        fail!("upgrade_changes_interpretation/socket".into(), format!("{} | {}", p1.socket, p2.socket));
    }
    if !port_added && p1.text != p2.text && failures_is_empty_hint(&p1.fields, &p2.fields) {
        fail!("upgrade_changes_interpretation/other".into(), "dumps differ outside the known fields".into());
    }

    // the protocol identifiers the node starts with all carry the requested network id (1 when none
    // was requested): every 4th case, and every case that requests one
    if network_id.is_some() || c.network_id % 4 == 0 {
        let want = network_id.unwrap_or(1);
        let d = run_antnode_hook(&install_ctx, tmp.path(), "ANTNODE_VERIF_DUMP_PROTO");
        match d.stdout.lines().find_map(|l| l.strip_prefix("VERIF-PROTO ")) {
            None => {
                if std::env::var_os("VERIF_DEBUG").is_some() {
                    eprintln!("no proto report: ok={} args={:?} stderr={} stdout={}", d.status_ok, to_strings(&install_ctx), vh_core::one_line(&d.stderr, 400), vh_core::one_line(&d.stdout, 300));
                }
                labels.push("inconclusive_precondition/antnode_gave_no_protocol_report".into())
            }
            Some(line) => {
                labels.push("protocol_identifiers_checked".into());
                for kv in line.split_whitespace() {
                    let Some((k, v)) = kv.split_once('=') else { continue };
                    let id = v.rsplit('/').next().unwrap_or("");
                    if id != want.to_string() {
                        fail!(
                            format!("antnode_misreads/network_id_in_{k}"),
                            format!("requested network id {want}; the node would start with {line}"),
                        );
                    }
                }
            }
        }
    }

    // the intended configuration, field by field (install-time reading)
    let data_dir = recorded.data_dir_path.clone();
    let log_dir = recorded.log_dir_path.clone();
    if !data_dir.starts_with(&base_data) {
        fail!("service_data_dir_outside_requested_dir".into(), format!("{} not under {}", data_dir.display(), base_data.display()));
    }
    if !log_dir.starts_with(&base_log) {
        fail!("service_log_dir_outside_requested_dir".into(), format!("{} not under {}", log_dir.display(), base_log.display()));
    }
    let rpc_addr = SocketAddr::new(
        IpAddr::V4(rpc_ip.unwrap_or(Ipv4Addr::new(127, 0, 0, 1))),
        rpc_port.unwrap_or(recorded.rpc_socket_addr.port()),
    );
    if rpc_port.is_none() && recorded.rpc_socket_addr.port() < 40_000 {
        fail!("rpc_port_not_from_allocator".into(), format!("{}", recorded.rpc_socket_addr));
    }
    let metrics_expected: u16 = match metrics_port {
        Some(p) => p,
        None if c.enable_metrics_server => {
            // allocated by antctl; the registry is the user-visible record of it
            match recorded.metrics_port {
                Some(p) if p >= 40_000 => p,
                other => {
                    fail!("metrics_port_not_allocated".into(), format!("enable_metrics_server given, registry records {other:?}"));
                    0
                }
            }
        }
        None => 0,
    };
    let ip_expected = IpAddr::V4(node_ip.unwrap_or(Ipv4Addr::UNSPECIFIED));
    let port_expected = node_port.unwrap_or(0);
    let expected: Vec<(&str, String)> = vec![
        ("home_network", pretty(&c.has(B_HOME))),
        ("upnp", pretty(&c.has(B_UPNP))),
        ("log_output_dest", pretty(&LogOutputDestArg::Path(log_dir.clone()))),
        ("log_format", pretty(&log_format)),
        ("max_log_files", pretty(&max_log_files)),
        ("max_archived_log_files", pretty(&max_archived)),
        ("network_id", pretty(&network_id)),
        ("root_dir", pretty(&Some(data_dir.clone()))),
        ("port", pretty(&port_expected)),
        ("ip", pretty(&ip_expected)),
        ("peers", pretty(&peers)),
        ("rpc", pretty(&Some(rpc_addr))),
        // antctl's documented normalisation: owner names are lower-cased
        ("owner", pretty(&owner.as_ref().map(|o| o.to_lowercase()))),
        ("metrics_server_port", pretty(&metrics_expected)),
        ("crate_version", "false".into()),
        ("protocol_version", "false".into()),
        ("package_version", "false".into()),
        ("version", "false".into()),
    ];
    for (name, want) in &expected {
        match p1.fields.get(*name) {
            None => fail!(format!("antnode_dump_lacks_field/{name}"), vh_core::one_line(&p1.text, 300)),
            Some(got) if got != want => fail!(
                format!("antnode_misreads/{name}"),
                format!("intended {} | antnode parsed {} | args {:?}", vh_core::one_line(want, 200), vh_core::one_line(got, 200), to_strings(&install_ctx)),
            ),
            _ => {}
        }
    }
    // metrics server must come up when asked for (flag or port)
    if (c.enable_metrics_server || metrics_port.is_some())
        && metrics_expected == 0
        && p1.fields.get("enable_metrics_server").map(|s| s.as_str()) != Some("true")
    {
        fail!("antnode_misreads/metrics_server_not_enabled".into(), format!("args {:?}", to_strings(&install_ctx)));
    }
    if p1.rewards != format!("{rewards:?}") {
        fail!("antnode_misreads/rewards_address".into(), format!("intended {rewards:?} | parsed {}", p1.rewards));
    }
    if p1.evm != format!("{evm:?}") {
        fail!("antnode_misreads/evm_network".into(), format!("intended {evm:?} | parsed {}", p1.evm));
    }
    if p1.socket != SocketAddr::new(ip_expected, port_expected).to_string() {
        fail!("antnode_misreads/socket".into(), format!("intended {ip_expected}:{port_expected} | parsed {}", p1.socket));
    }
    // after a start, the upgrade-time reading must carry the recorded port
    if port_added {
        let want = pretty(&recorded.node_port.unwrap_or(0));
        if p2.fields.get("port") != Some(&want) {
            fail!("antnode_misreads/port_after_upgrade".into(), format!("recorded {:?} parsed {:?}", recorded.node_port, p2.fields.get("port")));
        }
    }
    Outcome {
        failures,
        labels,
        nontrivial,
        sample,
    }
}

/// true when every known field agrees (so a textual difference lies elsewhere)
fn failures_is_empty_hint(a: &BTreeMap<String, String>, b: &BTreeMap<String, String>) -> bool {
    a == b
}

pub fn check(case: &Case, ctx: &mut Ctx) {
    let o = execute(case);
    for l in o.labels {
        ctx.label(l);
    }
    ctx.nontrivial_if(o.nontrivial);
    ctx.sample = Some(o.sample);
    for f in o.failures {
        ctx.fail(f.sig, f.detail);
    }
}

// ------------------------------------------------------------------------------------------------
// thorough: every presence/absence pattern of the 14 optional options, values random
// ------------------------------------------------------------------------------------------------

fn all_patterns(rep: &mut Report) {
    use proptest::strategy::ValueTree;
    use proptest::test_runner::{Config, RngAlgorithm, TestRng, TestRunner};
    use std::sync::atomic::{AtomicBool, Ordering};
    let name = "all_presence_patterns";
    if let Some(o) = &rep.cfg.only {
        if !name.contains(o.as_str()) {
            return;
        }
    }
    if rep.cfg.replay.is_some() {
        return;
    }
    let t0 = Instant::now();
    let total: u32 = 1 << N_BITS;
    let n = ((total as f64) * rep.cfg.scale.min(1.0)).ceil().max(1.0) as u32;
    let workers = rep.cfg.workers.max(1);
    let deadline = Instant::now() + rep.budget_left();
    let stop = AtomicBool::new(false);
    struct W {
        stats: SectionStats,
        violation: Option<(Failure, serde_json::Value)>,
        complete: bool,
    }
    let results: std::sync::Mutex<Vec<(usize, W)>> = std::sync::Mutex::new(vec![]);
    {
        let this: &Report = rep;
        let stop = &stop;
        let results = &results;
        std::thread::scope(|scope| {
            for w in 0..workers {
                std::thread::Builder::new()
                    .name(format!("C20-patterns-w{w}"))
                    .stack_size(16 << 20)
                    .spawn_scoped(scope, move || {
                        let seed = vh_core::derive_seed(this.cfg.seed, "C20", name, w as u64);
                        let mut runner = TestRunner::new_with_rng(
                            Config { failure_persistence: None, ..Config::default() },
                            TestRng::from_seed(RngAlgorithm::ChaCha, &seed),
                        );
                        let mut out = W { stats: SectionStats::default(), violation: None, complete: true };
                        let mut mask = w as u32;
                        while mask < n {
                            if stop.load(Ordering::Relaxed) {
                                out.complete = false;
                                break;
                            }
                            if Instant::now() > deadline {
                                out.complete = false;
                                out.stats.stopped_by_budget = true;
                                break;
                            }
                            let case = case_strategy(Some(mask as u16))
                                .new_tree(&mut runner)
                                .expect("generate")
                                .current();
                            let o = match vh_core::catch_panic(|| execute(&case)) {
                                Ok(o) => o,
                                Err(msg) => Outcome {
                                    failures: vec![Failure { sig: "panic".into(), detail: msg }],
                                    labels: vec![],
                                    nontrivial: false,
                                    sample: serde_json::Value::Null,
                                },
                            };
                            out.stats.evaluations += 1;
                            for l in &o.labels {
                                *out.stats.classes.entry(l.clone()).or_default() += 1;
                            }
                            if o.nontrivial {
                                let fresh = out.stats.nontrivial_hashes.insert(vh_core::stable_hash(&format!("{case:?}")));
                                if fresh && out.stats.samples.len() < 1 {
                                    out.stats.samples.push(o.sample.clone());
                                }
                            }
                            if !o.failures.is_empty() {
                                let unknown: Vec<&Failure> =
                                    o.failures.iter().filter(|f| !this.is_known("options", &f.sig)).collect();
                                if unknown.is_empty() {
                                    out.stats.excluded_known += 1;
                                    let mut seen = this.known_seen.lock().unwrap();
                                    for f in &o.failures {
                                        seen.insert(f.sig.clone());
                                    }
                                } else {
                                    out.violation = Some((
                                        unknown[0].clone(),
                                        serde_json::to_value(&case).unwrap_or(serde_json::Value::Null),
                                    ));
                                    out.complete = false;
                                    stop.store(true, Ordering::Relaxed);
                                    break;
                                }
                            }
                            mask += workers as u32;
                        }
                        results.lock().unwrap().push((w, out));
                    })
                    .expect("spawn");
            }
        });
    }
    let mut results = results.into_inner().unwrap();
    results.sort_by_key(|(w, _)| *w);
    let mut stats = SectionStats {
        name: name.to_string(),
        rule: "every presence/absence pattern of the 14 optional options (node/rpc/metrics port, node ip, rpc ip, peers args, log format, max log files, max archived log files, owner, network id, home-network, upnp, env), one case per pattern with all values (and evm network, user mode, directories, upgrade inputs) drawn at random; exhaustive over patterns, not over values; non-trivial: >=3 options set incl. custom evm / peers / log settings".into(),
        ..Default::default()
    };
    let mut complete = n == total;
    let mut violation = None;
    for (_, r) in results {
        stats.evaluations += r.stats.evaluations;
        stats.nontrivial_hashes.extend(r.stats.nontrivial_hashes);
        for (k, v) in r.stats.classes {
            *stats.classes.entry(k).or_default() += v;
        }
        for s in r.stats.samples {
            if stats.samples.len() < 2 {
                stats.samples.push(s);
            }
        }
        stats.excluded_known += r.stats.excluded_known;
        stats.stopped_by_budget |= r.stats.stopped_by_budget;
        complete &= r.complete;
        if violation.is_none() {
            violation = r.violation;
        }
    }
    stats.exhaustive = complete && violation.is_none();
    stats.wall_s = t0.elapsed().as_secs_f64();
    stats.extra.insert("patterns_total".into(), json!(total));
    if stats.stopped_by_budget {
        rep.inconclusive.push(format!("section {name} stopped by time budget"));
    }
    rep.add_manual(stats);
    if let Some((f, case)) = violation {
        rep.manual_violation("options", f, &case);
    }
}

pub fn run(cfg: RunCfg) {
    if ant_node_manager::config::get_user_antnode_data_dir().is_err() {
        fatal("no user data directory (HOME unset?): add_node cannot run".into());
    }
    let bin = ensure_antnode(&cfg);
    if !bin.is_file() {
        inconclusive(format!("{} does not exist", bin.display()));
    }
    let _ = ANTNODE.set(bin.clone());
    // the hook must be in the binary, otherwise a node would really start
    {
        let probe = Command::new(&bin)
            .args(["--rewards-address", "0x03B770D9cD32077cC0bF330c13C114a87643B124", "evm-arbitrum-one"])
            .env_clear()
            .env("ANTNODE_VERIF_DUMP_OPTS", "1")
            .current_dir(std::env::temp_dir())
            .output()
            .unwrap_or_else(|e| inconclusive(format!("cannot spawn {}: {e}", bin.display())));
        let so = String::from_utf8_lossy(&probe.stdout);
        if !probe.status.success() || parse_dump(&so).is_none() {
            inconclusive(format!(
                "{} does not answer the ANTNODE_VERIF_DUMP_OPTS hook (built without --features verif-hooks?)",
                bin.display()
            ));
        }
    }
    let mut rep = Report::new(cfg, "exploration");
    rep.extra.insert("antnode_binary".into(), json!(bin.display().to_string()));
    rep.rule = "C20: option combinations -> real add_node and real ServiceManager::upgrade(force) over FakeOS; captured install vs. re-install ServiceInstallCtx compared; both argument lists run through the real antnode (verif-hooks early exit) and its parsed options compared with each other and with the intended configuration.".into();
    rep.assumptions = vec![
        "trusted base: FakeOS (ServiceControl/RpcActions seam); what the OS service manager does with a ServiceInstallCtx (unit-file quoting of arguments with spaces etc.) is below the seam and not exercised: the argument vector is passed to antnode as is".into(),
        "antnode is built from the same working tree with --features verif-hooks; the hook prints the parsed options after rewards-address and EVM-network resolution and exits before anything is created; interpretation beyond the parsed options (e.g. how --upnp and --home-network interact at run time) is not judged".into(),
        "generated inputs are what antctl's own command line can produce: clap conflicts of PeersArgs (--first vs --peer/--network-contacts-url, --local vs --network-contacts-url) and --count vs --first respected; URLs without ','; owner never starts with '-'; directory names are valid UTF-8 without '/'; the three requested ports are pairwise distinct and < 65535 (antctl computes port+1 unconditionally: C17's subject); env values without ','".into(),
        "UpgradeOptions.auto_restart and .env_variables are explicit upgrade inputs (statement: 'differing only where the upgrade explicitly changes something'); env defaults to the registry's variables as cmd/node.rs does. cmd::node::upgrade itself hard-codes auto_restart=false; that glue needs downloads and the real service manager and is outside the harness".into(),
        "data/log directory of the service: the registry's recorded paths are taken as the intended ones, and must lie under the requested base directories".into(),
        "the node is spawned with a cleared environment plus the definition's environment variables; ANT_PEERS (documented to add to the peers given on the command line) is not generated; EVM_NETWORK / RPC_URL / PAYMENT_TOKEN_ADDRESS / DATA_PAYMENTS_ADDRESS are: antctl always names the network on the command line, so they must not change the network the node runs on".into(),
    ];
    fakeos::quietly(&mut rep, |rep| {
        vh_core::section!(
            rep,
            "options",
            (10_000, 200_000),
            16,
            "presence mask over 14 optional options (uniform / dense / all), evm network 3 kinds (custom: generated url + addresses), ports, ips, peers args within clap's conflict rules, log settings, owner, network id, flags, user/system mode, env, directory names with spaces/quotes/unicode, optional start before the forced upgrade, upgrade inputs; non-trivial: >=3 optional options set incl. one of custom evm / peers args / log settings; distinct by case",
            || case_strategy(None),
            check
        )
    });
    if rep.tier() == vh_core::Tier::Thorough {
        fakeos::quietly(&mut rep, all_patterns);
    }
    rep.finish();
}
