//! vh-mgmt: checks of the node service manager (antctl) over a simulated OS.
//!   C19 — lifecycle state vs. managed processes under injected faults
//!   C20 — upgrade keeps every setting; the real antnode accepts what antctl writes
pub mod c19;
pub mod c20;
pub mod fakeos;

pub fn main_entry() {
    let cfg = vh_core::RunCfg::from_args();
    match cfg.prop.as_str() {
        "C19" => c19::run(cfg),
        "C20" => c20::run(cfg),
        other => {
            eprintln!("vh-mgmt: unknown property {other}");
            std::process::exit(2);
        }
    }
}

/// Sections that the coverage-guided campaigns of the thorough tier drive (`/verif/fuzz`).
pub fn fuzz_table() -> vh_core::secfuzz::Table {
    use vh_core::secfuzz::entry;
    vec![
        entry("C19", "sequences", c19::case_strategy, c19::check),
    ]
}
