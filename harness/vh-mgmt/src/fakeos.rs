//! FakeOS — a stateful in-memory stand-in for the operating system's service manager and for the
//! nodes' RPC endpoints, implementing the two public seams of the service manager code:
//! `ant_service_management::control::ServiceControl` and `ant_service_management::rpc::RpcActions`.
//!
//! Semantics (modelled on systemd as driven by the `service-manager` crate and on the real
//! `ServiceController` wrapper):
//! * `install` writes (or overwrites) the definition `label -> ServiceInstallCtx`;
//! * `start` of an installed service makes a process appear for `ctx.program` with a fresh pid (no-op
//!   if one is already alive); `start`/`stop` of an unknown service fail;
//! * `stop` kills the process of `ctx.program`;
//! * `uninstall` removes the definition (a running process is *not* killed, as with a removed unit
//!   file); uninstalling an unknown service fails with `ServiceDoesNotExists` — one of the two errors
//!   the real wrapper produces for a missing definition (both are handled identically by callers);
//! * `get_process_pid(path)` answers from the process table, `ServiceProcessNotFound` otherwise;
//! * `get_available_port` hands out never-used ports from 40000 upwards;
//! * RPC calls are answered from the process table: the endpoint of a service is reachable iff the
//!   process launched with `--rpc <that address>` is alive.
//!
//! Every call is logged with (operation index, index within the operation). A fault plan
//! "the k-th call of operation j fails (variant v)" is applied at the seam. Variants per call kind:
//! see [`CallKind::variants`].
//!
//! All state sits behind `Arc<Mutex<..>>` so the harness can read the truth after every operation.

use ant_service_management::{
    control::ServiceControl,
    error::{Error, Result},
    rpc::{NetworkInfo, NodeInfo, RecordAddress, RpcActions},
};
use async_trait::async_trait;
use libp2p::{Multiaddr, PeerId};
use serde::{Deserialize, Serialize};
use service_manager::ServiceInstallCtx;
use std::{
    collections::{BTreeMap, BTreeSet},
    net::SocketAddr,
    path::{Path, PathBuf},
    sync::{Arc, Mutex},
    time::Duration,
};

#[derive(Clone, Copy, Debug, PartialEq, Eq, Hash, PartialOrd, Ord, Serialize, Deserialize)]
pub enum CallKind {
    CreateUser,
    GetPort,
    Install,
    Pid,
    Start,
    Stop,
    Uninstall,
    RpcNodeInfo,
    RpcNetworkInfo,
    RpcConnected,
    RpcOther,
}

impl CallKind {
    /// Names of the failure variants that can be injected at a call of this kind.
    pub fn variants(&self) -> &'static [&'static str] {
        match self {
            // start: hard error, or the silent variant the code comments mention ("You don't always
            // get an error from the service infrastructure"): Ok, but no process appears
            CallKind::Start => &["err", "silent_no_process"],
            // uninstall: hard error (definition stays), or "definition file vanished" (definition
            // is gone and the wrapper reports ServiceRemovedManually)
            CallKind::Uninstall => &["err", "removed_manually"],
            _ => &["err"],
        }
    }
    pub fn short(&self) -> &'static str {
        match self {
            CallKind::CreateUser => "create_user",
            CallKind::GetPort => "get_port",
            CallKind::Install => "install",
            CallKind::Pid => "pid",
            CallKind::Start => "start",
            CallKind::Stop => "stop",
            CallKind::Uninstall => "uninstall",
            CallKind::RpcNodeInfo => "rpc_node_info",
            CallKind::RpcNetworkInfo => "rpc_network_info",
            CallKind::RpcConnected => "rpc_connected",
            CallKind::RpcOther => "rpc_other",
        }
    }
}

/// "the `call`-th FakeOS/RPC call made by operation number `op` fails"; `variant` selects among the
/// failure variants of whatever kind of call is found there (monotone mapping, 0 = hard error).
#[derive(Clone, Debug, PartialEq, Eq, Hash, PartialOrd, Ord, Serialize, Deserialize)]
pub struct Fault {
    pub op: u8,
    pub call: u8,
    pub variant: u8,
}

#[derive(Clone, Debug)]
pub struct CallRec {
    pub op: usize,
    pub call: usize,
    pub kind: CallKind,
    pub arg: String,
    pub injected: Option<&'static str>,
}

#[derive(Clone, Debug)]
pub struct Proc {
    pub pid: u32,
    pub service: String,
    pub rpc: Option<SocketAddr>,
    pub node_port: u16,
    pub root_dir: Option<PathBuf>,
}

#[derive(Default)]
pub struct State {
    pub installed: BTreeMap<String, (ServiceInstallCtx, bool)>,
    pub procs: BTreeMap<PathBuf, Proc>,
    next_pid: u32,
    next_port: u16,
    next_node_port: u16,
    pub log: Vec<CallRec>,
    pub cur_op: usize,
    pub calls_in_op: usize,
    pub faults: Vec<Fault>,
    /// faults that were actually applied: (fault, kind of call found there, variant name)
    pub hits: Vec<(Fault, CallKind, &'static str)>,
    /// every definition ever handed to `install`, in order
    pub install_history: Vec<(ServiceInstallCtx, bool)>,
    /// binaries whose pid lookup failed *by injection* while their process was alive and has stayed
    /// alive since (used only to attribute a later discrepancy to that root cause)
    pub lookup_failed_while_alive: BTreeSet<PathBuf>,
    /// same, but the failing lookup was the one `ServiceManager::start` makes right after it launched
    /// the process in the same operation (the launch cannot be undone and nothing gets recorded)
    pub lookup_failed_post_launch: BTreeSet<PathBuf>,
    /// kinds of the calls made by each operation (key = op index), in call order
    pub calls_per_op: BTreeMap<usize, Vec<CallKind>>,
}

#[derive(Clone)]
pub struct FakeOs(pub Arc<Mutex<State>>);

fn io_err(what: &str) -> Error {
    Error::Io(std::io::Error::new(
        std::io::ErrorKind::Other,
        format!("injected failure: {what}"),
    ))
}

impl State {
    /// Log the call; if the fault plan names this call return the variant to apply.
    fn intercept(&mut self, kind: CallKind, arg: String) -> Option<&'static str> {
        let (op, call) = (self.cur_op, self.calls_in_op);
        self.calls_in_op += 1;
        self.calls_per_op.entry(op).or_default().push(kind);
        let mut injected = None;
        if let Some(f) = self
            .faults
            .iter()
            .find(|f| f.op as usize == op && f.call as usize == call)
            .cloned()
        {
            let vs = kind.variants();
            let v = vs[((f.variant as usize) * vs.len()) >> 8];
            injected = Some(v);
            self.hits.push((f, kind, v));
        }
        self.log.push(CallRec {
            op,
            call,
            kind,
            arg,
            injected,
        });
        injected
    }

    fn kill(&mut self, path: &Path) -> bool {
        self.lookup_failed_while_alive.remove(path);
        self.lookup_failed_post_launch.remove(path);
        self.procs.remove(path).is_some()
    }

    fn spawn(&mut self, service: &str, ctx: &ServiceInstallCtx) {
        if self.procs.contains_key(&ctx.program) {
            return;
        }
        let args: Vec<String> = ctx
            .args
            .iter()
            .map(|a| a.to_string_lossy().to_string())
            .collect();
        let val = |flag: &str| -> Option<String> {
            args.iter()
                .position(|a| a == flag)
                .and_then(|i| args.get(i + 1).cloned())
        };
        let node_port = match val("--port").and_then(|p| p.parse::<u16>().ok()) {
            Some(p) if p != 0 => p,
            _ => {
                self.next_node_port += 1;
                50_000 + self.next_node_port
            }
        };
        self.next_pid += 1;
        let pid = 1000 + self.next_pid;
        self.procs.insert(
            ctx.program.clone(),
            Proc {
                pid,
                service: service.to_string(),
                rpc: val("--rpc").and_then(|s| s.parse().ok()),
                node_port,
                root_dir: val("--root-dir").map(PathBuf::from),
            },
        );
    }

    pub fn begin_op(&mut self, op: usize) {
        self.cur_op = op;
        self.calls_in_op = 0;
    }

    pub fn pid_of(&self, path: &Path) -> Option<u32> {
        self.procs.get(path).map(|p| p.pid)
    }
}

impl FakeOs {
    pub fn new(faults: Vec<Fault>) -> FakeOs {
        FakeOs(Arc::new(Mutex::new(State {
            faults,
            ..Default::default()
        })))
    }
    pub fn st(&self) -> std::sync::MutexGuard<'_, State> {
        self.0.lock().unwrap_or_else(|e| e.into_inner())
    }
    /// environment event: the process of that binary disappears
    pub fn crash(&self, path: &Path) -> bool {
        self.st().kill(path)
    }
    pub fn rpc(&self, addr: SocketAddr) -> FakeRpc {
        FakeRpc {
            os: self.clone(),
            addr,
        }
    }
}

impl ServiceControl for FakeOs {
    fn create_service_user(&self, username: &str) -> Result<()> {
        let mut st = self.st();
        if st.intercept(CallKind::CreateUser, username.into()).is_some() {
            return Err(Error::ServiceUserAccountCreationFailed);
        }
        Ok(())
    }

    fn get_available_port(&self) -> Result<u16> {
        let mut st = self.st();
        if st.intercept(CallKind::GetPort, String::new()).is_some() {
            return Err(io_err("get_available_port"));
        }
        st.next_port += 1;
        Ok(40_000 + st.next_port)
    }

    fn install(&self, install_ctx: ServiceInstallCtx, user_mode: bool) -> Result<()> {
        let mut st = self.st();
        let name = install_ctx.label.to_string();
        if st.intercept(CallKind::Install, name.clone()).is_some() {
            return Err(io_err("install"));
        }
        st.install_history.push((install_ctx.clone(), user_mode));
        st.installed.insert(name, (install_ctx, user_mode));
        Ok(())
    }

    fn get_process_pid(&self, path: &Path) -> Result<u32> {
        let mut st = self.st();
        if st
            .intercept(CallKind::Pid, path.to_string_lossy().into())
            .is_some()
        {
            if st.procs.contains_key(path) {
                let launched_in_this_op = st.calls_per_op.get(&st.cur_op).map(|c| c.contains(&CallKind::Start)).unwrap_or(false);
                if launched_in_this_op {
                    st.lookup_failed_post_launch.insert(path.to_path_buf());
                } else {
                    st.lookup_failed_while_alive.insert(path.to_path_buf());
                }
            }
            // deliberately *not* ServiceProcessNotFound: the lookup failed, the OS did not say
            // "no such process"
            return Err(io_err("get_process_pid"));
        }
        match st.procs.get(path) {
            Some(p) => Ok(p.pid),
            None => Err(Error::ServiceProcessNotFound(
                path.to_string_lossy().to_string(),
            )),
        }
    }

    fn start(&self, service_name: &str, _user_mode: bool) -> Result<()> {
        let mut st = self.st();
        match st.intercept(CallKind::Start, service_name.into()) {
            Some("err") => return Err(io_err("start")),
            Some(_) => {
                // silent: the service manager reports success, nothing is launched
                return if st.installed.contains_key(service_name) {
                    Ok(())
                } else {
                    Err(io_err("start: unit not found"))
                };
            }
            None => {}
        }
        let Some((ctx, _)) = st.installed.get(service_name).cloned() else {
            return Err(Error::Io(std::io::Error::new(
                std::io::ErrorKind::Other,
                format!("unit {service_name} not found"),
            )));
        };
        st.spawn(service_name, &ctx);
        Ok(())
    }

    fn stop(&self, service_name: &str, _user_mode: bool) -> Result<()> {
        let mut st = self.st();
        if st.intercept(CallKind::Stop, service_name.into()).is_some() {
            return Err(io_err("stop"));
        }
        let Some((ctx, _)) = st.installed.get(service_name).cloned() else {
            return Err(Error::Io(std::io::Error::new(
                std::io::ErrorKind::Other,
                format!("unit {service_name} not loaded"),
            )));
        };
        st.kill(&ctx.program);
        Ok(())
    }

    fn uninstall(&self, service_name: &str, _user_mode: bool) -> Result<()> {
        let mut st = self.st();
        match st.intercept(CallKind::Uninstall, service_name.into()) {
            Some("err") => return Err(io_err("uninstall")),
            Some(_) => {
                st.installed.remove(service_name);
                return Err(Error::ServiceRemovedManually(service_name.to_string()));
            }
            None => {}
        }
        if st.installed.remove(service_name).is_none() {
            return Err(Error::ServiceDoesNotExists(service_name.to_string()));
        }
        Ok(())
    }

    fn wait(&self, _delay: u64) {}
}

/// deterministic peer id from a small integer / string
pub fn peer_id_from(seed: &str, n: u8) -> PeerId {
    let mut bytes = [0u8; 32];
    let h = vh_core::stable_hash(seed);
    bytes[..8].copy_from_slice(&h.to_le_bytes());
    bytes[8..16].copy_from_slice(&vh_core::splitmix64(h).to_le_bytes());
    bytes[31] = n;
    bytes[30] = 1;
    let kp = libp2p_identity::Keypair::ed25519_from_bytes(bytes).expect("ed25519 seed");
    kp.public().to_peer_id()
}

/// The RPC endpoint of one service, as seen from the manager.
pub struct FakeRpc {
    os: FakeOs,
    addr: SocketAddr,
}

impl FakeRpc {
    fn proc(&self, st: &State) -> Option<Proc> {
        st.procs.values().find(|p| p.rpc == Some(self.addr)).cloned()
    }
    fn unreachable(&self) -> Error {
        Error::RpcConnectionError(format!("https://{}", self.addr))
    }
}

#[async_trait]
impl RpcActions for FakeRpc {
    async fn node_info(&self) -> Result<NodeInfo> {
        let mut st = self.os.st();
        if st
            .intercept(CallKind::RpcNodeInfo, self.addr.to_string())
            .is_some()
        {
            return Err(Error::RpcNodeInfoError("injected failure".into()));
        }
        let p = self.proc(&st).ok_or_else(|| self.unreachable())?;
        let root = p.root_dir.clone().unwrap_or_default();
        Ok(NodeInfo {
            pid: p.pid,
            peer_id: peer_id_from(&root.to_string_lossy(), 0),
            log_path: root.join("logs"),
            data_path: root,
            version: "0.0.0".into(),
            uptime: Duration::from_secs(1),
            wallet_balance: 0,
        })
    }

    async fn network_info(&self) -> Result<NetworkInfo> {
        let mut st = self.os.st();
        if st
            .intercept(CallKind::RpcNetworkInfo, self.addr.to_string())
            .is_some()
        {
            return Err(Error::RpcNodeInfoError("injected failure".into()));
        }
        let p = self.proc(&st).ok_or_else(|| self.unreachable())?;
        let listener: Multiaddr = format!("/ip4/127.0.0.1/udp/{}/quic-v1", p.node_port)
            .parse()
            .expect("multiaddr");
        Ok(NetworkInfo {
            connected_peers: (1..=6).map(|i| peer_id_from("peer", i)).collect(),
            listeners: vec![listener],
        })
    }

    async fn record_addresses(&self) -> Result<Vec<RecordAddress>> {
        let mut st = self.os.st();
        if st
            .intercept(CallKind::RpcOther, "record_addresses".into())
            .is_some()
        {
            return Err(Error::RpcRecordAddressError("injected failure".into()));
        }
        self.proc(&st).ok_or_else(|| self.unreachable())?;
        Ok(vec![])
    }

    async fn node_restart(&self, _delay_millis: u64, _retain_peer_id: bool) -> Result<()> {
        let mut st = self.os.st();
        if st
            .intercept(CallKind::RpcOther, "node_restart".into())
            .is_some()
        {
            return Err(Error::RpcNodeRestartError("injected failure".into()));
        }
        let p = self.proc(&st).ok_or_else(|| self.unreachable())?;
        if let Some((ctx, _)) = st.installed.get(&p.service).cloned() {
            st.kill(&ctx.program);
            st.spawn(&p.service, &ctx);
        }
        Ok(())
    }

    async fn node_stop(&self, _delay_millis: u64) -> Result<()> {
        let mut st = self.os.st();
        if st
            .intercept(CallKind::RpcOther, "node_stop".into())
            .is_some()
        {
            return Err(Error::RpcNodeStopError("injected failure".into()));
        }
        let p = self.proc(&st).ok_or_else(|| self.unreachable())?;
        let path = st
            .procs
            .iter()
            .find(|(_, q)| q.pid == p.pid)
            .map(|(k, _)| k.clone());
        if let Some(path) = path {
            st.kill(&path);
        }
        Ok(())
    }

    async fn node_update(&self, _delay_millis: u64) -> Result<()> {
        let mut st = self.os.st();
        if st
            .intercept(CallKind::RpcOther, "node_update".into())
            .is_some()
        {
            return Err(Error::RpcNodeUpdateError("injected failure".into()));
        }
        self.proc(&st).ok_or_else(|| self.unreachable())?;
        Ok(())
    }

    async fn is_node_connected_to_network(&self, _timeout: Duration) -> Result<()> {
        let mut st = self.os.st();
        if st
            .intercept(CallKind::RpcConnected, self.addr.to_string())
            .is_some()
        {
            return Err(self.unreachable());
        }
        self.proc(&st).ok_or_else(|| self.unreachable())?;
        Ok(())
    }

    async fn update_log_level(&self, _log_levels: String) -> Result<()> {
        let mut st = self.os.st();
        if st
            .intercept(CallKind::RpcOther, "update_log_level".into())
            .is_some()
        {
            return Err(Error::RpcNodeUpdateError("injected failure".into()));
        }
        self.proc(&st).ok_or_else(|| self.unreachable())?;
        Ok(())
    }
}

// ------------------------------------------------------------------------------------------------
// shared helpers for C19 / C20
// ------------------------------------------------------------------------------------------------

/// The name of the user this process runs as (for system-mode services the directories are chowned
/// to the service user; using ourselves keeps that a no-op that needs no privileges).
pub fn current_username() -> Option<String> {
    users::get_current_username().map(|s| s.to_string_lossy().to_string())
}

/// Per-case scratch directory: on tmpfs when the machine has one (the cases are dominated by
/// directory creation/removal), else the system temp dir. Removed when dropped.
pub fn scratch_dir(prefix: &str) -> std::io::Result<tempfile::TempDir> {
    let shm = Path::new("/dev/shm");
    let mut b = tempfile::Builder::new();
    b.prefix(prefix);
    if std::env::var_os("VERIF_NO_SHM").is_none() && shm.is_dir() {
        if let Ok(d) = b.tempdir_in(shm) {
            return Ok(d);
        }
    }
    b.tempdir()
}

thread_local! {
    static RT: tokio::runtime::Runtime = tokio::runtime::Builder::new_current_thread()
        .enable_time()
        .build()
        .expect("tokio runtime");
}

/// Run a future to completion on this worker thread's single-threaded runtime.
pub fn block_on<F: std::future::Future>(f: F) -> F::Output {
    RT.with(|rt| rt.block_on(f))
}

/// While alive, file descriptor 1 points at /dev/null (the code under test `println!`s progress
/// messages unconditionally in a few places; thousands of cases would bury the contract lines).
pub struct StdoutSilencer {
    saved: i32,
}

impl StdoutSilencer {
    pub fn new() -> Option<StdoutSilencer> {
        use std::io::Write;
        let _ = std::io::stdout().flush();
        unsafe {
            let saved = libc::dup(1);
            if saved < 0 {
                return None;
            }
            let null = libc::open(b"/dev/null\0".as_ptr() as *const libc::c_char, libc::O_WRONLY);
            if null < 0 {
                libc::close(saved);
                return None;
            }
            libc::dup2(null, 1);
            libc::close(null);
            Some(StdoutSilencer { saved })
        }
    }
}

impl Drop for StdoutSilencer {
    fn drop(&mut self) {
        use std::io::Write;
        let _ = std::io::stdout().flush();
        unsafe {
            libc::dup2(self.saved, 1);
            libc::close(self.saved);
        }
    }
}

/// Run `f` (a `Report::run` of a section) with stdout silenced, then re-print the VIOLATION lines for
/// violations recorded meanwhile (the runner printed them into the void).
pub fn quietly<R>(rep: &mut vh_core::Report, f: impl FnOnce(&mut vh_core::Report) -> R) -> R {
    if rep.cfg.replay.is_some() {
        return f(rep);
    }
    let before = rep.violations.len();
    let guard = StdoutSilencer::new();
    let silenced = guard.is_some();
    let r = f(rep);
    drop(guard);
    if silenced {
        for v in &rep.violations[before..] {
            println!(
                "VIOLATION property={} replay={} section={} sig={} :: {}",
                rep.cfg.prop,
                v.replay.display(),
                v.section,
                v.failure.sig,
                vh_core::one_line(&v.failure.detail, 400)
            );
        }
    }
    r
}
