//! C12 value specs: plain-data descriptions of records and messages (replayable as JSON), their
//! builders into the repository's types, proptest strategies, and the fixed golden catalogue.

use crate::c12_oracle::RecVal;
use crate::common::*;
use ant_protocol::error::Error as ProtoError;
use ant_protocol::messages::{ChunkProof, Cmd, CmdResponse, Query, QueryResponse, Request, Response};
use ant_protocol::storage::{
    Chunk, ChunkAddress, RecordType, RegisterAddress, Scratchpad, ScratchpadAddress, Transaction, TransactionAddress,
};
use ant_protocol::{NetworkAddress, PrettyPrintRecordKey};
use ant_registers::{Permissions, Register, RegisterCrdt, RegisterOp, SignedRegister};
use bytes::Bytes;
use libp2p::kad::RecordKey;
use libp2p::multiaddr::Protocol;
use libp2p::Multiaddr;
use proptest::prelude::*;
use serde::{Deserialize, Serialize};
use std::collections::BTreeSet;
use std::sync::OnceLock;
use xor_name::XorName;

pub const BLS_KEYS: u8 = 8;
pub const ED_KEYS: u16 = 8;

fn bls_pool() -> &'static Vec<(bls::SecretKey, bls::PublicKey)> {
    static POOL: OnceLock<Vec<(bls::SecretKey, bls::PublicKey)>> = OnceLock::new();
    POOL.get_or_init(|| {
        (0..BLS_KEYS as u64)
            .map(|i| {
                let sk = bls_sk(i);
                let pk = sk.public_key();
                (sk, pk)
            })
            .collect()
    })
}
pub fn sk(i: u8) -> &'static bls::SecretKey {
    &bls_pool()[(i % BLS_KEYS) as usize].0
}
pub fn pk(i: u8) -> bls::PublicKey {
    bls_pool()[(i % BLS_KEYS) as usize].1
}

// ------------------------------------------------------------------------------------------------
// byte payloads
// ------------------------------------------------------------------------------------------------

#[derive(Clone, Debug, PartialEq, Eq, Serialize, Deserialize)]
pub enum Blob {
    Lit(Vec<u8>),
    /// `len` pseudo-random bytes from `seed` (keeps replay files of 64 KiB chunks small)
    Gen { seed: u64, len: u32 },
    Fill { byte: u8, len: u32 },
}

impl Blob {
    pub fn bytes(&self) -> Vec<u8> {
        match self {
            Blob::Lit(v) => v.clone(),
            Blob::Fill { byte, len } => vec![*byte; *len as usize],
            Blob::Gen { seed, len } => {
                let mut out = Vec::with_capacity(*len as usize);
                let mut s = *seed;
                while out.len() < *len as usize {
                    s = vh_core::splitmix64(s);
                    let b = s.to_le_bytes();
                    let take = (*len as usize - out.len()).min(8);
                    out.extend_from_slice(&b[..take]);
                }
                out
            }
        }
    }
    pub fn len(&self) -> usize {
        match self {
            Blob::Lit(v) => v.len(),
            Blob::Gen { len, .. } | Blob::Fill { len, .. } => *len as usize,
        }
    }
}

/// lengths around the msgpack bin8/bin16/bin32 switches and up to 64 KiB
pub fn blob_strategy(max: u32) -> BoxedStrategy<Blob> {
    let lens = prop_oneof![
        4 => 0u32..64,
        2 => 250u32..262,
        1 => 64u32..4096,
        1 => 65_530u32..65_545,
        1 => 4096u32..=65_536,
    ]
    .prop_map(move |l| l.min(max));
    prop_oneof![
        4 => proptest::collection::vec(any::<u8>(), 0..48).prop_map(Blob::Lit),
        3 => (any::<u64>(), lens.clone()).prop_map(|(seed, len)| Blob::Gen { seed, len }),
        1 => (any::<u8>(), lens).prop_map(|(byte, len)| Blob::Fill { byte, len }),
    ]
    .boxed()
}

// ------------------------------------------------------------------------------------------------
// record specs
// ------------------------------------------------------------------------------------------------

#[derive(Clone, Debug, PartialEq, Eq, Serialize, Deserialize)]
pub enum PadSig {
    None,
    /// by the owner over counter ‖ hash(encrypted_data), as the field's documentation says
    Owner,
    /// a well-formed signature by somebody else
    Other(u8),
}

#[derive(Clone, Debug, PartialEq, Eq, Serialize, Deserialize)]
pub struct TxSpec {
    pub owner: u8,
    pub parents: Vec<u8>,
    pub content: [u8; 32],
    pub outputs: Vec<(u8, [u8; 32])>,
    /// key that signs (owner = valid transaction)
    pub signer: u8,
}

#[derive(Clone, Debug, PartialEq, Eq, Serialize, Deserialize)]
pub struct OpSpec {
    pub writer: u8,
    pub value: Vec<u8>,
    /// picks among the hashes of the ops written before this one
    pub children: Vec<u16>,
}

#[derive(Clone, Debug, PartialEq, Eq, Serialize, Deserialize)]
pub enum RecSpec {
    Chunk { data: Blob, forged_address: Option<[u8; 32]> },
    Scratchpad { owner: u8, encoding: u64, data: Blob, counter: u64, sig: PadSig },
    /// kind Transaction holds the whole vector; with payment the first one (at least one is built)
    Transactions(Vec<TxSpec>),
    Register { owner: u8, meta: [u8; 32], writers: Option<Vec<u8>>, ops: Vec<OpSpec> },
}

#[derive(Clone, Debug, Serialize, Deserialize)]
pub struct RecCase {
    pub value: RecSpec,
    pub payment: Option<Vec<QuoteSpec>>,
    /// Some(k): right before this value is encoded, the same thread tries to encode a record of kind
    /// k % 4 (a paid kind) whose proof holds a quote dated before the epoch, which cannot be serialised
    /// (an encode that fails half-way must leave nothing behind for the next one)
    #[serde(default)]
    pub after_failed_encode: Option<u8>,
}

/// mirror of `Scratchpad`'s (private) fields in declaration order = its msgpack layout
#[derive(Serialize)]
struct PadMirror {
    address: ScratchpadAddress,
    data_encoding: u64,
    encrypted_data: Bytes,
    counter: u64,
    signature: Option<bls::Signature>,
}

pub fn build_tx(t: &TxSpec) -> Transaction {
    Transaction::new(
        pk(t.owner),
        t.parents.iter().map(|p| pk(*p)).collect(),
        t.content,
        t.outputs.iter().map(|(k, c)| (pk(*k), *c)).collect(),
        sk(t.signer),
    )
}

pub fn build_register(owner: u8, meta: &[u8; 32], writers: &Option<Vec<u8>>, ops: &[OpSpec]) -> Result<SignedRegister, String> {
    let perms = match writers {
        None => Permissions::AnyoneCanWrite,
        Some(w) => Permissions::new_with(w.iter().map(|k| pk(*k))),
    };
    let reg = Register::new(pk(owner), XorName(*meta), perms);
    let sig = sk(owner).sign(reg.bytes().map_err(|e| format!("{e:?}"))?);
    let addr = *reg.address();
    let mut crdt = RegisterCrdt::new(addr);
    let mut hashes = vec![];
    let mut set = BTreeSet::new();
    for op in ops {
        let children: BTreeSet<_> = op
            .children
            .iter()
            .filter(|_| !hashes.is_empty())
            .map(|c| hashes[vh_core::pick_idx(*c, hashes.len())])
            .collect();
        let (h, a, crdt_op) = crdt.write(op.value.clone(), &children).map_err(|e| format!("{e:?}"))?;
        hashes.push(h);
        set.insert(RegisterOp::new(a, crdt_op, sk(op.writer)));
    }
    Ok(SignedRegister::new(reg, sig, set))
}

/// The scratchpad the spec describes, plus a list of mismatches between the spec and what the
/// repository's accessors report (the value is built through the type's own decoder from the pinned
/// field layout, because its fields are private and the public API cannot set arbitrary counters).
pub fn build_scratchpad(owner: u8, encoding: u64, data: &Blob, counter: u64, sig: &PadSig) -> Result<Scratchpad, String> {
    let data = Bytes::from(data.bytes());
    let mut to_sign = counter.to_be_bytes().to_vec();
    to_sign.extend_from_slice(&sha3_256(&data));
    let signature = match sig {
        PadSig::None => None,
        PadSig::Owner => Some(sk(owner).sign(&to_sign)),
        PadSig::Other(k) => Some(sk(*k).sign(&to_sign)),
    };
    let mirror = PadMirror {
        address: ScratchpadAddress::new(pk(owner)),
        data_encoding: encoding,
        encrypted_data: data.clone(),
        counter,
        signature: signature.clone(),
    };
    let enc = rmp_serde::to_vec(&mirror).map_err(|e| format!("mirror encode: {e:?}"))?;
    let pad: Scratchpad = rmp_serde::from_slice(&enc).map_err(|e| format!("pinned field layout [address, data_encoding, encrypted_data, counter, signature] no longer decodes: {e:?}"))?;
    let mut wrong = vec![];
    if pad.count() != counter {
        wrong.push(format!("counter {} != {}", pad.count(), counter));
    }
    if pad.data_encoding() != encoding {
        wrong.push(format!("data_encoding {} != {}", pad.data_encoding(), encoding));
    }
    if pad.encrypted_data() != &data {
        wrong.push("encrypted_data differs".to_string());
    }
    if *pad.owner() != pk(owner) {
        wrong.push("owner differs".to_string());
    }
    if wrong.is_empty() {
        Ok(pad)
    } else {
        Err(format!("fields lost through the pinned layout: {}", wrong.join("; ")))
    }
}

impl RecCase {
    pub fn build(&self) -> Result<RecVal, String> {
        let proof = self.payment.as_ref().map(|q| proof_of(q));
        Ok(match (&self.value, proof) {
            (RecSpec::Chunk { data, forged_address }, p) => {
                let bytes = Bytes::from(data.bytes());
                let chunk = match forged_address {
                    // both fields are public: a caller can hand the encoder a chunk whose address lies
                    Some(a) => Chunk { address: ChunkAddress::new(XorName(*a)), value: bytes },
                    None => Chunk::new(bytes),
                };
                match p {
                    None => RecVal::Chunk(chunk),
                    Some(p) => RecVal::ChunkPaid(p, chunk),
                }
            }
            (RecSpec::Scratchpad { owner, encoding, data, counter, sig }, p) => {
                let pad = build_scratchpad(*owner, *encoding, data, *counter, sig)?;
                match p {
                    None => RecVal::Scratchpad(pad),
                    Some(p) => RecVal::ScratchpadPaid(p, pad),
                }
            }
            (RecSpec::Transactions(txs), None) => RecVal::Transactions(txs.iter().map(build_tx).collect()),
            (RecSpec::Transactions(txs), Some(p)) => {
                let t = txs.first().cloned().unwrap_or(TxSpec { owner: 0, parents: vec![], content: [0; 32], outputs: vec![], signer: 0 });
                RecVal::TransactionPaid(p, build_tx(&t))
            }
            (RecSpec::Register { owner, meta, writers, ops }, p) => {
                let r = build_register(*owner, meta, writers, ops)?;
                match p {
                    None => RecVal::Register(r),
                    Some(p) => RecVal::RegisterPaid(p, r),
                }
            }
        })
    }

    pub fn payload_nonempty(&self) -> bool {
        match &self.value {
            RecSpec::Chunk { data, .. } => data.len() > 0,
            RecSpec::Scratchpad { data, .. } => data.len() > 0,
            RecSpec::Transactions(t) => !t.is_empty(),
            RecSpec::Register { ops, .. } => !ops.is_empty(),
        }
    }
}

fn tx_strategy() -> BoxedStrategy<TxSpec> {
    (
        0..BLS_KEYS,
        proptest::collection::vec(0..BLS_KEYS, 0..4),
        any::<[u8; 32]>(),
        proptest::collection::vec((0..BLS_KEYS, any::<[u8; 32]>()), 0..4),
        prop_oneof![4 => Just(None), 1 => (0..BLS_KEYS).prop_map(Some)],
    )
        .prop_map(|(owner, parents, content, outputs, other)| TxSpec { owner, parents, content, outputs, signer: other.unwrap_or(owner) })
        .boxed()
}

fn op_strategy() -> BoxedStrategy<OpSpec> {
    (
        0..BLS_KEYS,
        prop_oneof![3 => proptest::collection::vec(any::<u8>(), 0..24), 1 => proptest::collection::vec(any::<u8>(), 250..300)],
        proptest::collection::vec(any::<u16>(), 0..3),
    )
        .prop_map(|(writer, value, children)| OpSpec { writer, value, children })
        .boxed()
}

pub fn rec_spec_strategy() -> BoxedStrategy<RecSpec> {
    let counters = prop_oneof![
        2 => 0u64..4,
        1 => Just(u64::MAX),
        1 => any::<u64>(),
        1 => prop_oneof![Just(127u64), Just(128), Just(255), Just(256), Just(65535), Just(65536), Just(u32::MAX as u64), Just(u32::MAX as u64 + 1)],
    ];
    // values of megabytes: everything below the transport / store limit of 5 MiB is a record like any other
    // (lengths around 1, 2 and 4 MiB and just below 5 MiB; a filled blob keeps generation cheap)
    let big_len = prop_oneof![
        (0u32..3, -17i32..=17).prop_map(|(p, d)| ((1u32 << (20 + p)) as i64 + d as i64) as u32),
        (4096u32..8192).prop_map(|d| 5 * 1024 * 1024 - d),
    ];
    let big = (any::<u8>(), big_len, 0..BLS_KEYS, any::<bool>()).prop_map(|(byte, len, owner, pad)| {
        let data = Blob::Fill { byte, len };
        if pad {
            RecSpec::Scratchpad { owner, encoding: 0, data, counter: 1, sig: PadSig::Owner }
        } else {
            RecSpec::Chunk { data, forged_address: None }
        }
    });
    prop_oneof![
        1 => big,
        30 => (blob_strategy(65_536), proptest::option::weighted(0.3, any::<[u8; 32]>())).prop_map(|(data, forged_address)| RecSpec::Chunk { data, forged_address }),
        30 => (0..BLS_KEYS, prop_oneof![0u64..3, any::<u64>()], blob_strategy(4096), counters,
              prop_oneof![2 => Just(PadSig::None), 3 => Just(PadSig::Owner), 1 => (0..BLS_KEYS).prop_map(PadSig::Other)])
            .prop_map(|(owner, encoding, data, counter, sig)| RecSpec::Scratchpad { owner, encoding, data, counter, sig }),
        20 => proptest::collection::vec(tx_strategy(), 0..4).prop_map(RecSpec::Transactions),
        20 => (0..BLS_KEYS, any::<[u8; 32]>(), proptest::option::of(proptest::collection::vec(0..BLS_KEYS, 0..3)), proptest::collection::vec(op_strategy(), 0..5))
            .prop_map(|(owner, meta, writers, ops)| RecSpec::Register { owner, meta, writers, ops }),
    ]
    .boxed()
}

/// Try to encode a paid record (kind chosen by `k`) whose proof holds a quote dated one second before
/// the Unix epoch: serde cannot serialise that `SystemTime`, so the encode fails after the tag and part
/// of the body have been produced. Returns true if it failed (as it must).
pub fn encode_that_fails(k: u8) -> bool {
    use ant_protocol::storage::{try_serialize_record, RecordKind};
    let mut q = gq(0, 0).build_signed();
    q.timestamp = std::time::SystemTime::UNIX_EPOCH - std::time::Duration::from_secs(1);
    let proof = ant_evm::ProofOfPayment { peer_quotes: vec![(ant_evm::EncodedPeerId::from(gq(0, 0).signer()), q)] };
    let chunk = Chunk::new(Bytes::from_static(b"poison"));
    let r = match k % 4 {
        0 => try_serialize_record(&(proof, chunk), RecordKind::ChunkWithPayment),
        1 => try_serialize_record(&(proof, chunk), RecordKind::ScratchpadWithPayment),
        2 => try_serialize_record(&(proof, chunk), RecordKind::TransactionWithPayment),
        _ => try_serialize_record(&(proof, chunk), RecordKind::RegisterWithPayment),
    };
    r.is_err()
}

pub fn rec_case_strategy() -> BoxedStrategy<RecCase> {
    (
        rec_spec_strategy(),
        prop_oneof![
            2 => Just(None),
            3 => proptest::collection::vec(quote_strategy(ED_KEYS), 0..=5).prop_map(Some),
        ],
    )
        .prop_flat_map(|(value, payment)| (Just(value), Just(payment), prop_oneof![3 => Just(None), 1 => any::<u8>().prop_map(Some)]))
        .prop_map(|(value, payment, after_failed_encode)| RecCase { value, payment, after_failed_encode })
        .boxed()
}

// ------------------------------------------------------------------------------------------------
// message specs
// ------------------------------------------------------------------------------------------------

#[derive(Clone, Debug, PartialEq, Eq, Serialize, Deserialize)]
pub enum AddrSpec {
    /// peer id of ed25519 pool key i
    Peer(u16),
    /// arbitrary bytes in the PeerId variant (the type allows them)
    PeerRaw(Vec<u8>),
    Chunk([u8; 32]),
    Transaction([u8; 32]),
    Register { meta: [u8; 32], owner: u8 },
    RecordKey(Vec<u8>),
    Scratchpad(u8),
}

impl AddrSpec {
    pub fn build(&self) -> NetworkAddress {
        match self {
            AddrSpec::Peer(k) => NetworkAddress::from_peer(ed_keypair(*k as u64).public().to_peer_id()),
            AddrSpec::PeerRaw(b) => NetworkAddress::PeerId(Bytes::from(b.clone())),
            AddrSpec::Chunk(x) => NetworkAddress::from_chunk_address(ChunkAddress::new(XorName(*x))),
            AddrSpec::Transaction(x) => NetworkAddress::from_transaction_address(TransactionAddress::new(XorName(*x))),
            AddrSpec::Register { meta, owner } => NetworkAddress::from_register_address(RegisterAddress::new(XorName(*meta), pk(*owner))),
            AddrSpec::RecordKey(b) => NetworkAddress::from_record_key(&RecordKey::new(b)),
            AddrSpec::Scratchpad(k) => NetworkAddress::from_scratchpad_address(ScratchpadAddress::new(pk(*k))),
        }
    }
}

pub const UNIT_ERRORS: usize = 11;

#[derive(Clone, Debug, PartialEq, Eq, Serialize, Deserialize)]
pub enum ErrSpec {
    /// the i-th data-less variant, in declaration order
    Unit(u8),
    ChunkDoesNotExist(AddrSpec),
    RegisterNotFound { meta: [u8; 32], owner: u8 },
    RegisterAlreadyClaimed(u8),
    RegisterRecordNotFound { holder: AddrSpec, key: AddrSpec },
    ReplicatedRecordNotFound { holder: AddrSpec, key: AddrSpec },
    RecordExists(Vec<u8>),
}

impl ErrSpec {
    pub fn build(&self) -> ProtoError {
        match self {
            ErrSpec::Unit(i) => match (*i as usize) % UNIT_ERRORS {
                0 => ProtoError::UserDataDirectoryNotObtainable,
                1 => ProtoError::CouldNotObtainPortFromMultiAddr,
                2 => ProtoError::ParseRetryStrategyError,
                3 => ProtoError::CouldNotObtainDataDir,
                4 => ProtoError::ScratchpadHexDeserializeFailed,
                5 => ProtoError::ScratchpadCipherTextFailed,
                6 => ProtoError::ScratchpadCipherTextInvalid,
                7 => ProtoError::GetStoreQuoteFailed,
                8 => ProtoError::QuoteGenerationFailed,
                9 => ProtoError::RecordHeaderParsingFailed,
                _ => ProtoError::RecordParsingFailed,
            },
            ErrSpec::ChunkDoesNotExist(a) => ProtoError::ChunkDoesNotExist(a.build()),
            ErrSpec::RegisterNotFound { meta, owner } => ProtoError::RegisterNotFound(Box::new(RegisterAddress::new(XorName(*meta), pk(*owner)))),
            ErrSpec::RegisterAlreadyClaimed(k) => ProtoError::RegisterAlreadyClaimed(pk(*k)),
            ErrSpec::RegisterRecordNotFound { holder, key } => ProtoError::RegisterRecordNotFound { holder: Box::new(holder.build()), key: Box::new(key.build()) },
            ErrSpec::ReplicatedRecordNotFound { holder, key } => ProtoError::ReplicatedRecordNotFound { holder: Box::new(holder.build()), key: Box::new(key.build()) },
            ErrSpec::RecordExists(b) => ProtoError::RecordExists(PrettyPrintRecordKey::from(&RecordKey::new(b)).into_owned()),
        }
    }
    pub fn name(&self) -> String {
        let e = self.build();
        let dbg = format!("{e:?}");
        dbg.split(|c: char| !c.is_alphanumeric()).next().unwrap_or("?").to_string()
    }
}

#[derive(Clone, Debug, PartialEq, Eq, Serialize, Deserialize)]
pub enum RecTypeSpec {
    Chunk,
    Scratchpad,
    NonChunk([u8; 32]),
}
impl RecTypeSpec {
    fn build(&self) -> RecordType {
        match self {
            RecTypeSpec::Chunk => RecordType::Chunk,
            RecTypeSpec::Scratchpad => RecordType::Scratchpad,
            RecTypeSpec::NonChunk(x) => RecordType::NonChunk(XorName(*x)),
        }
    }
}

#[derive(Clone, Debug, PartialEq, Eq, Serialize, Deserialize)]
pub enum MaSpec {
    Ip4Udp { ip: [u8; 4], port: u16, quic: bool, p2p: Option<u16> },
    Ip6Tcp { ip: [u8; 16], port: u16, p2p: Option<u16> },
    Dns { name: String, port: u16 },
    Empty,
}
impl MaSpec {
    fn build(&self) -> Multiaddr {
        let peer = |k: &u16| Protocol::P2p(ed_keypair(*k as u64).public().to_peer_id());
        match self {
            MaSpec::Ip4Udp { ip, port, quic, p2p } => {
                let mut m = Multiaddr::empty().with(Protocol::Ip4((*ip).into())).with(Protocol::Udp(*port));
                if *quic {
                    m = m.with(Protocol::QuicV1);
                }
                if let Some(k) = p2p {
                    m = m.with(peer(k));
                }
                m
            }
            MaSpec::Ip6Tcp { ip, port, p2p } => {
                let mut m = Multiaddr::empty().with(Protocol::Ip6((*ip).into())).with(Protocol::Tcp(*port));
                if let Some(k) = p2p {
                    m = m.with(peer(k));
                }
                m
            }
            MaSpec::Dns { name, port } => Multiaddr::empty().with(Protocol::Dns4(name.clone().into())).with(Protocol::Tcp(*port)),
            MaSpec::Empty => Multiaddr::empty(),
        }
    }
}

#[derive(Clone, Debug, PartialEq, Eq, Serialize, Deserialize)]
pub enum ProofSpec {
    Ok { data: Vec<u8>, nonce: u64 },
    Err(ErrSpec),
}
impl ProofSpec {
    fn build(&self) -> Result<ChunkProof, ProtoError> {
        match self {
            ProofSpec::Ok { data, nonce } => Ok(ChunkProof::new(data, *nonce)),
            ProofSpec::Err(e) => Err(e.build()),
        }
    }
}

#[derive(Clone, Debug, PartialEq, Eq, Serialize, Deserialize)]
pub enum RecordReply {
    Ok { holder: AddrSpec, data: Blob },
    Err(ErrSpec),
}
impl RecordReply {
    fn build(&self) -> Result<(NetworkAddress, Bytes), ProtoError> {
        match self {
            RecordReply::Ok { holder, data } => Ok((holder.build(), Bytes::from(data.bytes()))),
            RecordReply::Err(e) => Err(e.build()),
        }
    }
}

#[derive(Clone, Debug, PartialEq, Eq, Serialize, Deserialize)]
pub enum ReqSpec {
    Replicate { holder: AddrSpec, keys: Vec<(AddrSpec, RecTypeSpec)> },
    PeerConsideredAsBad { detected_by: AddrSpec, bad_peer: AddrSpec, bad_behaviour: String },
    GetStoreQuote { key: AddrSpec, nonce: Option<u64>, difficulty: u64 },
    GetReplicatedRecord { requester: AddrSpec, key: AddrSpec },
    GetRegisterRecord { requester: AddrSpec, key: AddrSpec },
    GetChunkExistenceProof { key: AddrSpec, nonce: u64, difficulty: u64 },
    CheckNodeInProblem(AddrSpec),
    GetClosestPeers { key: AddrSpec, num_of_peers: Option<u64>, range: Option<[u8; 32]>, sign_result: bool },
}

impl ReqSpec {
    pub fn build(&self) -> Request {
        match self {
            ReqSpec::Replicate { holder, keys } => Request::Cmd(Cmd::Replicate {
                holder: holder.build(),
                keys: keys.iter().map(|(a, t)| (a.build(), t.build())).collect(),
            }),
            ReqSpec::PeerConsideredAsBad { detected_by, bad_peer, bad_behaviour } => Request::Cmd(Cmd::PeerConsideredAsBad {
                detected_by: detected_by.build(),
                bad_peer: bad_peer.build(),
                bad_behaviour: bad_behaviour.clone(),
            }),
            ReqSpec::GetStoreQuote { key, nonce, difficulty } => Request::Query(Query::GetStoreQuote { key: key.build(), nonce: *nonce, difficulty: *difficulty as usize }),
            ReqSpec::GetReplicatedRecord { requester, key } => Request::Query(Query::GetReplicatedRecord { requester: requester.build(), key: key.build() }),
            ReqSpec::GetRegisterRecord { requester, key } => Request::Query(Query::GetRegisterRecord { requester: requester.build(), key: key.build() }),
            ReqSpec::GetChunkExistenceProof { key, nonce, difficulty } => {
                Request::Query(Query::GetChunkExistenceProof { key: key.build(), nonce: *nonce, difficulty: *difficulty as usize })
            }
            ReqSpec::CheckNodeInProblem(a) => Request::Query(Query::CheckNodeInProblem(a.build())),
            ReqSpec::GetClosestPeers { key, num_of_peers, range, sign_result } => Request::Query(Query::GetClosestPeers {
                key: key.build(),
                num_of_peers: num_of_peers.map(|n| n as usize),
                range: *range,
                sign_result: *sign_result,
            }),
        }
    }
    /// variant depth ≥ 2 inside the outer Request (nested addresses / record types)
    pub fn nested(&self) -> bool {
        match self {
            ReqSpec::Replicate { keys, .. } => !keys.is_empty(),
            _ => true,
        }
    }
}

#[derive(Clone, Debug, PartialEq, Eq, Serialize, Deserialize)]
pub enum QuoteReply {
    Ok(QuoteSpec),
    Err(ErrSpec),
}

#[derive(Clone, Debug, PartialEq, Eq, Serialize, Deserialize)]
pub enum RespSpec {
    CmdReplicate(Option<ErrSpec>),
    CmdPeerConsideredAsBad(Option<ErrSpec>),
    GetStoreQuote { quote: QuoteReply, peer_address: AddrSpec, storage_proofs: Vec<(AddrSpec, ProofSpec)> },
    CheckNodeInProblem { reporter_address: AddrSpec, target_address: AddrSpec, is_in_trouble: bool },
    GetReplicatedRecord(RecordReply),
    GetRegisterRecord(RecordReply),
    GetChunkExistenceProof(Vec<(AddrSpec, ProofSpec)>),
    GetClosestPeers { target: AddrSpec, peers: Vec<(AddrSpec, Vec<MaSpec>)>, signature: Option<Vec<u8>> },
}

impl RespSpec {
    pub fn build(&self) -> Response {
        let unit = |e: &Option<ErrSpec>| match e {
            None => Ok(()),
            Some(e) => Err(e.build()),
        };
        match self {
            RespSpec::CmdReplicate(e) => Response::Cmd(CmdResponse::Replicate(unit(e))),
            RespSpec::CmdPeerConsideredAsBad(e) => Response::Cmd(CmdResponse::PeerConsideredAsBad(unit(e))),
            RespSpec::GetStoreQuote { quote, peer_address, storage_proofs } => Response::Query(QueryResponse::GetStoreQuote {
                quote: match quote {
                    QuoteReply::Ok(q) => Ok(q.build_signed()),
                    QuoteReply::Err(e) => Err(e.build()),
                },
                peer_address: peer_address.build(),
                storage_proofs: storage_proofs.iter().map(|(a, p)| (a.build(), p.build())).collect(),
            }),
            RespSpec::CheckNodeInProblem { reporter_address, target_address, is_in_trouble } => Response::Query(QueryResponse::CheckNodeInProblem {
                reporter_address: reporter_address.build(),
                target_address: target_address.build(),
                is_in_trouble: *is_in_trouble,
            }),
            RespSpec::GetReplicatedRecord(r) => Response::Query(QueryResponse::GetReplicatedRecord(r.build())),
            RespSpec::GetRegisterRecord(r) => Response::Query(QueryResponse::GetRegisterRecord(r.build())),
            RespSpec::GetChunkExistenceProof(v) => Response::Query(QueryResponse::GetChunkExistenceProof(v.iter().map(|(a, p)| (a.build(), p.build())).collect())),
            RespSpec::GetClosestPeers { target, peers, signature } => Response::Query(QueryResponse::GetClosestPeers {
                target: target.build(),
                peers: peers.iter().map(|(a, m)| (a.build(), m.iter().map(|x| x.build()).collect())).collect(),
                signature: signature.clone(),
            }),
        }
    }
    pub fn has_error(&self) -> bool {
        match self {
            RespSpec::CmdReplicate(e) | RespSpec::CmdPeerConsideredAsBad(e) => e.is_some(),
            RespSpec::GetStoreQuote { quote, storage_proofs, .. } => matches!(quote, QuoteReply::Err(_)) || storage_proofs.iter().any(|(_, p)| matches!(p, ProofSpec::Err(_))),
            RespSpec::GetReplicatedRecord(r) | RespSpec::GetRegisterRecord(r) => matches!(r, RecordReply::Err(_)),
            RespSpec::GetChunkExistenceProof(v) => v.iter().any(|(_, p)| matches!(p, ProofSpec::Err(_))),
            _ => false,
        }
    }
    pub fn variant(&self) -> &'static str {
        match self {
            RespSpec::CmdReplicate(_) => "Cmd::Replicate",
            RespSpec::CmdPeerConsideredAsBad(_) => "Cmd::PeerConsideredAsBad",
            RespSpec::GetStoreQuote { .. } => "Query::GetStoreQuote",
            RespSpec::CheckNodeInProblem { .. } => "Query::CheckNodeInProblem",
            RespSpec::GetReplicatedRecord(_) => "Query::GetReplicatedRecord",
            RespSpec::GetRegisterRecord(_) => "Query::GetRegisterRecord",
            RespSpec::GetChunkExistenceProof(_) => "Query::GetChunkExistenceProof",
            RespSpec::GetClosestPeers { .. } => "Query::GetClosestPeers",
        }
    }
}

impl ReqSpec {
    pub fn variant(&self) -> &'static str {
        match self {
            ReqSpec::Replicate { .. } => "Cmd::Replicate",
            ReqSpec::PeerConsideredAsBad { .. } => "Cmd::PeerConsideredAsBad",
            ReqSpec::GetStoreQuote { .. } => "Query::GetStoreQuote",
            ReqSpec::GetReplicatedRecord { .. } => "Query::GetReplicatedRecord",
            ReqSpec::GetRegisterRecord { .. } => "Query::GetRegisterRecord",
            ReqSpec::GetChunkExistenceProof { .. } => "Query::GetChunkExistenceProof",
            ReqSpec::CheckNodeInProblem(_) => "Query::CheckNodeInProblem",
            ReqSpec::GetClosestPeers { .. } => "Query::GetClosestPeers",
        }
    }
}

#[derive(Clone, Debug, PartialEq, Eq, Serialize, Deserialize)]
pub enum MsgSpec {
    Req(ReqSpec),
    Resp(RespSpec),
}

pub fn addr_strategy() -> BoxedStrategy<AddrSpec> {
    prop_oneof![
        3 => (0..ED_KEYS).prop_map(AddrSpec::Peer),
        1 => proptest::collection::vec(any::<u8>(), 0..40).prop_map(AddrSpec::PeerRaw),
        2 => any::<[u8; 32]>().prop_map(AddrSpec::Chunk),
        2 => any::<[u8; 32]>().prop_map(AddrSpec::Transaction),
        2 => (any::<[u8; 32]>(), 0..BLS_KEYS).prop_map(|(meta, owner)| AddrSpec::Register { meta, owner }),
        2 => proptest::collection::vec(any::<u8>(), 0..40).prop_map(AddrSpec::RecordKey),
        2 => (0..BLS_KEYS).prop_map(AddrSpec::Scratchpad),
    ]
    .boxed()
}

pub fn err_strategy() -> BoxedStrategy<ErrSpec> {
    prop_oneof![
        4 => (0u8..UNIT_ERRORS as u8).prop_map(ErrSpec::Unit),
        1 => addr_strategy().prop_map(ErrSpec::ChunkDoesNotExist),
        1 => (any::<[u8; 32]>(), 0..BLS_KEYS).prop_map(|(meta, owner)| ErrSpec::RegisterNotFound { meta, owner }),
        1 => (0..BLS_KEYS).prop_map(ErrSpec::RegisterAlreadyClaimed),
        1 => (addr_strategy(), addr_strategy()).prop_map(|(holder, key)| ErrSpec::RegisterRecordNotFound { holder, key }),
        1 => (addr_strategy(), addr_strategy()).prop_map(|(holder, key)| ErrSpec::ReplicatedRecordNotFound { holder, key }),
        1 => proptest::collection::vec(any::<u8>(), 0..40).prop_map(ErrSpec::RecordExists),
    ]
    .boxed()
}

fn num() -> BoxedStrategy<u64> {
    prop_oneof![3 => 0u64..30, 1 => any::<u64>(), 1 => prop_oneof![Just(23u64), Just(24), Just(255), Just(256), Just(65535), Just(65536), Just(u32::MAX as u64), Just(u32::MAX as u64 + 1), Just(u64::MAX)]].boxed()
}

pub fn req_strategy() -> BoxedStrategy<ReqSpec> {
    let rt = prop_oneof![Just(RecTypeSpec::Chunk), Just(RecTypeSpec::Scratchpad), any::<[u8; 32]>().prop_map(RecTypeSpec::NonChunk)];
    prop_oneof![
        (addr_strategy(), proptest::collection::vec((addr_strategy(), rt), 0..6)).prop_map(|(holder, keys)| ReqSpec::Replicate { holder, keys }),
        (addr_strategy(), addr_strategy(), prop_oneof!["[ -~]{0,24}", "\\PC{0,12}"]).prop_map(|(detected_by, bad_peer, bad_behaviour)| ReqSpec::PeerConsideredAsBad { detected_by, bad_peer, bad_behaviour }),
        (addr_strategy(), proptest::option::of(num()), num()).prop_map(|(key, nonce, difficulty)| ReqSpec::GetStoreQuote { key, nonce, difficulty }),
        (addr_strategy(), addr_strategy()).prop_map(|(requester, key)| ReqSpec::GetReplicatedRecord { requester, key }),
        (addr_strategy(), addr_strategy()).prop_map(|(requester, key)| ReqSpec::GetRegisterRecord { requester, key }),
        (addr_strategy(), num(), num()).prop_map(|(key, nonce, difficulty)| ReqSpec::GetChunkExistenceProof { key, nonce, difficulty }),
        addr_strategy().prop_map(ReqSpec::CheckNodeInProblem),
        (addr_strategy(), proptest::option::of(num()), proptest::option::of(any::<[u8; 32]>()), any::<bool>())
            .prop_map(|(key, num_of_peers, range, sign_result)| ReqSpec::GetClosestPeers { key, num_of_peers, range, sign_result }),
    ]
    .boxed()
}

fn ma_strategy() -> BoxedStrategy<MaSpec> {
    prop_oneof![
        4 => (any::<[u8; 4]>(), any::<u16>(), any::<bool>(), proptest::option::of(0..ED_KEYS)).prop_map(|(ip, port, quic, p2p)| MaSpec::Ip4Udp { ip, port, quic, p2p }),
        2 => (any::<[u8; 16]>(), any::<u16>(), proptest::option::of(0..ED_KEYS)).prop_map(|(ip, port, p2p)| MaSpec::Ip6Tcp { ip, port, p2p }),
        1 => ("[a-z]{1,12}(\\.[a-z]{2,5}){0,2}", any::<u16>()).prop_map(|(name, port)| MaSpec::Dns { name, port }),
        1 => Just(MaSpec::Empty),
    ]
    .boxed()
}

pub fn resp_strategy() -> BoxedStrategy<RespSpec> {
    let proof = || {
        prop_oneof![
            2 => (proptest::collection::vec(any::<u8>(), 0..16), any::<u64>()).prop_map(|(data, nonce)| ProofSpec::Ok { data, nonce }),
            1 => err_strategy().prop_map(ProofSpec::Err),
        ]
    };
    let reply = || {
        prop_oneof![
            2 => (addr_strategy(), blob_strategy(70_000)).prop_map(|(holder, data)| RecordReply::Ok { holder, data }),
            1 => err_strategy().prop_map(RecordReply::Err),
        ]
    };
    prop_oneof![
        1 => proptest::option::of(err_strategy()).prop_map(RespSpec::CmdReplicate),
        1 => proptest::option::of(err_strategy()).prop_map(RespSpec::CmdPeerConsideredAsBad),
        3 => (
            prop_oneof![2 => quote_strategy(ED_KEYS).prop_map(QuoteReply::Ok), 1 => err_strategy().prop_map(QuoteReply::Err)],
            addr_strategy(),
            proptest::collection::vec((addr_strategy(), proof()), 0..4)
        )
            .prop_map(|(quote, peer_address, storage_proofs)| RespSpec::GetStoreQuote { quote, peer_address, storage_proofs }),
        1 => (addr_strategy(), addr_strategy(), any::<bool>()).prop_map(|(reporter_address, target_address, is_in_trouble)| RespSpec::CheckNodeInProblem { reporter_address, target_address, is_in_trouble }),
        2 => reply().prop_map(RespSpec::GetReplicatedRecord),
        2 => reply().prop_map(RespSpec::GetRegisterRecord),
        2 => proptest::collection::vec((addr_strategy(), proof()), 0..5).prop_map(RespSpec::GetChunkExistenceProof),
        2 => (
            addr_strategy(),
            proptest::collection::vec((addr_strategy(), proptest::collection::vec(ma_strategy(), 0..4)), 0..5),
            proptest::option::of(proptest::collection::vec(any::<u8>(), 0..70))
        )
            .prop_map(|(target, peers, signature)| RespSpec::GetClosestPeers { target, peers, signature }),
    ]
    .boxed()
}

pub fn msg_strategy() -> BoxedStrategy<MsgSpec> {
    prop_oneof![req_strategy().prop_map(MsgSpec::Req), resp_strategy().prop_map(MsgSpec::Resp)].boxed()
}

// ------------------------------------------------------------------------------------------------
// the golden catalogue: fixed values, fixed seeds, no randomness, no clock
// ------------------------------------------------------------------------------------------------

pub enum GoldenItem {
    Rec(RecCase),
    Req(ReqSpec),
    Resp(RespSpec),
}

fn x32(b: u8) -> [u8; 32] {
    let mut a = [0u8; 32];
    for (i, v) in a.iter_mut().enumerate() {
        *v = b.wrapping_add(i as u8);
    }
    a
}

fn gq(key: u16, n: u8) -> QuoteSpec {
    QuoteSpec {
        key,
        content: x32(0x10 + n),
        ts_secs: 1_700_000_000 + n as u64,
        ts_nanos: if n % 2 == 0 { 0 } else { 123_456_789 },
        metrics: MetricsSpec {
            close_records_stored: 5 + n as u64,
            max_records: 16384,
            received_payment_count: 300 * n as u64,
            live_time: 70_000 + n as u64,
            network_density: if n % 2 == 0 { Some(x32(0x80)) } else { None },
            network_size: if n % 3 == 0 { None } else { Some(1_000_000 + n as u64) },
        },
        rewards: {
            let mut r = [0u8; 20];
            for (i, v) in r.iter_mut().enumerate() {
                *v = 0xa0 + n + i as u8;
            }
            r
        },
    }
}

pub fn all_addr_specs() -> Vec<(&'static str, AddrSpec)> {
    vec![
        ("peer", AddrSpec::Peer(1)),
        ("chunk", AddrSpec::Chunk(x32(1))),
        ("transaction", AddrSpec::Transaction(x32(2))),
        ("register", AddrSpec::Register { meta: x32(3), owner: 2 }),
        ("recordkey", AddrSpec::RecordKey(vec![9, 8, 7, 6, 5])),
        ("scratchpad", AddrSpec::Scratchpad(3)),
    ]
}

pub fn all_err_specs() -> Vec<ErrSpec> {
    let mut v: Vec<ErrSpec> = (0..UNIT_ERRORS as u8).map(ErrSpec::Unit).collect();
    v.push(ErrSpec::ChunkDoesNotExist(AddrSpec::Chunk(x32(4))));
    v.push(ErrSpec::RegisterNotFound { meta: x32(5), owner: 1 });
    v.push(ErrSpec::RegisterAlreadyClaimed(4));
    v.push(ErrSpec::RegisterRecordNotFound { holder: AddrSpec::Peer(2), key: AddrSpec::Register { meta: x32(6), owner: 0 } });
    v.push(ErrSpec::ReplicatedRecordNotFound { holder: AddrSpec::Peer(3), key: AddrSpec::RecordKey(vec![1, 2, 3]) });
    v.push(ErrSpec::RecordExists(x32(7).to_vec()));
    v
}

/// name → item. Names are file stems under /verif/goldens/C12/.
pub fn catalogue() -> Vec<(String, GoldenItem)> {
    let mut out: Vec<(String, GoldenItem)> = vec![];
    let mut rec = |name: &str, value: RecSpec, payment: Option<Vec<QuoteSpec>>| {
        out.push((format!("rec-{name}"), GoldenItem::Rec(RecCase { value, payment, after_failed_encode: None })));
    };
    let proofs: Vec<(&str, Vec<QuoteSpec>)> = vec![("proof0", vec![]), ("proof1", vec![gq(0, 0)]), ("proof3", vec![gq(1, 1), gq(2, 2), gq(3, 3)])];

    // chunks
    let chunk = |data: Blob| RecSpec::Chunk { data, forged_address: None };
    rec("chunk-empty", chunk(Blob::Lit(vec![])), None);
    rec("chunk-small", chunk(Blob::Lit((0u8..40).collect())), None);
    rec("chunk-bin16", chunk(Blob::Gen { seed: 1, len: 300 }), None);
    rec("chunk-bin32-LARGE", chunk(Blob::Gen { seed: 2, len: 65_544 }), None);
    for (pn, p) in &proofs {
        rec(&format!("chunkpaid-{pn}"), chunk(Blob::Lit((100u8..120).collect())), Some(p.clone()));
    }
    // scratchpads
    let pad = |owner, encoding, data, counter, sig| RecSpec::Scratchpad { owner, encoding, data, counter, sig };
    rec("scratchpad-fresh-unsigned", pad(0, 0, Blob::Lit(vec![]), 0, PadSig::None), None);
    rec("scratchpad-signed", pad(1, 42, Blob::Gen { seed: 3, len: 90 }, 1, PadSig::Owner), None);
    rec("scratchpad-maxcounter-foreignsig", pad(2, u64::MAX, Blob::Gen { seed: 4, len: 260 }, u64::MAX, PadSig::Other(5)), None);
    for (pn, p) in &proofs {
        rec(&format!("scratchpadpaid-{pn}"), pad(3, 7, Blob::Lit(b"vault bytes".to_vec()), 65_536, PadSig::Owner), Some(p.clone()));
    }
    // transactions
    let tx0 = TxSpec { owner: 0, parents: vec![], content: x32(0x20), outputs: vec![], signer: 0 };
    let tx1 = TxSpec { owner: 1, parents: vec![2, 3], content: x32(0x30), outputs: vec![(4, x32(0x40)), (5, x32(0x50))], signer: 1 };
    let tx2 = TxSpec { owner: 1, parents: vec![6], content: x32(0x31), outputs: vec![(7, x32(0x41))], signer: 2 };
    rec("transactions-none", RecSpec::Transactions(vec![]), None);
    rec("transactions-one", RecSpec::Transactions(vec![tx0.clone()]), None);
    rec("transactions-three", RecSpec::Transactions(vec![tx1.clone(), tx0.clone(), tx2.clone()]), None);
    for (pn, p) in &proofs {
        rec(&format!("transactionpaid-{pn}"), RecSpec::Transactions(vec![tx1.clone()]), Some(p.clone()));
    }
    // registers
    let ops = vec![
        OpSpec { writer: 0, value: b"first".to_vec(), children: vec![] },
        OpSpec { writer: 1, value: b"second".to_vec(), children: vec![0] },
        OpSpec { writer: 0, value: vec![0xee; 260], children: vec![0, 65_535] },
    ];
    rec("register-empty-anyone", RecSpec::Register { owner: 0, meta: x32(0x60), writers: None, ops: vec![] }, None);
    rec("register-writers-ops", RecSpec::Register { owner: 0, meta: x32(0x61), writers: Some(vec![1, 2]), ops: ops.clone() }, None);
    for (pn, p) in &proofs {
        rec(&format!("registerpaid-{pn}"), RecSpec::Register { owner: 4, meta: x32(0x62), writers: Some(vec![]), ops: ops[..1].to_vec() }, Some(p.clone()));
    }

    // ---- requests: every Cmd / Query variant, every address variant, every record type
    let mut req = |name: &str, r: ReqSpec| out.push((format!("req-{name}"), GoldenItem::Req(r)));
    let addrs = all_addr_specs();
    req("cmd-replicate-empty", ReqSpec::Replicate { holder: AddrSpec::Peer(0), keys: vec![] });
    req(
        "cmd-replicate-all-address-and-record-types",
        ReqSpec::Replicate {
            holder: AddrSpec::Peer(0),
            keys: addrs
                .iter()
                .enumerate()
                .map(|(i, (_, a))| (a.clone(), match i % 3 { 0 => RecTypeSpec::Chunk, 1 => RecTypeSpec::Scratchpad, _ => RecTypeSpec::NonChunk(x32(0x70 + i as u8)) }))
                .collect(),
        },
    );
    req("cmd-peerconsideredasbad", ReqSpec::PeerConsideredAsBad { detected_by: AddrSpec::Peer(1), bad_peer: AddrSpec::Peer(2), bad_behaviour: "failed chunk proof — ×".into() });
    req("query-getstorequote-nononce", ReqSpec::GetStoreQuote { key: AddrSpec::Chunk(x32(8)), nonce: None, difficulty: 0 });
    req("query-getstorequote-nonce", ReqSpec::GetStoreQuote { key: AddrSpec::Scratchpad(1), nonce: Some(u64::MAX), difficulty: 300 });
    req("query-getreplicatedrecord", ReqSpec::GetReplicatedRecord { requester: AddrSpec::Peer(3), key: AddrSpec::RecordKey(x32(9).to_vec()) });
    req("query-getregisterrecord", ReqSpec::GetRegisterRecord { requester: AddrSpec::Peer(4), key: AddrSpec::Register { meta: x32(10), owner: 6 } });
    req("query-getchunkexistenceproof", ReqSpec::GetChunkExistenceProof { key: AddrSpec::Chunk(x32(11)), nonce: 0x0102030405060708, difficulty: 1 });
    for (an, a) in &addrs {
        req(&format!("query-checknodeinproblem-{an}"), ReqSpec::CheckNodeInProblem(a.clone()));
    }
    req("query-getclosestpeers-none", ReqSpec::GetClosestPeers { key: AddrSpec::Transaction(x32(12)), num_of_peers: None, range: None, sign_result: false });
    req("query-getclosestpeers-all", ReqSpec::GetClosestPeers { key: AddrSpec::Peer(5), num_of_peers: Some(70_000), range: Some(x32(0xf0)), sign_result: true });

    // ---- responses: every CmdResponse / QueryResponse variant, Ok and Err, every Error variant
    let mut resp = |name: &str, r: RespSpec| out.push((format!("resp-{name}"), GoldenItem::Resp(r)));
    resp("cmd-replicate-ok", RespSpec::CmdReplicate(None));
    resp("cmd-replicate-err", RespSpec::CmdReplicate(Some(ErrSpec::Unit(10))));
    resp("cmd-peerconsideredasbad-ok", RespSpec::CmdPeerConsideredAsBad(None));
    resp("cmd-peerconsideredasbad-err", RespSpec::CmdPeerConsideredAsBad(Some(ErrSpec::Unit(0))));
    resp(
        "query-getstorequote-ok-with-proofs",
        RespSpec::GetStoreQuote {
            quote: QuoteReply::Ok(gq(4, 4)),
            peer_address: AddrSpec::Peer(4),
            storage_proofs: vec![
                (AddrSpec::Chunk(x32(13)), ProofSpec::Ok { data: b"record value".to_vec(), nonce: 77 }),
                (AddrSpec::Chunk(x32(14)), ProofSpec::Err(ErrSpec::ChunkDoesNotExist(AddrSpec::Chunk(x32(14))))),
            ],
        },
    );
    resp("query-getstorequote-ok-odd-quote", RespSpec::GetStoreQuote { quote: QuoteReply::Ok(gq(5, 5)), peer_address: AddrSpec::Peer(5), storage_proofs: vec![] });
    for e in all_err_specs() {
        resp(
            &format!("error-{}", e.name()),
            RespSpec::GetStoreQuote { quote: QuoteReply::Err(e), peer_address: AddrSpec::Peer(6), storage_proofs: vec![] },
        );
    }
    resp("query-checknodeinproblem", RespSpec::CheckNodeInProblem { reporter_address: AddrSpec::Peer(0), target_address: AddrSpec::Peer(1), is_in_trouble: true });
    resp("query-getreplicatedrecord-ok", RespSpec::GetReplicatedRecord(RecordReply::Ok { holder: AddrSpec::Peer(2), data: Blob::Gen { seed: 5, len: 300 } }));
    resp("query-getreplicatedrecord-err", RespSpec::GetReplicatedRecord(RecordReply::Err(ErrSpec::ReplicatedRecordNotFound { holder: AddrSpec::Peer(2), key: AddrSpec::Chunk(x32(15)) })));
    resp("query-getregisterrecord-ok", RespSpec::GetRegisterRecord(RecordReply::Ok { holder: AddrSpec::Peer(3), data: Blob::Lit(vec![1, 2, 3]) }));
    resp("query-getregisterrecord-err", RespSpec::GetRegisterRecord(RecordReply::Err(ErrSpec::RegisterRecordNotFound { holder: AddrSpec::Peer(3), key: AddrSpec::Register { meta: x32(16), owner: 7 } })));
    resp("query-getchunkexistenceproof-empty", RespSpec::GetChunkExistenceProof(vec![]));
    resp(
        "query-getchunkexistenceproof-mixed",
        RespSpec::GetChunkExistenceProof(vec![
            (AddrSpec::Chunk(x32(17)), ProofSpec::Ok { data: vec![], nonce: 0 }),
            (AddrSpec::RecordKey(x32(18).to_vec()), ProofSpec::Err(ErrSpec::Unit(9))),
        ]),
    );
    resp("query-getclosestpeers-empty", RespSpec::GetClosestPeers { target: AddrSpec::Chunk(x32(19)), peers: vec![], signature: None });
    resp(
        "query-getclosestpeers-full",
        RespSpec::GetClosestPeers {
            target: AddrSpec::Peer(7),
            peers: vec![
                (
                    AddrSpec::Peer(1),
                    vec![
                        MaSpec::Ip4Udp { ip: [10, 0, 0, 1], port: 56215, quic: true, p2p: Some(1) },
                        MaSpec::Ip6Tcp { ip: [0, 0, 0, 0, 0, 0, 0, 0, 0, 0, 0, 0, 0, 0, 0, 1], port: 443, p2p: None },
                    ],
                ),
                (AddrSpec::Peer(2), vec![MaSpec::Dns { name: "node.example.org".into(), port: 9000 }, MaSpec::Empty]),
                (AddrSpec::Peer(3), vec![]),
            ],
            signature: Some((0u8..64).collect()),
        },
    );
    out
}

/// build + encode one catalogue item: (encoding, is_record)
pub fn encode_item(item: &GoldenItem) -> Result<Vec<u8>, String> {
    match item {
        GoldenItem::Rec(c) => c.build()?.encode(),
        GoldenItem::Req(r) => crate::c12_oracle::encode_request(&r.build()),
        GoldenItem::Resp(r) => crate::c12_oracle::encode_response(&r.build()),
    }
}

/// names of the variants of a serde-derived enum, in declaration order (serde lists them in the
/// "unknown variant" error)
pub fn variant_names<T: serde::de::DeserializeOwned>() -> Vec<String> {
    match serde_json::from_str::<T>("\"__verif_no_such_variant__\"") {
        Ok(_) => vec![],
        Err(e) => {
            let msg = e.to_string();
            let Some(pos) = msg.find("expected") else { return vec![] };
            let tail = &msg[pos..];
            let tail = tail.split(" at line").next().unwrap_or(tail);
            tail.split('`').skip(1).step_by(2).map(|s| s.to_string()).collect()
        }
    }
}

/// all enum-variant-looking names in a JSON rendering (keys of one-entry objects and bare strings)
pub fn names_in_json(v: &serde_json::Value, out: &mut BTreeSet<String>) {
    match v {
        serde_json::Value::String(s) => {
            out.insert(s.clone());
        }
        serde_json::Value::Array(a) => a.iter().for_each(|x| names_in_json(x, out)),
        serde_json::Value::Object(o) => {
            for (k, x) in o {
                out.insert(k.clone());
                names_in_json(x, out);
            }
        }
        _ => {}
    }
}

