//! vh-protocol: pure, hook-free checks over ant-protocol / ant-evm / ant-registers values.
mod c16;

fn main() {
    let cfg = vh_core::RunCfg::from_args();
    match cfg.prop.as_str() {
        "C16" => c16::run(cfg),
        other => {
            eprintln!("vh-protocol: unknown property {other}");
            std::process::exit(2);
        }
    }
}
