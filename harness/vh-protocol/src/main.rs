//! vh-protocol: pure, hook-free checks over ant-protocol / ant-evm / ant-registers values.
mod c12;
mod c12_oracle;
mod c12_values;
mod c13;
mod c16;
mod common;

fn main() {
    let cfg = vh_core::RunCfg::from_args();
    match cfg.prop.as_str() {
        "C12" => c12::run(cfg),
        "C13" => c13::run(cfg),
        "C16" => c16::run(cfg),
        other => {
            eprintln!("vh-protocol: unknown property {other}");
            std::process::exit(2);
        }
    }
}
