fn main() {
    vh_protocol::main_entry()
}
