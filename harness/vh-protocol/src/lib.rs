//! vh-protocol: pure, hook-free checks over ant-protocol / ant-evm / ant-registers values.
pub mod c12;
pub mod c12_oracle;
pub mod c12_values;
pub mod c13;
pub mod c16;
pub mod common;

pub fn main_entry() {
    let cfg = vh_core::RunCfg::from_args();
    match cfg.prop.as_str() {
        "C12" => c12::run(cfg),
        "C13" => c13::run(cfg),
        "C16" => c16::run(cfg),
        other => {
            eprintln!("vh-protocol: unknown property {other}");
            std::process::exit(2);
        }
    }
}

/// Sections that the coverage-guided campaigns of the thorough tier drive (`/verif/fuzz`).
pub fn fuzz_table() -> vh_core::secfuzz::Table {
    use vh_core::secfuzz::entry;
    vec![
        entry("C13", "quote_mutations", c13::quote_case_strategy, c13::check_quote),
        entry("C13", "proof_truth_table", c13::proof_case_strategy, c13::check_proof),
        entry("C13", "historical_verify", c13::hist_strategy, c13::check_hist),
        entry("C16", "parse", c16::text_strategy, c16::check_parse),
        entry("C16", "arith", c16::pair_strategy, c16::check_arith),
        entry("C16", "display", c16::amount_strategy, c16::check_display),
        entry("C12", "record_roundtrip", c12_values::rec_case_strategy, c12::check_record),
        entry("C12", "message_roundtrip", c12_values::msg_strategy, c12::check_message),
    ]
}
