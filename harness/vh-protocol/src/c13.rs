//! C13 — payment quotes are bound to their signer and to every signed field.
//!
//! The oracle is written from the statement, not from `bytes_for_signing`: every quote in a case is
//! tracked *symbolically* — which node key its `pub_key` field carries, and which key signed which
//! field values when its `signature` field was produced. A quote must verify for a claimed node
//! exactly when (carried key = claimed node's key) ∧ (signature was made by that key over exactly the
//! quote's current content / timestamp / metrics / rewards address). Signatures are only ever
//! *produced* the way a node produces them (`create_quote_for_storecost`: sign
//! `PaymentQuote::bytes_for_signing(fields)`); expectations never go through that function.

use crate::common::*;
use ant_evm::{EncodedPeerId, PaymentQuote, ProofOfPayment, RewardsAddress};
use libp2p::identity::PublicKey;
use libp2p::PeerId;
use proptest::prelude::*;
use serde::{Deserialize, Serialize};
use serde_json::json;
use std::time::{Duration, SystemTime};
use vh_core::{Ctx, Report, RunCfg};
use xor_name::XorName;

const KEYS: u16 = 12;

// ------------------------------------------------------------------------------------------------
// mutations
// ------------------------------------------------------------------------------------------------

#[derive(Clone, Debug, Serialize, Deserialize)]
pub enum NumChange {
    /// wrapping add of a non-zero amount
    Add(u64),
    Set(u64),
    FlipBit(u8),
}

impl NumChange {
    fn apply(&self, v: u64) -> u64 {
        match self {
            NumChange::Add(d) => v.wrapping_add((*d).max(1)),
            NumChange::Set(x) => *x,
            NumChange::FlipBit(b) => v ^ (1u64 << (b % 64)),
        }
    }
}

#[derive(Clone, Debug, Serialize, Deserialize)]
pub enum Mutation {
    ContentBit { byte: u8, bit: u8 },
    ContentReplace([u8; 32]),
    /// move the timestamp by whole seconds (|delta| >= 1)
    TsSecs { delta: i64 },
    /// change only the sub-second part (the statement is silent on those: "either" zone)
    TsSubsec { nanos: u32 },
    /// field 0..=3: close_records_stored, max_records, received_payment_count, live_time
    Metric { field: u8, change: NumChange },
    DensityToggle,
    DensityBit { byte: u8, bit: u8 },
    NetSizeToggle,
    NetSize(NumChange),
    RewardsBit { byte: u8, bit: u8 },
    /// carry another node's (well-formed) public key
    KeyOther { key: u16 },
    KeyBit { pos: u16, bit: u8 },
    KeyTruncate { keep: u8 },
    KeyAppend(Vec<u8>),
    KeyEmpty,
    SigBit { pos: u16, bit: u8 },
    SigTruncate { keep: u8 },
    SigAppend(Vec<u8>),
    SigEmpty,
    /// replace the signature with a genuine one by another key over the quote's *current* fields
    ResignBy { key: u16 },
    /// a genuine signature by the currently carried key over the current fields but another content
    SigOverOtherContent([u8; 32]),
}

impl Mutation {
    fn class(&self) -> &'static str {
        match self {
            Mutation::ContentBit { .. } | Mutation::ContentReplace(_) => "content",
            Mutation::TsSecs { .. } => "timestamp_secs",
            Mutation::TsSubsec { .. } => "timestamp_subsec",
            Mutation::Metric { field, .. } => match field % 4 {
                0 => "metric_close_records_stored",
                1 => "metric_max_records",
                2 => "metric_received_payment_count",
                _ => "metric_live_time",
            },
            Mutation::DensityToggle | Mutation::DensityBit { .. } => "metric_network_density",
            Mutation::NetSizeToggle | Mutation::NetSize(_) => "metric_network_size",
            Mutation::RewardsBit { .. } => "rewards_address",
            Mutation::KeyOther { .. } => "pub_key_other_node",
            Mutation::KeyBit { .. } => "pub_key_bitflip",
            Mutation::KeyTruncate { .. } | Mutation::KeyAppend(_) | Mutation::KeyEmpty => "pub_key_length",
            Mutation::SigBit { .. } => "signature_bitflip",
            Mutation::SigTruncate { .. } | Mutation::SigAppend(_) | Mutation::SigEmpty => "signature_length",
            Mutation::ResignBy { .. } => "signature_by_other_key",
            Mutation::SigOverOtherContent(_) => "signature_over_other_content",
        }
    }
}

/// The values a signature speaks about (timestamp at the one-second resolution plus the sub-second
/// part kept separately, because the statement is silent about sub-second changes).
#[derive(Clone, Debug, PartialEq, Eq)]
struct Fields {
    content: [u8; 32],
    ts_secs: u64,
    ts_nanos: u32,
    metrics: MetricsSpec,
    rewards: [u8; 20],
}

impl Fields {
    fn same_to_the_second(&self, o: &Fields) -> bool {
        self.content == o.content && self.ts_secs == o.ts_secs && self.metrics == o.metrics && self.rewards == o.rewards
    }
}

#[derive(Clone, Debug)]
enum SigState {
    Genuine { key: u16, over: Fields, #[allow(dead_code)] bytes: Vec<u8> },
    Garbage,
}

#[derive(Clone, Debug)]
enum KeyState {
    Genuine(u16),
    Garbage,
}

#[derive(Clone, Copy, Debug, PartialEq, Eq)]
enum Tri {
    True,
    False,
    Either,
}

/// A quote under construction together with what the harness knows to be true about it.
struct Tracked {
    quote: PaymentQuote,
    fields: Fields,
    key: KeyState,
    sig: SigState,
    /// the last genuine states, to notice mutations that cancel each other out byte-for-byte
    last_key: (u16, Vec<u8>),
    last_sig: (u16, Fields, Vec<u8>),
}

fn sign_fields(key: u16, f: &Fields) -> Vec<u8> {
    // exactly what an honest node does when it issues a quote over these field values
    QuoteSpec {
        key,
        content: f.content,
        ts_secs: f.ts_secs,
        ts_nanos: f.ts_nanos,
        metrics: f.metrics.clone(),
        rewards: f.rewards,
    }
    .build_signed()
    .signature
}

impl Tracked {
    fn honest(spec: &QuoteSpec) -> Tracked {
        let quote = spec.build_signed();
        let fields = Fields {
            content: spec.content,
            ts_secs: spec.ts_secs,
            ts_nanos: spec.ts_nanos,
            metrics: spec.metrics.clone(),
            rewards: spec.rewards,
        };
        Tracked {
            key: KeyState::Genuine(spec.key),
            sig: SigState::Genuine { key: spec.key, over: fields.clone(), bytes: quote.signature.clone() },
            last_key: (spec.key, quote.pub_key.clone()),
            last_sig: (spec.key, fields.clone(), quote.signature.clone()),
            fields,
            quote,
        }
    }

    fn sync_fields(&mut self) {
        self.quote.content = XorName(self.fields.content);
        self.quote.timestamp = SystemTime::UNIX_EPOCH + Duration::new(self.fields.ts_secs, self.fields.ts_nanos);
        self.quote.quoting_metrics = self.fields.metrics.build();
        self.quote.rewards_address = RewardsAddress::new(self.fields.rewards);
    }

    fn apply(&mut self, m: &Mutation) {
        match m {
            Mutation::ContentBit { byte, bit } => self.fields.content[(*byte % 32) as usize] ^= 1 << (bit % 8),
            Mutation::ContentReplace(c) => self.fields.content = *c,
            Mutation::TsSecs { delta } => {
                let d = if *delta == 0 { 1 } else { *delta };
                // stay strictly after the epoch and inside what SystemTime can represent
                let t = (self.fields.ts_secs as i128 + d as i128).clamp(1, (1i128 << 40) - 1);
                self.fields.ts_secs = t as u64;
            }
            Mutation::TsSubsec { nanos } => self.fields.ts_nanos = nanos % 1_000_000_000,
            Mutation::Metric { field, change } => {
                let m = &mut self.fields.metrics;
                match field % 4 {
                    0 => m.close_records_stored = change.apply(m.close_records_stored),
                    1 => m.max_records = change.apply(m.max_records),
                    2 => m.received_payment_count = change.apply(m.received_payment_count),
                    _ => m.live_time = change.apply(m.live_time),
                }
            }
            Mutation::DensityToggle => {
                let m = &mut self.fields.metrics;
                m.network_density = match m.network_density {
                    Some(_) => None,
                    None => Some([0u8; 32]),
                }
            }
            Mutation::DensityBit { byte, bit } => {
                let m = &mut self.fields.metrics;
                let mut d = m.network_density.unwrap_or([0u8; 32]);
                d[(*byte % 32) as usize] ^= 1 << (bit % 8);
                m.network_density = Some(d);
            }
            Mutation::NetSizeToggle => {
                let m = &mut self.fields.metrics;
                m.network_size = match m.network_size {
                    Some(_) => None,
                    None => Some(0),
                }
            }
            Mutation::NetSize(change) => {
                let m = &mut self.fields.metrics;
                m.network_size = Some(change.apply(m.network_size.unwrap_or(0)));
            }
            Mutation::RewardsBit { byte, bit } => self.fields.rewards[(*byte % 20) as usize] ^= 1 << (bit % 8),
            Mutation::KeyOther { key } => {
                let k = key % KEYS;
                self.quote.pub_key = ed_keypair(k as u64).public().encode_protobuf();
                self.key = KeyState::Genuine(k);
                self.last_key = (k, self.quote.pub_key.clone());
            }
            Mutation::KeyBit { pos, bit } => {
                if !self.quote.pub_key.is_empty() {
                    let i = vh_core::pick_idx(*pos, self.quote.pub_key.len());
                    self.quote.pub_key[i] ^= 1 << (bit % 8);
                    self.key = KeyState::Garbage;
                }
            }
            Mutation::KeyTruncate { keep } => {
                let n = (*keep as usize).min(self.quote.pub_key.len().saturating_sub(1));
                if n != self.quote.pub_key.len() {
                    self.quote.pub_key.truncate(n);
                    self.key = KeyState::Garbage;
                }
            }
            Mutation::KeyAppend(b) => {
                if !b.is_empty() {
                    self.quote.pub_key.extend_from_slice(b);
                    self.key = KeyState::Garbage;
                }
            }
            Mutation::KeyEmpty => {
                self.quote.pub_key.clear();
                self.key = KeyState::Garbage;
            }
            Mutation::SigBit { pos, bit } => {
                if !self.quote.signature.is_empty() {
                    let i = vh_core::pick_idx(*pos, self.quote.signature.len());
                    self.quote.signature[i] ^= 1 << (bit % 8);
                    self.sig = SigState::Garbage;
                }
            }
            Mutation::SigTruncate { keep } => {
                let n = (*keep as usize).min(self.quote.signature.len().saturating_sub(1));
                if n != self.quote.signature.len() {
                    self.quote.signature.truncate(n);
                    self.sig = SigState::Garbage;
                }
            }
            Mutation::SigAppend(b) => {
                if !b.is_empty() {
                    self.quote.signature.extend_from_slice(b);
                    self.sig = SigState::Garbage;
                }
            }
            Mutation::SigEmpty => {
                self.quote.signature.clear();
                self.sig = SigState::Garbage;
            }
            Mutation::ResignBy { key } => {
                let k = key % KEYS;
                let bytes = sign_fields(k, &self.fields);
                self.quote.signature = bytes.clone();
                self.sig = SigState::Genuine { key: k, over: self.fields.clone(), bytes: bytes.clone() };
                self.last_sig = (k, self.fields.clone(), bytes);
            }
            Mutation::SigOverOtherContent(c) => {
                let k = match self.key {
                    KeyState::Genuine(k) => k,
                    KeyState::Garbage => self.last_key.0,
                };
                let mut f = self.fields.clone();
                f.content = *c;
                let bytes = sign_fields(k, &f);
                self.quote.signature = bytes.clone();
                self.sig = SigState::Genuine { key: k, over: f.clone(), bytes: bytes.clone() };
                self.last_sig = (k, f, bytes);
            }
        }
        self.sync_fields();
    }

    /// settle states after all mutations (two mutations may cancel each other byte for byte)
    fn settle(&mut self) {
        if matches!(self.key, KeyState::Garbage) && self.quote.pub_key == self.last_key.1 {
            self.key = KeyState::Genuine(self.last_key.0);
        }
        if matches!(self.sig, SigState::Garbage) && self.quote.signature == self.last_sig.2 {
            self.sig = SigState::Genuine {
                key: self.last_sig.0,
                over: self.last_sig.1.clone(),
                bytes: self.last_sig.2.clone(),
            };
        }
    }

    /// Does the carried (garbled) key field still decode to the key of one of the pool nodes? Then the
    /// quote still "carries that node's public key" in another encoding: no expectation either way.
    fn garbled_key_aliases_pool_key(&self) -> bool {
        match PublicKey::try_decode_protobuf(&self.quote.pub_key) {
            Ok(pk) => (0..KEYS).any(|k| ed_keypair(k as u64).public() == pk),
            Err(_) => false,
        }
    }

    /// The statement's verdict for "this quote verifies for `claimed`".
    fn expect(&self, claimed: &PeerId) -> Tri {
        let k = match self.key {
            KeyState::Genuine(k) => k,
            KeyState::Garbage => {
                return if self.garbled_key_aliases_pool_key() { Tri::Either } else { Tri::False };
            }
        };
        if ed_keypair(k as u64).public().to_peer_id() != *claimed {
            return Tri::False;
        }
        match &self.sig {
            SigState::Garbage => Tri::False,
            SigState::Genuine { key, over, .. } => {
                if *key != k {
                    Tri::False
                } else if *over == self.fields {
                    Tri::True
                } else if over.same_to_the_second(&self.fields) {
                    Tri::Either
                } else {
                    Tri::False
                }
            }
        }
    }
}

fn bit_strategy() -> impl Strategy<Value = (u8, u8)> {
    (any::<u8>(), 0u8..8)
}

fn num_change() -> BoxedStrategy<NumChange> {
    prop_oneof![
        3 => (1u64..4).prop_map(NumChange::Add),
        1 => any::<u64>().prop_map(NumChange::Add),
        2 => (0u8..64).prop_map(NumChange::FlipBit),
        1 => prop_oneof![Just(0u64), Just(1), Just(u64::MAX), any::<u64>()].prop_map(NumChange::Set),
    ]
    .boxed()
}

fn signed_field_mutation() -> BoxedStrategy<Mutation> {
    prop_oneof![
        3 => bit_strategy().prop_map(|(byte, bit)| Mutation::ContentBit { byte, bit }),
        1 => any::<[u8; 32]>().prop_map(Mutation::ContentReplace),
        4 => prop_oneof![
            Just(1i64), Just(-1), Just(2), Just(-2), Just(60), Just(-60), Just(3600), Just(-3600),
            Just(255), Just(256), Just(-256), Just(65536), Just(1 << 32), -100_000i64..100_000,
        ]
        .prop_map(|delta| Mutation::TsSecs { delta }),
        8 => (0u8..4, num_change()).prop_map(|(field, change)| Mutation::Metric { field, change }),
        1 => Just(Mutation::DensityToggle),
        2 => bit_strategy().prop_map(|(byte, bit)| Mutation::DensityBit { byte, bit }),
        1 => Just(Mutation::NetSizeToggle),
        2 => num_change().prop_map(Mutation::NetSize),
        4 => bit_strategy().prop_map(|(byte, bit)| Mutation::RewardsBit { byte, bit }),
    ]
    .boxed()
}

fn small_bytes() -> impl Strategy<Value = Vec<u8>> {
    proptest::collection::vec(any::<u8>(), 1..6)
}

fn key_mutation() -> BoxedStrategy<Mutation> {
    prop_oneof![
        4 => (0..KEYS).prop_map(|key| Mutation::KeyOther { key }),
        4 => (any::<u16>(), 0u8..8).prop_map(|(pos, bit)| Mutation::KeyBit { pos, bit }),
        1 => (0u8..40).prop_map(|keep| Mutation::KeyTruncate { keep }),
        1 => small_bytes().prop_map(Mutation::KeyAppend),
        1 => Just(Mutation::KeyEmpty),
    ]
    .boxed()
}

fn sig_mutation() -> BoxedStrategy<Mutation> {
    prop_oneof![
        4 => (any::<u16>(), 0u8..8).prop_map(|(pos, bit)| Mutation::SigBit { pos, bit }),
        1 => (0u8..66).prop_map(|keep| Mutation::SigTruncate { keep }),
        1 => small_bytes().prop_map(Mutation::SigAppend),
        1 => Just(Mutation::SigEmpty),
        3 => (0..KEYS).prop_map(|key| Mutation::ResignBy { key }),
        2 => any::<[u8; 32]>().prop_map(Mutation::SigOverOtherContent),
    ]
    .boxed()
}

fn any_mutation() -> BoxedStrategy<Mutation> {
    prop_oneof![
        10 => signed_field_mutation(),
        1 => (0u32..1_000_000_000).prop_map(|nanos| Mutation::TsSubsec { nanos }),
        4 => key_mutation(),
        4 => sig_mutation(),
    ]
    .boxed()
}

// ------------------------------------------------------------------------------------------------
// section 1: single quotes, mutations, claimed identities
// ------------------------------------------------------------------------------------------------

#[derive(Clone, Debug, Serialize, Deserialize)]
pub enum Claimed {
    /// the node whose key the honest quote was signed with
    Signer,
    /// another pool node
    Node(u16),
    /// the peer id derived from whatever key bytes the (mutated) quote carries
    OfCarriedKey,
    /// a peer id that belongs to no key (sha2-256 multihash of these bytes)
    Unrelated([u8; 32]),
}

#[derive(Clone, Debug, Serialize, Deserialize)]
pub struct QuoteCase {
    pub base: QuoteSpec,
    /// when set, the quote is dated `now - age` seconds instead of `base.ts_secs`
    pub fresh_age_s: Option<u32>,
    pub muts: Vec<Mutation>,
    pub claimed: Claimed,
}

fn now_secs() -> u64 {
    SystemTime::now().duration_since(SystemTime::UNIX_EPOCH).map(|d| d.as_secs()).unwrap_or(0)
}

fn unrelated_peer(bytes: &[u8; 32]) -> PeerId {
    let mut v = vec![0x12u8, 0x20];
    v.extend_from_slice(bytes);
    PeerId::from_bytes(&v).expect("sha2-256 multihash is a valid peer id")
}

pub fn quote_case_strategy() -> BoxedStrategy<QuoteCase> {
    let muts = prop_oneof![
        2 => Just(vec![]),
        10 => any_mutation().prop_map(|m| vec![m]),
        4 => proptest::collection::vec(any_mutation(), 2..4),
        // consistent re-issue by another node: carried key, signature and (maybe) claim all move
        2 => (0..KEYS).prop_map(|k| vec![Mutation::KeyOther { key: k }, Mutation::ResignBy { key: k }]),
        // a field change followed by a fresh signature of the original signer: a new honest quote
        1 => (signed_field_mutation(), 0..KEYS).prop_map(|(m, k)| vec![m, Mutation::ResignBy { key: k }]),
    ];
    let claimed = prop_oneof![
        10 => Just(Claimed::Signer),
        3 => (0..KEYS).prop_map(Claimed::Node),
        3 => Just(Claimed::OfCarriedKey),
        1 => any::<[u8; 32]>().prop_map(Claimed::Unrelated),
    ];
    (
        quote_strategy(KEYS),
        prop_oneof![2 => (10u32..3000).prop_map(Some), 1 => Just(None)],
        muts,
        claimed,
    )
        .prop_map(|(base, fresh_age_s, muts, claimed)| QuoteCase { base, fresh_age_s, muts, claimed })
        .boxed()
}

pub fn check_quote(c: &QuoteCase, ctx: &mut Ctx) {
    let mut base = c.base.clone();
    base.key %= KEYS;
    let now = now_secs();
    if let Some(age) = c.fresh_age_s {
        base.ts_secs = now.saturating_sub(age as u64).max(1);
    }
    let mut t = Tracked::honest(&base);
    let honest = t.quote.clone();
    let honest_hash = honest.hash();
    let honest_fields = t.fields.clone();
    for m in &c.muts {
        t.apply(m);
    }
    t.settle();

    let claimed = match &c.claimed {
        Claimed::Signer => base.signer(),
        Claimed::Node(k) => ed_keypair((*k % KEYS) as u64).public().to_peer_id(),
        Claimed::OfCarriedKey => match PublicKey::try_decode_protobuf(&t.quote.pub_key) {
            Ok(pk) => pk.to_peer_id(),
            Err(_) => base.signer(),
        },
        Claimed::Unrelated(b) => unrelated_peer(b),
    };
    let expect = t.expect(&claimed);
    // the genuine quote is (usually) seen and verified before any altered copy of it turns up:
    // whatever a verifier remembers about it must not make the altered copy pass
    if c.muts.len() % 2 == 1 || c.fresh_age_s.is_some() {
        let _ = ctx.no_panic("check_is_signed_by_claimed_peer", || honest.check_is_signed_by_claimed_peer(base.signer()));
        ctx.label("genuine_quote_verified_first");
    }
    let Some(got) = ctx.no_panic("check_is_signed_by_claimed_peer", || t.quote.check_is_signed_by_claimed_peer(claimed)) else {
        return;
    };

    // what differs from the honest quote, field by field
    let mut changed: Vec<&'static str> = vec![];
    if t.fields.content != honest_fields.content {
        changed.push("content");
    }
    if t.fields.ts_secs != honest_fields.ts_secs {
        changed.push("timestamp_secs");
    } else if t.fields.ts_nanos != honest_fields.ts_nanos {
        changed.push("timestamp_subsec");
    }
    if t.fields.metrics != honest_fields.metrics {
        changed.push("metrics");
    }
    if t.fields.rewards != honest_fields.rewards {
        changed.push("rewards_address");
    }
    if t.quote.pub_key != honest.pub_key {
        changed.push("pub_key");
    }
    if t.quote.signature != honest.signature {
        changed.push("signature");
    }
    let claim_moved = claimed != base.signer();
    let single = changed.len() + claim_moved as usize == 1;
    for m in &c.muts {
        ctx.label(format!("mut/{}", m.class()));
    }
    if c.muts.len() == 1 && !claim_moved {
        ctx.label(format!("only_mut/{}", c.muts[0].class()));
    }
    if single {
        ctx.label(format!("single_change/{}", if claim_moved { "claimed_identity" } else { changed[0] }));
    } else if changed.len() + claim_moved as usize > 1 {
        ctx.label("multi_change");
    } else {
        ctx.label("unchanged");
    }
    ctx.label(format!("expect/{expect:?}"));
    ctx.nontrivial_if(single);
    ctx.sample = Some(json!({"muts": c.muts, "claimed": c.claimed, "changed": changed, "expected": format!("{expect:?}"), "got": got}));

    let fresh = now.saturating_sub(t.fields.ts_secs) >= 5 && now.saturating_sub(t.fields.ts_secs) <= 3000 && t.fields.ts_secs <= now;
    match expect {
        Tri::False => {
            if got {
                let what = if single && !claim_moved && c.muts.len() == 1 {
                    c.muts[0].class().to_string()
                } else if single {
                    if claim_moved { "claimed_identity".to_string() } else { changed[0].to_string() }
                } else {
                    "multi".to_string()
                };
                ctx.fail(
                    format!("verifies_despite_change/{what}"),
                    format!("quote verifies for {claimed} although changed={changed:?} claim_moved={claim_moved}; muts={:?}", c.muts),
                );
            }
        }
        Tri::True => {
            if fresh {
                ctx.label("valid_fresh");
                if !got {
                    ctx.precondition_failed(
                        "honest_quote_rejected",
                        format!("a quote issued and signed by node key {:?} over its own fields does not verify for that node; muts={:?}", t.key, c.muts),
                    );
                }
            } else {
                ctx.label("valid_not_fresh(converse_not_asserted)");
            }
        }
        Tri::Either => {}
    }

    // the quote hash (what is paid for on chain) must move with every single changed field
    if changed.len() == 1 && changed[0] != "timestamp_subsec" {
        if let Some(hm) = ctx.no_panic("PaymentQuote::hash", || t.quote.hash()) {
            if hm == honest_hash {
                ctx.fail(format!("hash_unchanged/{}", changed[0]), format!("hash identical after changing only {}; muts={:?}", changed[0], c.muts));
            }
        }
    }
}

// ------------------------------------------------------------------------------------------------
// section 2: proofs of payment
// ------------------------------------------------------------------------------------------------

#[derive(Clone, Debug, Serialize, Deserialize)]
pub enum Payee {
    /// the node that signed the quote
    Signer,
    /// some other pool node
    Node(u16),
    /// bytes that are not a peer id
    Undecodable(Vec<u8>),
}

#[derive(Clone, Debug, Serialize, Deserialize)]
pub struct ProofEntry {
    pub quote: QuoteSpec,
    pub tamper: Option<Mutation>,
    pub payee: Payee,
}

#[derive(Clone, Debug, Serialize, Deserialize)]
pub enum Verifier {
    /// the claimed payee of entry i (if decodable), else pool node 0
    PayeeOf(u16),
    /// the signer of entry i
    SignerOf(u16),
    Node(u16),
    Unrelated([u8; 32]),
}

#[derive(Clone, Debug, Serialize, Deserialize)]
pub struct ProofCase {
    pub entries: Vec<ProofEntry>,
    pub verifier: Verifier,
    /// date all quotes `now - age - i` seconds (a proof a client just assembled)
    pub fresh_age_s: Option<u32>,
    /// all quotes are for the first entry's content (as in a real proof)
    pub same_content: bool,
}

fn undecodable_bytes() -> BoxedStrategy<Vec<u8>> {
    prop_oneof![
        Just(vec![]),
        Just(vec![0xff; 5]),
        Just(vec![0x12, 0x20, 1, 2, 3]),
        Just(vec![0x00, 0x24, 0x08, 0x01]),
        proptest::collection::vec(any::<u8>(), 0..40),
    ]
    .boxed()
}

pub fn proof_case_strategy() -> BoxedStrategy<ProofCase> {
    let entry = |valid_w: u32, tamper_w: u32| {
        (
            quote_strategy(KEYS),
            prop_oneof![valid_w => Just(None), tamper_w => any_mutation().prop_map(Some)],
            prop_oneof![
                8 => Just(Payee::Signer),
                2 => (0..KEYS).prop_map(Payee::Node),
                1 => undecodable_bytes().prop_map(Payee::Undecodable),
            ],
        )
            .prop_map(|(quote, tamper, payee)| ProofEntry { quote, tamper, payee })
    };
    // a proof with all entries fine (then exactly one spoiled below), or freely mixed
    let all_good = proptest::collection::vec(
        quote_strategy(KEYS).prop_map(|quote| ProofEntry { quote, tamper: None, payee: Payee::Signer }),
        1..=5,
    );
    // exactly one entry spoiled, in exactly one way
    let spoil = prop_oneof![
        4 => any_mutation().prop_map(|m| (Some(m), Payee::Signer)),
        2 => (0..KEYS).prop_map(|k| (None, Payee::Node(k))),
        2 => undecodable_bytes().prop_map(|b| (None, Payee::Undecodable(b))),
    ];
    let one_bad = (all_good.clone(), spoil, any::<u16>()).prop_map(|(mut v, (tamper, payee), at)| {
        let i = vh_core::pick_idx(at, v.len());
        v[i].tamper = tamper;
        v[i].payee = payee;
        v
    });
    let mixed = proptest::collection::vec(entry(3, 1), 0..=5);
    let entries = prop_oneof![3 => all_good, 4 => one_bad, 3 => mixed];
    let verifier = prop_oneof![
        8 => any::<u16>().prop_map(Verifier::PayeeOf),
        2 => any::<u16>().prop_map(Verifier::SignerOf),
        2 => (0..KEYS).prop_map(Verifier::Node),
        1 => any::<[u8; 32]>().prop_map(Verifier::Unrelated),
    ];
    (
        entries,
        verifier,
        prop_oneof![3 => (10u32..2900).prop_map(Some), 1 => Just(None)],
        prop::bool::weighted(0.7),
    )
        .prop_map(|(mut entries, verifier, fresh_age_s, same_content)| {
            // distinct signers for the honest shape (a client collects quotes from different nodes);
            // done by construction: entry i signs with key (k0 + i) when the flag is set
            if same_content {
                let k0 = entries.first().map(|e| e.quote.key).unwrap_or(0);
                for (i, e) in entries.iter_mut().enumerate() {
                    e.quote.key = (k0 + i as u16) % KEYS;
                }
            }
            ProofCase { entries, verifier, fresh_age_s, same_content }
        })
        .boxed()
}

pub fn check_proof(c: &ProofCase, ctx: &mut Ctx) {
    let now = now_secs();
    let mut peer_quotes = vec![];
    let mut verdicts: Vec<Tri> = vec![];
    let mut payees: Vec<Option<PeerId>> = vec![];
    let mut signers: Vec<PeerId> = vec![];
    let mut honest_shape = c.fresh_age_s.is_some() && c.same_content && !c.entries.is_empty();
    let content0 = c.entries.first().map(|e| e.quote.content);
    for (i, e) in c.entries.iter().enumerate() {
        let mut spec = e.quote.clone();
        spec.key %= KEYS;
        if let Some(age) = c.fresh_age_s {
            spec.ts_secs = now.saturating_sub(age as u64 + i as u64).max(1);
        }
        if c.same_content {
            spec.content = content0.unwrap_or(spec.content);
        }
        let mut t = Tracked::honest(&spec);
        if let Some(m) = &e.tamper {
            t.apply(m);
            t.settle();
            honest_shape = false;
        }
        let signer = spec.signer();
        let (enc, payee) = match &e.payee {
            Payee::Signer => (EncodedPeerId::from(signer), Some(signer)),
            Payee::Node(k) => {
                let p = ed_keypair((*k % KEYS) as u64).public().to_peer_id();
                (EncodedPeerId::from(p), Some(p))
            }
            Payee::Undecodable(b) => match PeerId::from_bytes(b) {
                // the generator aims at undecodable bytes; if they happen to decode they are just a payee
                Ok(p) => (EncodedPeerId::from(p), Some(p)),
                Err(_) => (encoded_peer_id_from_bytes(b), None),
            },
        };
        if payee != Some(signer) {
            honest_shape = false;
        }
        if signers.contains(&signer) {
            honest_shape = false;
        }
        let v = match &payee {
            Some(p) => t.expect(p),
            None => Tri::False,
        };
        ctx.label(match (&payee, v) {
            (None, _) => "entry/undecodable_payee",
            (Some(_), Tri::True) => "entry/valid",
            (Some(p), Tri::False) if *p != signer && e.tamper.is_none() => "entry/payee_is_not_signer",
            (Some(_), Tri::False) => "entry/tampered_quote",
            (Some(_), Tri::Either) => "entry/either",
        });
        verdicts.push(v);
        payees.push(payee);
        signers.push(signer);
        peer_quotes.push((enc, t.quote));
    }
    let n = c.entries.len();
    let verifier = match &c.verifier {
        Verifier::PayeeOf(i) if n > 0 => payees[vh_core::pick_idx(*i, n)].unwrap_or_else(|| ed_keypair(0).public().to_peer_id()),
        Verifier::SignerOf(i) if n > 0 => signers[vh_core::pick_idx(*i, n)],
        Verifier::PayeeOf(_) | Verifier::SignerOf(_) => ed_keypair(0).public().to_peer_id(),
        Verifier::Node(k) => ed_keypair((*k % KEYS) as u64).public().to_peer_id(),
        Verifier::Unrelated(b) => unrelated_peer(b),
    };
    let is_payee = payees.iter().any(|p| *p == Some(verifier));
    let n_false = verdicts.iter().filter(|v| **v == Tri::False).count();
    let n_either = verdicts.iter().filter(|v| **v == Tri::Either).count();
    let expect = if !is_payee || n_false > 0 {
        Tri::False
    } else if n_either > 0 {
        Tri::Either
    } else {
        Tri::True
    };
    let proof = ProofOfPayment { peer_quotes };
    let Some(got) = ctx.no_panic("ProofOfPayment::verify_for", || proof.verify_for(verifier)) else { return };

    let mixed = n_false > 0 && n_false < n;
    ctx.label(format!("quotes/{n}"));
    ctx.label_if(mixed, "mixed_valid_invalid");
    ctx.label_if(!is_payee, "verifier_not_payee");
    ctx.label_if(is_payee && n_false == 0 && n_either == 0, "all_valid_and_payee");
    ctx.label_if(is_payee && n_false == 1, "payee_and_exactly_one_bad");
    ctx.label_if(!is_payee && n_false == 0 && n > 0, "all_valid_but_not_payee");
    ctx.label(format!("expect/{expect:?}"));
    ctx.nontrivial_if(mixed || (n_false == 0 && !is_payee && n > 0) || (is_payee && n_false == 1));
    ctx.sample = Some(json!({
        "quotes": n, "verdict_per_entry": verdicts.iter().map(|v| format!("{v:?}")).collect::<Vec<_>>(),
        "verifier_is_payee": is_payee, "expected": format!("{expect:?}"), "got": got,
    }));

    match expect {
        Tri::False => {
            if got {
                let sig = if !is_payee {
                    "proof_verifies_for_non_payee"
                } else if payees.iter().any(|p| p.is_none()) && n_false == payees.iter().filter(|p| p.is_none()).count() {
                    "proof_verifies_with_undecodable_payee"
                } else {
                    "proof_verifies_with_invalid_quote"
                };
                ctx.fail(sig, format!("verify_for({verifier}) = true; per-entry verdicts {verdicts:?}, verifier is payee: {is_payee}"));
            }
        }
        Tri::True => {
            if honest_shape {
                ctx.label("honest_shape");
                if !got {
                    ctx.precondition_failed("honest_proof_rejected", format!("proof of {n} fresh honest quotes from distinct nodes for one content does not verify for payee {verifier}"));
                }
            } else {
                ctx.label("valid_but_unusual_shape(converse_not_asserted)");
            }
        }
        Tri::Either => {}
    }

    // payees(): exactly the decodable claimed payees, in order
    if let Some(ps) = ctx.no_panic("ProofOfPayment::payees", || proof.payees()) {
        let want: Vec<PeerId> = payees.iter().flatten().copied().collect();
        if ps != want {
            ctx.fail("payees_list_wrong", format!("payees() = {ps:?}, claimed decodable payees = {want:?}"));
        }
    }
}

// ------------------------------------------------------------------------------------------------
// section 3: expiry
// ------------------------------------------------------------------------------------------------

const WINDOW_S: i64 = 3600;
const GUARD_S: i64 = 5;

#[derive(Clone, Debug, Serialize, Deserialize)]
pub struct ExpiryCase {
    /// age of the quote in milliseconds relative to now (negative: dated in the future)
    pub age_ms: i64,
}

fn expiry_strategy() -> BoxedStrategy<ExpiryCase> {
    prop_oneof![
        4 => -120_000i64..120_000,
        4 => (WINDOW_S * 1000 - 120_000)..(WINDOW_S * 1000 + 120_000),
        1 => -20_000i64..20_000,
        1 => (WINDOW_S * 1000 - 20_000)..(WINDOW_S * 1000 + 20_000),
        2 => -86_400_000i64..86_400_000,
        1 => (0i64..40).prop_map(|k| (1i64 << k) * 1000),
        1 => (0i64..34).prop_map(|k| -(1i64 << k) * 1000),
    ]
    .prop_map(|age_ms| ExpiryCase { age_ms })
    .boxed()
}

fn check_expiry(c: &ExpiryCase, ctx: &mut Ctx) {
    let before = SystemTime::now();
    let ts = if c.age_ms >= 0 {
        before.checked_sub(Duration::from_millis(c.age_ms as u64))
    } else {
        before.checked_add(Duration::from_millis(c.age_ms.unsigned_abs()))
    };
    let Some(ts) = ts else { return };
    if ts <= SystemTime::UNIX_EPOCH {
        ctx.label("before_epoch(skipped)");
        return;
    }
    let mut q = PaymentQuote::test_dummy(XorName([7u8; 32]));
    q.timestamp = ts;
    let Some(got) = ctx.no_panic("PaymentQuote::has_expired", || q.has_expired()) else { return };
    let after = SystemTime::now();
    // the verdict below relies on the clock having moved by well under the guard band
    match after.duration_since(before) {
        Ok(d) if d < Duration::from_secs(1) => {}
        _ => {
            ctx.label("clock_moved(skipped)");
            return;
        }
    }
    let age_s = c.age_ms as f64 / 1000.0;
    let near_zero = (c.age_ms).abs() <= 120_000;
    let near_window = (c.age_ms - WINDOW_S * 1000).abs() <= 120_000;
    ctx.nontrivial_if(near_zero || near_window);
    ctx.canon = Some(format!("{}", c.age_ms / 250));
    ctx.sample = Some(json!({"age_s": age_s, "has_expired": got}));
    let expect = if c.age_ms <= -GUARD_S * 1000 {
        ctx.label("future_beyond_guard");
        Some(true)
    } else if c.age_ms < GUARD_S * 1000 {
        ctx.label("guard_band_around_now");
        None
    } else if c.age_ms <= (WINDOW_S - GUARD_S) * 1000 {
        ctx.label_if(near_zero, "just_issued");
        ctx.label_if(near_window, "just_inside_window");
        ctx.label_if(!near_zero && !near_window, "inside_window");
        Some(false)
    } else if c.age_ms < (WINDOW_S + GUARD_S) * 1000 {
        ctx.label("guard_band_around_window");
        None
    } else {
        ctx.label_if(near_window, "just_outside_window");
        ctx.label_if(!near_window, "long_expired");
        Some(true)
    };
    if let Some(e) = expect {
        if got != e {
            let sig = if c.age_ms < 0 {
                "future_quote_not_expired"
            } else if e {
                "old_quote_not_expired"
            } else {
                "valid_quote_reported_expired"
            };
            ctx.fail(sig, format!("quote aged {age_s} s: has_expired() = {got}, statement says {e}"));
        }
    }
}

// ------------------------------------------------------------------------------------------------
// section 4: historical consistency
// ------------------------------------------------------------------------------------------------

#[derive(Clone, Debug, Serialize, Deserialize)]
pub struct HistCase {
    pub key: u16,
    /// age of the earlier quote in ms relative to now (may be negative = future)
    pub old_age_ms: i64,
    /// the later quote is this many ms younger (>= 0; 0 = same instant)
    pub gap_ms: u64,
    pub old: MetricsSpec,
    pub new_live_time: u64,
    pub new_received_payment_count: u64,
    pub new_close_records_stored: u64,
}

pub fn hist_strategy() -> BoxedStrategy<HistCase> {
    let rel = |base: u64| {
        prop_oneof![
            3 => Just(base),
            3 => (1u64..5).prop_map(move |d| base.saturating_sub(d)),
            3 => (1u64..5).prop_map(move |d| base.saturating_add(d)),
            1 => (0u64..=base).prop_map(|x| x),
            1 => any::<u64>(),
        ]
    };
    (
        0..KEYS,
        prop_oneof![6 => 20_000i64..7_200_000, 1 => -600_000i64..20_000, 1 => 0i64..1_000_000_000],
        prop_oneof![1 => Just(0u64), 2 => 1u64..1000, 3 => 1000u64..20_000, 2 => 1000u64..4_000_000],
        metrics_strategy(),
    )
        .prop_flat_map(move |(key, old_age_ms, gap_ms, old)| {
            (rel(old.live_time), rel(old.received_payment_count), rel(old.close_records_stored)).prop_map(move |(lt, rp, cr)| HistCase {
                key,
                old_age_ms,
                gap_ms,
                old: old.clone(),
                new_live_time: lt,
                new_received_payment_count: rp,
                new_close_records_stored: cr,
            })
        })
        .boxed()
}

pub fn check_hist(c: &HistCase, ctx: &mut Ctx) {
    let now = SystemTime::now();
    let shift = |age_ms: i64| {
        if age_ms >= 0 {
            now.checked_sub(Duration::from_millis(age_ms as u64))
        } else {
            now.checked_add(Duration::from_millis(age_ms.unsigned_abs()))
        }
    };
    let (Some(t_old), Some(t_new)) = (shift(c.old_age_ms), shift(c.old_age_ms.saturating_sub(c.gap_ms.min(i64::MAX as u64) as i64))) else {
        return;
    };
    if t_old <= SystemTime::UNIX_EPOCH {
        ctx.label("before_epoch(skipped)");
        return;
    }
    let secs_nanos = |t: SystemTime| {
        let d = t.duration_since(SystemTime::UNIX_EPOCH).unwrap_or_default();
        (d.as_secs(), d.subsec_nanos())
    };
    let mk = |t: SystemTime, m: &MetricsSpec| {
        let (ts_secs, ts_nanos) = secs_nanos(t);
        QuoteSpec { key: c.key % KEYS, content: [3u8; 32], ts_secs, ts_nanos, metrics: m.clone(), rewards: [9u8; 20] }.build_signed()
    };
    let mut newm = c.old.clone();
    newm.live_time = c.new_live_time;
    newm.received_payment_count = c.new_received_payment_count;
    newm.close_records_stored = c.new_close_records_stored;
    let q_old = mk(t_old, &c.old);
    let q_new = mk(t_new, &newm);
    let later = q_new.timestamp > q_old.timestamp;
    let less_uptime = newm.live_time < c.old.live_time;
    let fewer_payments = newm.received_payment_count < c.old.received_payment_count;
    let Some(a) = ctx.no_panic("historical_verify(new,old)", || q_new.historical_verify(&q_old)) else { return };
    let Some(b) = ctx.no_panic("historical_verify(old,new)", || q_old.historical_verify(&q_new)) else { return };
    ctx.label_if(!later, "same_instant(either)");
    ctx.label_if(later && less_uptime, "later_less_uptime");
    ctx.label_if(later && fewer_payments, "later_fewer_payments");
    ctx.label_if(later && !less_uptime && !fewer_payments, "later_consistent_counters");
    ctx.label_if(later && c.gap_ms < 1000, "later_by_under_a_second");
    ctx.label_if(c.old_age_ms - (c.gap_ms as i64) < 0, "newer_dated_in_future");
    ctx.nontrivial_if(later && (less_uptime || fewer_payments));
    ctx.sample = Some(json!({
        "old": {"live_time": c.old.live_time, "payments": c.old.received_payment_count, "age_ms": c.old_age_ms},
        "new": {"live_time": newm.live_time, "payments": newm.received_payment_count, "younger_by_ms": c.gap_ms},
        "new.historical_verify(old)": a, "old.historical_verify(new)": b,
    }));
    if later && (less_uptime || fewer_payments) {
        let what = if less_uptime { "less_uptime" } else { "fewer_payments" };
        if a {
            ctx.fail(format!("regressing_quote_not_flagged/{what}/new_vs_old"), format!("later quote reports live_time {}→{} payments {}→{} but new.historical_verify(old) = true", c.old.live_time, newm.live_time, c.old.received_payment_count, newm.received_payment_count));
        }
        if b {
            ctx.fail(format!("regressing_quote_not_flagged/{what}/old_vs_new"), format!("later quote reports live_time {}→{} payments {}→{} but old.historical_verify(new) = true", c.old.live_time, newm.live_time, c.old.received_payment_count, newm.received_payment_count));
        }
    }
}

pub fn run(cfg: RunCfg) {
    let mut rep = Report::new(cfg, "exploration");
    rep.rule = "C13: quotes signed by ed25519 node keys derived from small integers; every mutation is tracked symbolically (which key is carried, which key signed which field values) and the statement's verdict is computed from that, never from bytes_for_signing.".into();
    rep.assumptions = vec![
        "ed25519 is unforgeable: a bit-flipped/truncated/extended signature, or a genuine signature by another key or over other field values, is taken to be invalid for the quote".into(),
        "changes of only the sub-second part of the timestamp are an 'either' zone (the statement does not fix the resolution of the signed timestamp)".into(),
        "a garbled pub_key field that still decodes (libp2p protobuf decoder) to a pool node's key is an 'either' zone: the quote still carries that node's key".into(),
        "the converse direction (an honest quote / proof must verify) is asserted only for the shape real clients produce: fresh timestamps (5..3000 s old), payee = signer, distinct signers, one content; the statement itself is 'only if'".into(),
        "has_expired reads the wall clock: verdicts are asserted only outside a ±5 s guard band around age 0 and age 3600 s, and only if the clock moved < 1 s during the call".into(),
        "historical_verify: only the statement's direction is asserted (later ∧ (less uptime ∨ fewer payments) ⇒ flagged, in both call orders); equal timestamps are an 'either' zone".into(),
        "the quote hash is required to change under every single-field change except sub-second timestamp changes (DESIGN oracle; the statement names the hash only as an observation point)".into(),
    ];
    vh_core::section!(
        rep, "quote_mutations", (400_000, 8_000_000), 16,
        "honest quote + 0..3 mutations (every signed field incl. each metrics field, pub_key, signature, re-signing) × claimed identity; non-trivial: exactly one thing differs from the honest quote (a field, the key, the signature or the claimed identity); distinct by case",
        quote_case_strategy, check_quote
    );
    vh_core::section!(
        rep, "proof_truth_table", (200_000, 4_000_000), 16,
        "proofs of 0..5 quotes: all good / exactly one spoiled / freely mixed (tampered quote, payee≠signer, undecodable payee) × verifier (a payee, a signer, another node, unrelated); non-trivial: mixed valid+invalid, or all valid but verifier not a payee, or payee with exactly one bad entry",
        proof_case_strategy, check_proof
    );
    vh_core::section!(
        rep, "expiry", (100_000, 1_000_000), 16,
        "ages relative to now in ms, dense around 0 and 3600 s, out to ±1 day and powers of two; non-trivial: within 120 s of a boundary; distinct by age/250ms",
        expiry_strategy, check_expiry
    );
    vh_core::section!(
        rep, "historical_verify", (200_000, 4_000_000), 16,
        "pairs of quotes of one node: earlier age, gap (0, sub-second, seconds, up to ~1 h), counters of the later quote below/equal/above the earlier; non-trivial: later quote with less uptime or fewer payments",
        hist_strategy, check_hist
    );
    // which two quotes get compared is the swarm driver's business: that part needs the driver
    // simulator of vh-store and runs there as a child (built by harness/pre-C13.sh)
    let exe = rep.cfg.root.join("harness/target/release/vh-store");
    vh_core::run_child(&mut rep, &exe, "driver-side quote history (vh-store child)");
    vh_core::fuzz_section!(rep, "quote_mutations", quote_case_strategy, check_quote, "sec_protocol", "protocol", 300_000, 150, 6);
    vh_core::fuzz_section!(rep, "proof_truth_table", proof_case_strategy, check_proof, "sec_protocol", "protocol", 200_000, 150, 6);
    vh_core::fuzz_section!(rep, "historical_verify", hist_strategy, check_hist, "sec_protocol", "protocol", 200_000, 100, 4);
    rep.finish();
}
