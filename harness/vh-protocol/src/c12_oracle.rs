//! C12 byte-level oracle, shared verbatim by the proptest sections (vh-protocol) and by the libFuzzer
//! targets under /verif/fuzz (included there with `#[path]`). No dependency on vh-core.
//!
//! Written from the statement:
//!  * the kind tag is a fixed-size prefix (`RecordHeader::SIZE` bytes) with frozen numbers;
//!  * decoding arbitrary / truncated / unknown-kind bytes gives `Err`, never a crash;
//!  * whatever decodes, re-encodes and decodes to the same value (`decode(b)=Ok(v) ⇒ decode(encode(v))=Ok(v)`);
//!  * a decoded chunk's address is the hash of its bytes.

#![allow(dead_code)]

use ant_evm::ProofOfPayment;
use ant_protocol::messages::{Request, Response};
use ant_protocol::storage::{
    try_deserialize_record, try_serialize_record, Chunk, RecordHeader, RecordKind, Scratchpad, Transaction,
};
use ant_registers::SignedRegister;
use libp2p::kad::{Record, RecordKey};

pub const ALL_KINDS: [RecordKind; 8] = [
    RecordKind::ChunkWithPayment,
    RecordKind::Chunk,
    RecordKind::Transaction,
    RecordKind::Register,
    RecordKind::RegisterWithPayment,
    RecordKind::Scratchpad,
    RecordKind::ScratchpadWithPayment,
    RecordKind::TransactionWithPayment,
];

/// The frozen tag table of the property statement / DESIGN §3 C12.
pub fn frozen_tag(kind: RecordKind) -> u8 {
    match kind {
        RecordKind::ChunkWithPayment => 0,
        RecordKind::Chunk => 1,
        RecordKind::Transaction => 2,
        RecordKind::Register => 3,
        RecordKind::RegisterWithPayment => 4,
        RecordKind::Scratchpad => 5,
        RecordKind::ScratchpadWithPayment => 6,
        RecordKind::TransactionWithPayment => 7,
    }
}

pub fn kind_of_tag(tag: u8) -> Option<RecordKind> {
    ALL_KINDS.iter().copied().find(|k| frozen_tag(*k) == tag)
}

pub fn kind_name(kind: RecordKind) -> &'static str {
    match kind {
        RecordKind::ChunkWithPayment => "ChunkWithPayment",
        RecordKind::Chunk => "Chunk",
        RecordKind::Transaction => "Transaction",
        RecordKind::Register => "Register",
        RecordKind::RegisterWithPayment => "RegisterWithPayment",
        RecordKind::Scratchpad => "Scratchpad",
        RecordKind::ScratchpadWithPayment => "ScratchpadWithPayment",
        RecordKind::TransactionWithPayment => "TransactionWithPayment",
    }
}

/// independent SHA3-256 (content address of a chunk)
pub fn sha3_256(input: &[u8]) -> [u8; 32] {
    use tiny_keccak::{Hasher, Sha3};
    let mut sha3 = Sha3::v256();
    let mut out = [0u8; 32];
    sha3.update(input);
    sha3.finalize(&mut out);
    out
}

/// What a node stores / sends under each kind (put_validation.rs, client put paths).
#[derive(Clone, Debug, PartialEq)]
pub enum RecVal {
    Chunk(Chunk),
    ChunkPaid(ProofOfPayment, Chunk),
    Transactions(Vec<Transaction>),
    TransactionPaid(ProofOfPayment, Transaction),
    Register(SignedRegister),
    RegisterPaid(ProofOfPayment, SignedRegister),
    Scratchpad(Scratchpad),
    ScratchpadPaid(ProofOfPayment, Scratchpad),
}

impl RecVal {
    pub fn kind(&self) -> RecordKind {
        match self {
            RecVal::Chunk(_) => RecordKind::Chunk,
            RecVal::ChunkPaid(..) => RecordKind::ChunkWithPayment,
            RecVal::Transactions(_) => RecordKind::Transaction,
            RecVal::TransactionPaid(..) => RecordKind::TransactionWithPayment,
            RecVal::Register(_) => RecordKind::Register,
            RecVal::RegisterPaid(..) => RecordKind::RegisterWithPayment,
            RecVal::Scratchpad(_) => RecordKind::Scratchpad,
            RecVal::ScratchpadPaid(..) => RecordKind::ScratchpadWithPayment,
        }
    }

    /// the repository's encoder: header + payload
    pub fn encode(&self) -> Result<Vec<u8>, String> {
        let k = self.kind();
        let r = match self {
            RecVal::Chunk(c) => try_serialize_record(c, k),
            RecVal::ChunkPaid(p, c) => try_serialize_record(&(p, c), k),
            RecVal::Transactions(t) => try_serialize_record(t, k),
            RecVal::TransactionPaid(p, t) => try_serialize_record(&(p, t), k),
            RecVal::Register(r) => try_serialize_record(r, k),
            RecVal::RegisterPaid(p, r) => try_serialize_record(&(p, r), k),
            RecVal::Scratchpad(s) => try_serialize_record(s, k),
            RecVal::ScratchpadPaid(p, s) => try_serialize_record(&(p, s), k),
        };
        r.map(|b| b.to_vec()).map_err(|e| format!("{e:?}"))
    }

    /// the payload alone, through a plain msgpack encoder (no header involved)
    pub fn payload_msgpack(&self) -> Result<Vec<u8>, String> {
        let r = match self {
            RecVal::Chunk(c) => rmp_serde::to_vec(c),
            RecVal::ChunkPaid(p, c) => rmp_serde::to_vec(&(p, c)),
            RecVal::Transactions(t) => rmp_serde::to_vec(t),
            RecVal::TransactionPaid(p, t) => rmp_serde::to_vec(&(p, t)),
            RecVal::Register(r) => rmp_serde::to_vec(r),
            RecVal::RegisterPaid(p, r) => rmp_serde::to_vec(&(p, r)),
            RecVal::Scratchpad(s) => rmp_serde::to_vec(s),
            RecVal::ScratchpadPaid(p, s) => rmp_serde::to_vec(&(p, s)),
        };
        r.map_err(|e| format!("{e:?}"))
    }

    pub fn chunk(&self) -> Option<&Chunk> {
        match self {
            RecVal::Chunk(c) | RecVal::ChunkPaid(_, c) => Some(c),
            _ => None,
        }
    }

    pub fn has_payment(&self) -> bool {
        matches!(self, RecVal::ChunkPaid(..) | RecVal::TransactionPaid(..) | RecVal::RegisterPaid(..) | RecVal::ScratchpadPaid(..))
    }
}

pub fn record_of(bytes: &[u8]) -> Record {
    Record {
        key: RecordKey::new(&[0u8; 32]),
        value: bytes.to_vec(),
        publisher: None,
        expires: None,
    }
}

/// the repository's typed decoder for `kind`
pub fn decode_as(kind: RecordKind, rec: &Record) -> Result<RecVal, String> {
    let r = match kind {
        RecordKind::Chunk => try_deserialize_record::<Chunk>(rec).map(RecVal::Chunk),
        RecordKind::ChunkWithPayment => try_deserialize_record::<(ProofOfPayment, Chunk)>(rec).map(|(p, c)| RecVal::ChunkPaid(p, c)),
        RecordKind::Transaction => try_deserialize_record::<Vec<Transaction>>(rec).map(RecVal::Transactions),
        RecordKind::TransactionWithPayment => {
            try_deserialize_record::<(ProofOfPayment, Transaction)>(rec).map(|(p, t)| RecVal::TransactionPaid(p, t))
        }
        RecordKind::Register => try_deserialize_record::<SignedRegister>(rec).map(RecVal::Register),
        RecordKind::RegisterWithPayment => {
            try_deserialize_record::<(ProofOfPayment, SignedRegister)>(rec).map(|(p, r)| RecVal::RegisterPaid(p, r))
        }
        RecordKind::Scratchpad => try_deserialize_record::<Scratchpad>(rec).map(RecVal::Scratchpad),
        RecordKind::ScratchpadWithPayment => {
            try_deserialize_record::<(ProofOfPayment, Scratchpad)>(rec).map(|(p, s)| RecVal::ScratchpadPaid(p, s))
        }
    };
    r.map_err(|e| format!("{e:?}"))
}

pub fn encode_request(v: &Request) -> Result<Vec<u8>, String> {
    // exactly what libp2p's request_response::cbor codec does
    cbor4ii::serde::to_vec(Vec::new(), v).map_err(|e| format!("{e:?}"))
}
pub fn decode_request(b: &[u8]) -> Result<Request, String> {
    cbor4ii::serde::from_slice(b).map_err(|e| format!("{e:?}"))
}
pub fn encode_response(v: &Response) -> Result<Vec<u8>, String> {
    cbor4ii::serde::to_vec(Vec::new(), v).map_err(|e| format!("{e:?}"))
}
pub fn decode_response(b: &[u8]) -> Result<Response, String> {
    cbor4ii::serde::from_slice(b).map_err(|e| format!("{e:?}"))
}

#[derive(Default, Debug)]
pub struct Findings {
    pub fails: Vec<(String, String)>,
    pub labels: Vec<&'static str>,
    /// the input got past the header / decoded
    pub past_header: bool,
    pub decoded: bool,
}

impl Findings {
    fn fail(&mut self, sig: impl Into<String>, detail: impl Into<String>) {
        if self.fails.len() < 8 {
            self.fails.push((sig.into(), detail.into()));
        }
    }
}

fn hex_head(b: &[u8]) -> String {
    let n = b.len().min(48);
    let mut s = String::new();
    for x in &b[..n] {
        s.push_str(&format!("{x:02x}"));
    }
    if b.len() > n {
        s.push_str(&format!("…(+{} bytes)", b.len() - n));
    }
    s
}

fn try_serialize_header(kind: RecordKind) -> Result<Vec<u8>, String> {
    RecordHeader { kind }.try_serialize().map(|b| b.to_vec()).map_err(|e| format!("{e:?}"))
}

/// Judge the record decoders on one byte string. `hint` = decoder to try when the header does not decode.
pub fn judge_record_bytes(bytes: &[u8], hint: RecordKind, f: &mut Findings) {
    let rec = record_of(bytes);
    let header = RecordHeader::from_record(&rec);
    // --- header verdicts that follow from the statement alone
    if bytes.len() < RecordHeader::SIZE {
        if header.is_ok() {
            f.fail("header_ok_on_short_input", format!("{} byte(s) decode to a header: {}", bytes.len(), hex_head(bytes)));
        }
    } else if bytes.len() > RecordHeader::SIZE && bytes[0] == 0x91 && bytes[1] <= 0x7f {
        // msgpack: one-element array holding a positive fixint = the tag, in exactly SIZE bytes
        match (kind_of_tag(bytes[1]), &header) {
            (Some(k), Ok(h)) => {
                if h.kind != k {
                    f.fail(
                        format!("tag_number_changed/{}", kind_name(k)),
                        format!("tag {} is frozen as {} but decodes as {:?}", bytes[1], kind_name(k), h.kind),
                    );
                }
            }
            (Some(k), Err(e)) => f.fail(
                format!("frozen_tag_rejected/{}", kind_name(k)),
                format!("header 91 {:02x} (frozen {}) rejected: {e:?}", bytes[1], kind_name(k)),
            ),
            (None, Ok(h)) => f.fail("unknown_kind_accepted", format!("tag {} is no kind, decoded as {:?}", bytes[1], h.kind)),
            (None, Err(_)) => f.labels.push("unknown_kind_rejected"),
        }
    } else if header.is_ok() {
        f.labels.push("noncanonical_header_accepted(either)");
    }
    let kind = match &header {
        Ok(h) => {
            f.past_header = true;
            h.kind
        }
        Err(_) => hint,
    };
    // --- typed decode, re-encode, decode again
    match decode_as(kind, &rec) {
        Err(_) => f.labels.push("typed_decode_err"),
        Ok(v) => {
            f.decoded = true;
            f.labels.push("typed_decode_ok");
            if let Some(c) = v.chunk() {
                if c.address().xorname().0 != sha3_256(c.value()) {
                    f.fail("chunk_address_not_recomputed", format!("decoded chunk address {:?} is not the hash of its {} bytes", c.address(), c.value().len()));
                }
            }
            // "the tag occupies a fixed-size prefix": what was decoded is what sits behind the first SIZE
            // bytes, i.e. the same bytes behind the canonical SIZE-byte header of that kind decode to
            // the same value
            if bytes.len() > RecordHeader::SIZE {
                if let Ok(h) = try_serialize_header(kind) {
                    let mut canon = h;
                    canon.extend_from_slice(&bytes[RecordHeader::SIZE..]);
                    match decode_as(kind, &record_of(&canon)) {
                        Ok(v2) if v2 == v => {}
                        other => f.fail(
                            format!("content_not_at_fixed_offset/{}", kind_name(kind)),
                            format!("{} decodes as {}, but bytes[SIZE..] behind the canonical {}-byte header gives {}", hex_head(bytes), kind_name(kind), RecordHeader::SIZE, if other.is_ok() { "another value".to_string() } else { "an error".to_string() }),
                        ),
                    }
                }
            }
            match v.encode() {
                Err(e) => f.fail("reencode_failed", format!("{} decoded from {} cannot be encoded: {e}", kind_name(kind), hex_head(bytes))),
                Ok(enc) => match decode_as(kind, &record_of(&enc)) {
                    Ok(v2) if v2 == v => {}
                    Ok(_) => f.fail(format!("reencode_changes_value/{}", kind_name(kind)), format!("decode(encode(v)) != v for v decoded from {}", hex_head(bytes))),
                    Err(e) => f.fail(format!("reencode_not_decodable/{}", kind_name(kind)), format!("encode(v) is rejected ({e}) for v decoded from {}", hex_head(bytes))),
                },
            }
        }
    }
}

macro_rules! judge_msg {
    ($name:ident, $dec:ident, $enc:ident, $what:literal) => {
        pub fn $name(bytes: &[u8], f: &mut Findings) {
            match $dec(bytes) {
                Err(_) => f.labels.push("decode_err"),
                Ok(v) => {
                    f.decoded = true;
                    f.past_header = true;
                    f.labels.push("decode_ok");
                    match $enc(&v) {
                        Err(e) => f.fail(concat!("reencode_failed/", $what), format!("decoded from {} cannot be encoded: {e}", hex_head(bytes))),
                        Ok(enc) => match $dec(&enc) {
                            Ok(v2) if v2 == v => {}
                            Ok(_) => f.fail(concat!("reencode_changes_value/", $what), format!("decode(encode(v)) != v for v decoded from {}", hex_head(bytes))),
                            Err(e) => f.fail(concat!("reencode_not_decodable/", $what), format!("encode(v) rejected ({e}) for v decoded from {}", hex_head(bytes))),
                        },
                    }
                }
            }
        }
    };
}
judge_msg!(judge_request_bytes, decode_request, encode_request, "Request");
judge_msg!(judge_response_bytes, decode_response, encode_response, "Response");
