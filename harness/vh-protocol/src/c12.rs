//! C12 — record and message encodings round-trip and stay wire-stable.
//!
//! Sections: header_table (exhaustive), record_roundtrip, message_roundtrip, goldens (byte-exact
//! differential against /verif/goldens/C12, both directions), chunk_address, decode_bytes,
//! golden_mutations (exhaustive truncations / bit flips / tag rewrites of every golden) and, in the
//! thorough tier, the libFuzzer targets under /verif/fuzz.

use crate::c12_oracle::*;
use crate::c12_values::*;
use crate::common::proof_of;
use ant_protocol::error::Error as ProtoError;
use ant_protocol::messages::{Cmd, CmdResponse, Query, QueryResponse, Request, Response};
use ant_protocol::storage::{RecordHeader, RecordKind, RecordType};
use ant_protocol::NetworkAddress;
use proptest::prelude::*;
use serde::{Deserialize, Serialize};
use serde_json::json;
use std::collections::{BTreeMap, BTreeSet};
use std::path::{Path, PathBuf};
use std::sync::OnceLock;
use std::time::{Duration, Instant};
use vh_core::{Ctx, Failure, Report, RunCfg, SectionStats, Tier};

fn absorb(ctx: &mut Ctx, f: Findings) {
    for l in f.labels {
        ctx.label(l);
    }
    for (s, d) in f.fails {
        ctx.fail(s, d);
    }
}

// ------------------------------------------------------------------------------------------------
// header table (exhaustive)
// ------------------------------------------------------------------------------------------------

fn header_table(rep: &mut Report) {
    let t0 = Instant::now();
    let mut st = SectionStats {
        name: "header_table".into(),
        rule: "exhaustive: all 8 kinds (header bytes, size, tag) and all 256 tag values through from_record".into(),
        exhaustive: true,
        ..Default::default()
    };
    let mut fails: Vec<(String, String, serde_json::Value)> = vec![];
    for kind in ALL_KINDS {
        st.evaluations += 1;
        st.nontrivial_hashes.insert(frozen_tag(kind) as u64);
        let r = vh_core::catch_panic(|| RecordHeader { kind }.try_serialize());
        match r {
            Err(p) => fails.push((format!("panic:header_encode/{}", kind_name(kind)), p, json!({"kind": kind_name(kind)}))),
            Ok(Err(e)) => fails.push((format!("header_encode_failed/{}", kind_name(kind)), format!("{e:?}"), json!({"kind": kind_name(kind)}))),
            Ok(Ok(b)) => {
                if b.len() != RecordHeader::SIZE {
                    fails.push((format!("header_size/{}", kind_name(kind)), format!("header of {} is {} bytes, RecordHeader::SIZE = {}", kind_name(kind), b.len(), RecordHeader::SIZE), json!({"kind": kind_name(kind)})));
                }
                // an independent msgpack reader sees a one-element array holding the frozen number
                match rmp_serde::from_slice::<(u32,)>(&b) {
                    Ok((n,)) if n == frozen_tag(kind) as u32 => {}
                    other => fails.push((format!("tag_number_changed/{}", kind_name(kind)), format!("header of {} carries {other:?}, frozen tag is {}", kind_name(kind), frozen_tag(kind)), json!({"kind": kind_name(kind)}))),
                }
                match RecordHeader::try_deserialize(&b) {
                    Ok(h) if h.kind == kind => {}
                    other => fails.push((format!("header_roundtrip/{}", kind_name(kind)), format!("{other:?}"), json!({"kind": kind_name(kind)}))),
                }
            }
        }
    }
    for tag in 0u16..=255 {
        st.evaluations += 1;
        let bytes = [0x91u8, tag as u8, 0xc4, 0x00];
        let mut f = Findings::default();
        if let Err(p) = vh_core::catch_panic(|| judge_record_bytes(&bytes, RecordKind::Chunk, &mut f)) {
            fails.push(("panic:from_record".into(), p, json!({"bytes": hex::encode(bytes)})));
        }
        for (s, d) in f.fails {
            fails.push((s, d, json!({"bytes": hex::encode(bytes)})));
        }
        *st.classes.entry(if tag < 8 { "known_tag".into() } else { "unknown_tag".to_string() }).or_default() += 1;
    }
    st.wall_s = t0.elapsed().as_secs_f64();
    rep.add_manual(st);
    let mut seen = BTreeSet::new();
    for (sig, detail, case) in fails {
        if seen.insert(sig.clone()) {
            rep.manual_violation("header_table", Failure { sig, detail }, &case);
        }
    }
}

// ------------------------------------------------------------------------------------------------
// record round trip
// ------------------------------------------------------------------------------------------------

pub fn check_record(c: &RecCase, ctx: &mut Ctx) {
    let v = match c.build() {
        Ok(v) => v,
        Err(e) => {
            ctx.fail("record_value_layout_changed", e);
            return;
        }
    };
    let kind = v.kind();
    ctx.label(format!("kind/{}", kind_name(kind)));
    if let Some(p) = &c.payment {
        ctx.label(format!("proof_quotes/{}", p.len()));
    }
    let nested = match &c.value {
        RecSpec::Register { ops, .. } => !ops.is_empty(),
        RecSpec::Transactions(t) => t.iter().any(|t| !t.parents.is_empty() || !t.outputs.is_empty()),
        _ => false,
    };
    ctx.label_if(c.payload_nonempty(), "payload_nonempty");
    ctx.nontrivial_if(c.payload_nonempty() && (c.payment.is_some() || nested));
    ctx.sample = Some(json!({"kind": kind_name(kind), "proof_quotes": c.payment.as_ref().map(|p| p.len()), "value": match &c.value {
        RecSpec::Chunk { data, forged_address } => json!({"chunk_len": data.len(), "forged_address": forged_address.is_some()}),
        RecSpec::Scratchpad { counter, data, sig, .. } => json!({"scratchpad_counter": counter, "data_len": data.len(), "sig": format!("{sig:?}")}),
        RecSpec::Transactions(t) => json!({"transactions": t.len()}),
        RecSpec::Register { ops, writers, .. } => json!({"register_ops": ops.len(), "writers": writers}),
    }}));

    if let Some(k) = c.after_failed_encode {
        let failed = crate::c12_values::encode_that_fails(k);
        ctx.label(if failed { "encoded_right_after_a_failed_encode" } else { "poison_encode_unexpectedly_succeeded" });
    }
    let enc = match v.encode() {
        Ok(e) => e,
        Err(e) => {
            ctx.fail(format!("encode_failed/{}", kind_name(kind)), e);
            return;
        }
    };
    ctx.canon = Some(format!("{:x}/{:?}", vh_core::stable_hash(&enc), c.after_failed_encode.map(|k| k % 4)));
    // the tag is a fixed-size prefix: the remainder is the plain encoding of the value
    match v.payload_msgpack() {
        Ok(p) => {
            if enc.len() != RecordHeader::SIZE + p.len() || enc[RecordHeader::SIZE.min(enc.len())..] != p[..] {
                ctx.fail("header_not_fixed_size_prefix", format!("{}: encoding is {} bytes, payload alone {} bytes, RecordHeader::SIZE {}", kind_name(kind), enc.len(), p.len(), RecordHeader::SIZE));
            }
        }
        Err(e) => ctx.fail("payload_encode_failed", e),
    }
    if enc.len() >= RecordHeader::SIZE {
        match rmp_serde::from_slice::<(u32,)>(&enc[..RecordHeader::SIZE]) {
            Ok((n,)) if n == frozen_tag(kind) as u32 => {}
            other => ctx.fail(format!("tag_number_changed/{}", kind_name(kind)), format!("prefix {} reads as {other:?}, frozen tag of {} is {}", hex::encode(&enc[..RecordHeader::SIZE]), kind_name(kind), frozen_tag(kind))),
        }
        match RecordHeader::try_deserialize(&enc[..RecordHeader::SIZE]) {
            Ok(h) if h.kind == kind => {}
            other => ctx.fail(format!("header_prefix_decode/{}", kind_name(kind)), format!("first SIZE bytes decode to {other:?}")),
        }
    }
    let rec = record_of(&enc);
    match ctx.no_panic("RecordHeader::from_record", || RecordHeader::from_record(&rec)) {
        Some(Ok(h)) if h.kind == kind => {}
        Some(other) => ctx.fail(format!("from_record_kind_mismatch/{}", kind_name(kind)), format!("encoded as {}, from_record gives {other:?}", kind_name(kind))),
        None => {}
    }
    // the kind query used by the node ("is this record a chunk?") is a reading of the same tag
    match ctx.no_panic("RecordHeader::is_record_of_type_chunk", || RecordHeader::is_record_of_type_chunk(&rec)) {
        Some(Ok(is_chunk)) if is_chunk == (kind == RecordKind::Chunk) => {}
        Some(other) => ctx.fail(format!("is_record_of_type_chunk_wrong/{}", kind_name(kind)), format!("encoded as {}, is_record_of_type_chunk gives {other:?}", kind_name(kind))),
        None => {}
    }
    // the generic judgement (frozen tag accepted, re-encode stable, chunk address recomputed)
    let mut f = Findings::default();
    if ctx.no_panic("decoders", || judge_record_bytes(&enc, kind, &mut f)).is_some() {
        f.labels.clear();
        absorb(ctx, f);
    }
    // decode gives an equal value — except that a chunk's address is recomputed from its bytes
    let expected = match &v {
        RecVal::Chunk(c) => RecVal::Chunk(ant_protocol::storage::Chunk::new(c.value.clone())),
        RecVal::ChunkPaid(p, c) => RecVal::ChunkPaid(p.clone(), ant_protocol::storage::Chunk::new(c.value.clone())),
        other => other.clone(),
    };
    match ctx.no_panic("try_deserialize_record", || decode_as(kind, &rec)) {
        Some(Ok(got)) => {
            if let (Some(gc), RecSpec::Chunk { data, forged_address }) = (got.chunk(), &c.value) {
                let want = sha3_256(&data.bytes());
                ctx.label_if(forged_address.is_some(), "chunk_forged_address_in_memory");
                if gc.address().xorname().0 != want {
                    ctx.fail("chunk_address_not_recomputed", format!("decoded address {:?}, hash of the {} bytes is {}, address handed to the encoder {:?}", gc.address(), data.len(), hex::encode(want), forged_address.map(hex::encode)));
                }
            }
            if got != expected {
                ctx.fail(format!("roundtrip_value_changed/{}", kind_name(kind)), format!("decode(encode(v)) != v for {}", kind_name(kind)));
            }
        }
        Some(Err(e)) => ctx.fail(format!("roundtrip_decode_failed/{}", kind_name(kind)), e),
        None => {}
    }
}

// ------------------------------------------------------------------------------------------------
// message round trip
// ------------------------------------------------------------------------------------------------

pub fn check_message(m: &MsgSpec, ctx: &mut Ctx) {
    match m {
        MsgSpec::Req(r) => {
            ctx.label(format!("request/{}", r.variant()));
            ctx.nontrivial_if(r.nested());
            let v = r.build();
            let Some(enc) = ctx.no_panic("encode_request", || encode_request(&v)) else { return };
            let enc = match enc {
                Ok(e) => e,
                Err(e) => {
                    ctx.fail(format!("encode_failed/Request::{}", r.variant()), e);
                    return;
                }
            };
            ctx.canon = Some(format!("{:x}", vh_core::stable_hash(&enc)));
            ctx.sample = Some(json!({"request": r.variant(), "encoded_len": enc.len()}));
            match ctx.no_panic("decode_request", || decode_request(&enc)) {
                Some(Ok(got)) => {
                    if got != v {
                        ctx.fail(format!("roundtrip_value_changed/Request::{}", r.variant()), format!("decode(encode(v)) != v; v = {v:?}; got {got:?}"));
                    }
                }
                Some(Err(e)) => ctx.fail(format!("roundtrip_decode_failed/Request::{}", r.variant()), format!("{e}; v = {v:?}")),
                None => {}
            }
        }
        MsgSpec::Resp(r) => {
            ctx.label(format!("response/{}", r.variant()));
            ctx.label_if(r.has_error(), "nested_error");
            ctx.nontrivial_if(!matches!(r, RespSpec::CmdReplicate(None) | RespSpec::CmdPeerConsideredAsBad(None)));
            let v = r.build();
            let Some(enc) = ctx.no_panic("encode_response", || encode_response(&v)) else { return };
            let enc = match enc {
                Ok(e) => e,
                Err(e) => {
                    ctx.fail(format!("encode_failed/Response::{}", r.variant()), e);
                    return;
                }
            };
            ctx.canon = Some(format!("{:x}", vh_core::stable_hash(&enc)));
            ctx.sample = Some(json!({"response": r.variant(), "has_error": r.has_error(), "encoded_len": enc.len()}));
            match ctx.no_panic("decode_response", || decode_response(&enc)) {
                Some(Ok(got)) => {
                    if got != v {
                        ctx.fail(format!("roundtrip_value_changed/Response::{}", r.variant()), format!("decode(encode(v)) != v; v = {v:?}; got {got:?}"));
                    }
                }
                Some(Err(e)) => ctx.fail(format!("roundtrip_decode_failed/Response::{}", r.variant()), format!("{e}; v = {v:?}")),
                None => {}
            }
        }
    }
}

// ------------------------------------------------------------------------------------------------
// goldens
// ------------------------------------------------------------------------------------------------

#[derive(Clone, Copy, PartialEq, Eq, Debug)]
enum Target {
    Record,
    Request,
    Response,
}

struct PoolItem {
    name: String,
    target: Target,
    kind: RecordKind,
    bytes: Vec<u8>,
    large: bool,
}

/// current-tree encodings of the catalogue (also the mutation pool of the byte sections)
fn pool() -> &'static Vec<PoolItem> {
    static POOL: OnceLock<Vec<PoolItem>> = OnceLock::new();
    POOL.get_or_init(|| {
        let mut v = vec![];
        for (name, item) in catalogue() {
            let Ok(bytes) = vh_core::catch_panic(|| encode_item(&item)).unwrap_or_else(|p| Err(p)) else { continue };
            let (target, kind) = match &item {
                GoldenItem::Rec(c) => (Target::Record, c.build().map(|v| v.kind()).unwrap_or(RecordKind::Chunk)),
                GoldenItem::Req(_) => (Target::Request, RecordKind::Chunk),
                GoldenItem::Resp(_) => (Target::Response, RecordKind::Chunk),
            };
            v.push(PoolItem { large: bytes.len() > 8192, name, target, kind, bytes });
        }
        v
    })
}

fn goldens_dir(root: &Path) -> PathBuf {
    root.join("goldens").join("C12")
}

fn goldens(rep: &mut Report) {
    let t0 = Instant::now();
    let dir = goldens_dir(&rep.cfg.root);
    let mut st = SectionStats {
        name: "goldens".into(),
        rule: "fixed catalogue (every record kind ± proofs of 0/1/3 quotes, every Cmd/Query/CmdResponse/QueryResponse variant, every NetworkAddress and RecordType variant, every Error variant) encoded by the current tree and compared byte-exact with the frozen files; the frozen bytes are also decoded by the current tree and compared with the catalogue value".into(),
        exhaustive: true,
        ..Default::default()
    };
    let cat = catalogue();
    let cat2 = catalogue();
    let mut viol: Vec<(String, String, serde_json::Value)> = vec![];
    let write = std::env::var_os("VERIF_WRITE_GOLDENS").is_some();
    if write {
        let _ = std::fs::create_dir_all(&dir);
        if let Ok(rd) = std::fs::read_dir(&dir) {
            for e in rd.flatten() {
                if e.path().extension().map(|x| x == "hex").unwrap_or(false) {
                    let _ = std::fs::remove_file(e.path());
                }
            }
        }
    } else if !dir.is_dir() {
        // without the frozen encodings wire stability cannot be judged at all: inconclusive (exit 2)
        eprintln!("C12: no goldens at {}; generate them once on the pinned tree with VERIF_WRITE_GOLDENS=1 (inconclusive)", dir.display());
        std::process::exit(2);
    }
    let mut names = BTreeSet::new();
    for ((name, item), (_, item2)) in cat.iter().zip(cat2.iter()) {
        st.evaluations += 1;
        names.insert(name.clone());
        let case = json!({"golden": name});
        let enc = match vh_core::catch_panic(|| encode_item(item)) {
            Ok(Ok(b)) => b,
            Ok(Err(e)) => {
                viol.push((format!("golden_value_unbuildable/{name}"), e, case));
                continue;
            }
            Err(p) => {
                viol.push((format!("panic:golden_encode/{name}"), p, case));
                continue;
            }
        };
        // signatures and every other byte must be reproducible (no clock, no RNG)
        match vh_core::catch_panic(|| encode_item(item2)) {
            Ok(Ok(b2)) if b2 == enc => {}
            _ => viol.push((format!("encoding_not_deterministic/{name}"), "two encodings of the same catalogue value differ within one process".into(), case.clone())),
        }
        st.nontrivial_hashes.insert(vh_core::stable_hash(&enc));
        let group = name.split('-').next().unwrap_or("?").to_string();
        *st.classes.entry(group).or_default() += 1;
        let path = dir.join(format!("{name}.hex"));
        if write {
            if let Err(e) = std::fs::write(&path, format!("{}\n", hex::encode(&enc))) {
                eprintln!("cannot write {}: {e}", path.display());
                std::process::exit(2);
            }
            continue;
        }
        let frozen = match std::fs::read_to_string(&path).ok().and_then(|s| hex::decode(s.trim()).ok()) {
            Some(b) => b,
            None => {
                viol.push((format!("golden_missing/{name}"), format!("{} missing or not hex; regenerate only on the pinned tree", path.display()), case));
                continue;
            }
        };
        if frozen != enc {
            let at = frozen.iter().zip(enc.iter()).position(|(a, b)| a != b).unwrap_or(frozen.len().min(enc.len()));
            let lo = at.saturating_sub(8);
            viol.push((
                format!("golden_mismatch/{name}"),
                format!(
                    "current encoding ({} B) differs from the frozen one ({} B) at offset {at}: frozen …{} current …{}",
                    enc.len(),
                    frozen.len(),
                    hex::encode(&frozen[lo..(at + 12).min(frozen.len())]),
                    hex::encode(&enc[lo..(at + 12).min(enc.len())])
                ),
                case.clone(),
            ));
        }
        // old bytes → current decoder → the catalogue value (an old node's message still means the same)
        let decoded_same = vh_core::catch_panic(|| match item {
            GoldenItem::Rec(c) => {
                let v = c.build()?;
                let expected = match &v {
                    RecVal::Chunk(c) => RecVal::Chunk(ant_protocol::storage::Chunk::new(c.value.clone())),
                    RecVal::ChunkPaid(p, c) => RecVal::ChunkPaid(p.clone(), ant_protocol::storage::Chunk::new(c.value.clone())),
                    o => o.clone(),
                };
                let rec = record_of(&frozen);
                let h = RecordHeader::from_record(&rec).map_err(|e| format!("header: {e:?}"))?;
                if h.kind != v.kind() {
                    return Err(format!("frozen header decodes as {:?}, catalogue kind {:?}", h.kind, v.kind()));
                }
                let got = decode_as(v.kind(), &rec)?;
                if got == expected { Ok(()) } else { Err("decoded value differs from the catalogue value".to_string()) }
            }
            GoldenItem::Req(r) => {
                let got = decode_request(&frozen)?;
                if got == r.build() { Ok(()) } else { Err(format!("decoded {got:?}, catalogue {:?}", r.build())) }
            }
            GoldenItem::Resp(r) => {
                let got = decode_response(&frozen)?;
                if got == r.build() { Ok(()) } else { Err(format!("decoded {got:?}, catalogue {:?}", r.build())) }
            }
        });
        match decoded_same {
            Ok(Ok(())) => {}
            Ok(Err(e)) => viol.push((format!("golden_decodes_differently/{name}"), e, case)),
            Err(p) => viol.push((format!("panic:golden_decode/{name}"), p, case)),
        }
    }
    if write {
        eprintln!("C12: wrote {} goldens to {}", names.len(), dir.display());
        st.extra.insert("goldens_written".into(), json!(names.len()));
    } else if let Ok(rd) = std::fs::read_dir(&dir) {
        let stale: Vec<String> = rd
            .flatten()
            .filter_map(|e| e.path().file_stem().map(|s| s.to_string_lossy().to_string()))
            .filter(|s| !names.contains(s))
            .collect();
        if !stale.is_empty() {
            eprintln!("C12: golden files without a catalogue entry (ignored): {stale:?}");
            st.extra.insert("stale_golden_files".into(), json!(stale));
        }
    }

    // coverage self-check of the catalogue against the enums as they are now (not an oracle)
    let mut req_names = BTreeSet::new();
    let mut resp_names = BTreeSet::new();
    for (_, item) in &cat {
        match item {
            GoldenItem::Req(r) => names_in_json(&serde_json::to_value(r.build()).unwrap_or_default(), &mut req_names),
            GoldenItem::Resp(r) => names_in_json(&serde_json::to_value(r.build()).unwrap_or_default(), &mut resp_names),
            GoldenItem::Rec(_) => {}
        }
    }
    let mut uncovered: Vec<String> = vec![];
    let mut chk = |enum_name: &str, names: Vec<String>, have: &BTreeSet<String>| {
        if names.is_empty() {
            uncovered.push(format!("{enum_name}: variant list unavailable"));
        }
        for n in names {
            if !have.contains(&n) {
                uncovered.push(format!("{enum_name}::{n}"));
            }
        }
    };
    let both: BTreeSet<String> = req_names.union(&resp_names).cloned().collect();
    chk("Request", variant_names::<Request>(), &req_names);
    chk("Cmd", variant_names::<Cmd>(), &req_names);
    chk("Query", variant_names::<Query>(), &req_names);
    chk("RecordType", variant_names::<RecordType>(), &req_names);
    chk("Response", variant_names::<Response>(), &resp_names);
    chk("CmdResponse", variant_names::<CmdResponse>(), &resp_names);
    chk("QueryResponse", variant_names::<QueryResponse>(), &resp_names);
    chk("Error", variant_names::<ProtoError>(), &resp_names);
    chk("NetworkAddress", variant_names::<NetworkAddress>(), &both);
    if !uncovered.is_empty() {
        let msg = format!("golden catalogue does not cover: {}", uncovered.join(", "));
        eprintln!("C12: {msg} (extend catalogue() in c12_values.rs; not a violation)");
        rep.inconclusive.push(msg);
    }
    st.extra.insert("catalogue_uncovered_variants".into(), json!(uncovered));
    st.extra.insert("catalogue_items".into(), json!(cat.len()));
    st.wall_s = t0.elapsed().as_secs_f64();
    rep.add_manual(st);
    for (sig, detail, case) in viol {
        rep.manual_violation("goldens", Failure { sig, detail }, &case);
    }
}

// ------------------------------------------------------------------------------------------------
// chunk address cannot be forged through the wire form
// ------------------------------------------------------------------------------------------------

#[derive(Clone, Debug, Serialize, Deserialize)]
pub struct ForgeCase {
    pub data: Blob,
    pub claimed: [u8; 32],
    /// how the forged address is smuggled in
    pub form: u8,
    pub paid: Option<Vec<crate::common::QuoteSpec>>,
}

fn forge_strategy() -> BoxedStrategy<ForgeCase> {
    (
        blob_strategy(2048),
        any::<[u8; 32]>(),
        0u8..11,
        proptest::option::weighted(0.3, proptest::collection::vec(crate::common::quote_strategy(ED_KEYS), 0..3)),
    )
        .prop_map(|(data, claimed, form, paid)| ForgeCase { data, claimed, form, paid })
        .boxed()
}

fn mp_bin(b: &[u8]) -> Vec<u8> {
    let mut out = vec![];
    rmp_serde::encode::write(&mut out, &serde_bytes_like(b)).expect("vec write");
    out
}
fn serde_bytes_like(b: &[u8]) -> bytes::Bytes {
    bytes::Bytes::copy_from_slice(b)
}
fn mp_str(s: &str) -> Vec<u8> {
    rmp_serde::to_vec(s).expect("str")
}

fn check_forge(c: &ForgeCase, ctx: &mut Ctx) {
    let data = c.data.bytes();
    let want = sha3_256(&data);
    let value = mp_bin(&data);
    let addr_bin = mp_bin(&c.claimed);
    let addr_arr = rmp_serde::to_vec(&c.claimed).expect("array");
    // candidate wire forms that try to carry an address next to (or instead of) the bytes
    // a name is also spelled as 64 hex characters in human-readable places; a tolerant reader may take that too
    let addr_hex = mp_str(&hex::encode(c.claimed));
    let crafted: Vec<u8> = match c.form % 11 {
        0 => [vec![0x92], addr_bin.clone(), value.clone()].concat(),
        1 => [vec![0x92], value.clone(), addr_bin.clone()].concat(),
        2 => [vec![0x92], addr_arr.clone(), value.clone()].concat(),
        3 => [vec![0x82], mp_str("address"), addr_bin.clone(), mp_str("value"), value.clone()].concat(),
        4 => [vec![0x82], mp_str("address"), addr_arr.clone(), mp_str("value"), value.clone()].concat(),
        // the plain form followed by an address (trailing bytes)
        5 => [value.clone(), addr_bin.clone()].concat(),
        // the derived-serde layout of a struct { address: ChunkAddress(XorName), value }
        6 => [vec![0x92, 0x91], addr_arr.clone(), value.clone()].concat(),
        7 => [vec![0x92], addr_hex.clone(), value.clone()].concat(),
        8 => [vec![0x92], value.clone(), addr_hex.clone()].concat(),
        9 => [vec![0x82], mp_str("address"), addr_hex.clone(), mp_str("value"), value.clone()].concat(),
        _ => [vec![0x92, 0x91], addr_hex.clone(), value.clone()].concat(),
    };
    let (kind, payload) = match &c.paid {
        None => (RecordKind::Chunk, crafted),
        Some(q) => {
            let proof = rmp_serde::to_vec(&proof_of(q)).expect("proof encodes");
            (RecordKind::ChunkWithPayment, [vec![0x92], proof, crafted].concat())
        }
    };
    let bytes = [vec![0x91, frozen_tag(kind)], payload].concat();
    ctx.label(format!("form/{}", c.form % 11));
    ctx.label(kind_name(kind));
    ctx.nontrivial_if(!data.is_empty());
    ctx.canon = Some(format!("{:x}", vh_core::stable_hash(&bytes)));
    ctx.sample = Some(json!({"form": c.form % 11, "len": data.len(), "kind": kind_name(kind)}));
    let rec = record_of(&bytes);
    match ctx.no_panic("try_deserialize_record", || decode_as(kind, &rec)) {
        Some(Ok(v)) => {
            ctx.label("crafted_form_accepted");
            if let Some(ch) = v.chunk() {
                let real = sha3_256(ch.value());
                if ch.address().xorname().0 != real {
                    ctx.fail("chunk_address_forged_through_wire", format!("form {}: decoded address {:?} is not the hash of the decoded bytes ({})", c.form % 11, ch.address(), hex::encode(real)));
                }
                if ch.address().xorname().0 == c.claimed && c.claimed != want && c.claimed != real {
                    ctx.fail("chunk_address_forged_through_wire", "decoded address equals the smuggled one".to_string());
                }
            }
        }
        Some(Err(_)) => ctx.label("crafted_form_rejected"),
        None => {}
    }
}


// ------------------------------------------------------------------------------------------------
// section hostile_quote_time: the time of a quote is wire data. No honest encoder emits a time that
// does not fit the platform's clock type, a sender may: the decoders of paid records, proofs and quotes
// must answer such bytes with an error (or a value), never crash.
// ------------------------------------------------------------------------------------------------

#[derive(Clone, Debug, Serialize, Deserialize)]
pub struct HostileTimeCase {
    pub quotes: Vec<crate::common::QuoteSpec>,
    /// which quote of the proof is re-dated
    pub which: u8,
    pub secs: u64,
    pub nanos: u32,
    /// 0..4: the four paid record kinds; 4: a bare ProofOfPayment; 5: a bare PaymentQuote
    pub carrier: u8,
}

fn hostile_time_strategy() -> BoxedStrategy<HostileTimeCase> {
    let secs = prop_oneof![
        2 => Just(u64::MAX),
        2 => Just(i64::MAX as u64 + 1),
        1 => Just(i64::MAX as u64),
        1 => Just(i64::MAX as u64 - 1),
        1 => (u64::MAX - 1_000_000_000)..=u64::MAX,
        1 => (1u64 << 62)..(1u64 << 63),
        1 => any::<u64>(),
        1 => 1_600_000_000u64..1_900_000_000,
    ];
    let nanos = prop_oneof![2 => Just(0u32), 1 => Just(999_999_999u32), 2 => Just(1_000_000_000u32), 1 => Just(u32::MAX), 1 => any::<u32>()];
    (proptest::collection::vec(crate::common::quote_strategy(ED_KEYS), 1..3), any::<u8>(), secs, nanos, 0u8..6)
        .prop_map(|(quotes, which, secs, nanos, carrier)| HostileTimeCase { quotes, which, secs, nanos, carrier })
        .boxed()
}

/// `PaymentQuote` with its time spelled as the pair serde writes for a `SystemTime`
#[derive(Serialize, Deserialize)]
struct QuoteTimeMirror {
    content: xor_name::XorName,
    timestamp: (u64, u32),
    quoting_metrics: ant_evm::QuotingMetrics,
    rewards_address: ant_evm::RewardsAddress,
    pub_key: Vec<u8>,
    signature: Vec<u8>,
}

fn check_hostile_time(c: &HostileTimeCase, ctx: &mut Ctx) {
    let proof = proof_of(&c.quotes);
    // through the wire form: encode honestly, read back with the time as two integers, re-date, re-encode
    let mut mirrored: Vec<(ant_evm::EncodedPeerId, QuoteTimeMirror)> = vec![];
    for (p, q) in &proof.peer_quotes {
        let bytes = rmp_serde::to_vec(q).expect("quote encodes");
        let Ok(m) = rmp_serde::from_slice::<QuoteTimeMirror>(&bytes) else {
            // the wire form of a quote is no longer (.., (secs, nanos), ..): nothing to re-date
            ctx.label("quote_wire_form_not_mirrored");
            return;
        };
        mirrored.push((p.clone(), m));
    }
    let w = c.which as usize % mirrored.len();
    mirrored[w].1.timestamp = (c.secs, c.nanos);
    let fits = c.secs <= i64::MAX as u64 && c.nanos < 1_000_000_000;
    ctx.label(if fits { "time_representable" } else { "time_not_representable" });
    ctx.nontrivial_if(!fits);
    ctx.canon = Some(format!("{}/{}/{}/{}", c.secs, c.nanos, c.carrier % 6, c.quotes.len()));
    ctx.sample = Some(json!({"secs": c.secs, "nanos": c.nanos, "carrier": c.carrier % 6}));
    let proof_bytes = rmp_serde::to_vec(&mirrored).map(|v| [vec![0x91], v].concat()).expect("mirror encodes");
    match c.carrier % 6 {
        4 => {
            ctx.label("carrier/proof");
            let _ = ctx.no_panic("decode_proof_of_payment", || rmp_serde::from_slice::<ant_evm::ProofOfPayment>(&proof_bytes).map(|_| ()));
        }
        5 => {
            ctx.label("carrier/quote");
            let qb = rmp_serde::to_vec(&mirrored[w].1).expect("mirror encodes");
            let _ = ctx.no_panic("decode_payment_quote", || rmp_serde::from_slice::<ant_evm::PaymentQuote>(&qb).map(|_| ()));
        }
        k => {
            let (kind, inner): (RecordKind, Vec<u8>) = match k {
                0 => (RecordKind::ChunkWithPayment, rmp_serde::to_vec(&ant_protocol::storage::Chunk::new(bytes::Bytes::from_static(b"paid chunk"))).expect("chunk")),
                1 => (RecordKind::ScratchpadWithPayment, rmp_serde::to_vec(&build_scratchpad(1, 7, &Blob::Lit(b"pad".to_vec()), 3, &PadSig::Owner).expect("pad")).expect("pad")),
                2 => (RecordKind::TransactionWithPayment, rmp_serde::to_vec(&build_tx(&TxSpec { owner: 1, parents: vec![], content: [5u8; 32], outputs: vec![], signer: 1 })).expect("tx")),
                _ => (RecordKind::RegisterWithPayment, rmp_serde::to_vec(&build_register(1, &[3u8; 32], &None, &[]).expect("reg")).expect("reg")),
            };
            ctx.label(format!("carrier/{}", kind_name(kind)));
            let bytes = [vec![0x91, frozen_tag(kind)], vec![0x92], proof_bytes.clone(), inner].concat();
            let rec = record_of(&bytes);
            if let Some(r) = ctx.no_panic("try_deserialize_record", || decode_as(kind, &rec)) {
                ctx.label(if r.is_ok() { "decodes" } else { "decode_error" });
                if fits && r.is_err() {
                    ctx.label("observation:representable_time_refused");
                }
            }
        }
    }
}

// ------------------------------------------------------------------------------------------------
// decoders on arbitrary and structurally mutated bytes
// ------------------------------------------------------------------------------------------------

#[derive(Clone, Debug, Serialize, Deserialize)]
pub enum ByteOp {
    Truncate(u16),
    BitFlip { pos: u16, bit: u8 },
    SetByte { pos: u16, val: u8 },
    /// records: rewrite the tag byte to 8..=255
    TagRewrite(u8),
    /// blow up the next length prefix at or after `pos` to the format's maximum
    Inflate { pos: u16 },
    /// keep our bytes up to `at`, continue with pool item `other` from `from`
    Splice { other: u16, at: u16, from: u16 },
    Insert { pos: u16, bytes: Vec<u8> },
    Delete { pos: u16, len: u8 },
    /// records: write the (unchanged) tag in a wider MessagePack form (uint8/16/32/64, int8/16/32/64,
    /// array16/array32 wrapper), which moves the content away from offset SIZE
    WidenTag(u8),
}

/// the header `91 <tag>` re-encoded in wider MessagePack form number `w` (0..10)
pub fn widen_tag(b: &[u8], w: u8) -> Option<Vec<u8>> {
    if b.len() < 2 || b[0] != 0x91 || b[1] > 0x7f {
        return None;
    }
    let t = b[1];
    let mut h: Vec<u8> = match w % 10 {
        0 => vec![0x91, 0xcc, t],
        1 => vec![0x91, 0xcd, 0, t],
        2 => vec![0x91, 0xce, 0, 0, 0, t],
        3 => vec![0x91, 0xcf, 0, 0, 0, 0, 0, 0, 0, t],
        4 => vec![0x91, 0xd0, t],
        5 => vec![0x91, 0xd1, 0, t],
        6 => vec![0x91, 0xd2, 0, 0, 0, t],
        7 => vec![0x91, 0xd3, 0, 0, 0, 0, 0, 0, 0, t],
        8 => vec![0xdc, 0, 1, t],
        _ => vec![0xdd, 0, 0, 0, 1, t],
    };
    h.extend_from_slice(&b[2..]);
    Some(h)
}

#[derive(Clone, Debug, Serialize, Deserialize)]
pub enum ByteCase {
    Arbitrary { target: u8, bytes: Vec<u8> },
    /// a valid header (tag 0..=7, or any byte) followed by arbitrary bytes
    HeaderThen { tag: u8, body: Vec<u8> },
    Mutated { base: u16, ops: Vec<ByteOp> },
}

fn byteop_strategy() -> BoxedStrategy<ByteOp> {
    prop_oneof![
        3 => any::<u16>().prop_map(ByteOp::Truncate),
        4 => (any::<u16>(), 0u8..8).prop_map(|(pos, bit)| ByteOp::BitFlip { pos, bit }),
        2 => (any::<u16>(), any::<u8>()).prop_map(|(pos, val)| ByteOp::SetByte { pos, val }),
        2 => (8u8..=255).prop_map(ByteOp::TagRewrite),
        3 => any::<u16>().prop_map(|pos| ByteOp::Inflate { pos }),
        2 => (any::<u16>(), any::<u16>(), any::<u16>()).prop_map(|(other, at, from)| ByteOp::Splice { other, at, from }),
        1 => (any::<u16>(), proptest::collection::vec(any::<u8>(), 1..6)).prop_map(|(pos, bytes)| ByteOp::Insert { pos, bytes }),
        1 => (any::<u16>(), 1u8..9).prop_map(|(pos, len)| ByteOp::Delete { pos, len }),
        2 => (0u8..10).prop_map(ByteOp::WidenTag),
    ]
    .boxed()
}

fn bytecase_strategy() -> BoxedStrategy<ByteCase> {
    prop_oneof![
        2 => (0u8..3, proptest::collection::vec(any::<u8>(), 0..96)).prop_map(|(target, bytes)| ByteCase::Arbitrary { target, bytes }),
        2 => (prop_oneof![3 => 0u8..8, 1 => any::<u8>()], proptest::collection::vec(any::<u8>(), 0..160)).prop_map(|(tag, body)| ByteCase::HeaderThen { tag, body }),
        5 => (any::<u16>(), byteop_strategy()).prop_map(|(base, op)| ByteCase::Mutated { base, ops: vec![op] }),
        3 => (any::<u16>(), proptest::collection::vec(byteop_strategy(), 2..5)).prop_map(|(base, ops)| ByteCase::Mutated { base, ops }),
    ]
    .boxed()
}

fn small_pool() -> Vec<&'static PoolItem> {
    pool().iter().filter(|p| !p.large).collect()
}

fn is_len_marker(target: Target, b: u8) -> bool {
    match target {
        // msgpack: fixarray, fixstr, bin8/16/32, str8/16/32, array16/32 (fixmap/map16/32 do not occur)
        Target::Record => (0x90..=0x9f).contains(&b) || (0xa0..=0xbf).contains(&b) || (0xc4..=0xc6).contains(&b) || (0xd9..=0xdd).contains(&b),
        // cbor: byte string, text string, array, map heads (major types 2..5)
        _ => (0x40..=0xbf).contains(&b),
    }
}

fn apply_op(target: Target, b: &mut Vec<u8>, op: &ByteOp) {
    match op {
        ByteOp::Truncate(t) => {
            let n = vh_core::pick_idx(*t, b.len().max(1));
            b.truncate(n);
        }
        ByteOp::BitFlip { pos, bit } => {
            if !b.is_empty() {
                let i = vh_core::pick_idx(*pos, b.len());
                b[i] ^= 1 << (bit % 8);
            }
        }
        ByteOp::SetByte { pos, val } => {
            if !b.is_empty() {
                let i = vh_core::pick_idx(*pos, b.len());
                b[i] = *val;
            }
        }
        ByteOp::TagRewrite(t) => {
            if b.len() > 1 {
                let i = if target == Target::Record { 1 } else { 0 };
                b[i] = *t;
            }
        }
        ByteOp::Inflate { pos } => {
            if b.is_empty() {
                return;
            }
            let start = vh_core::pick_idx(*pos, b.len());
            if let Some(i) = (start..b.len()).chain(0..start).find(|i| is_len_marker(target, b[*i])) {
                let (marker, extra): (u8, usize) = match target {
                    Target::Record => match b[i] {
                        0x90..=0x9f | 0xdc | 0xdd => (0xdd, 4),
                        0xc4..=0xc6 => (0xc6, 4),
                        _ => (0xdb, 4),
                    },
                    // same major type, 8-byte length follows
                    _ => ((b[i] & 0xe0) | 27, 8),
                };
                b[i] = marker;
                for _ in 0..extra {
                    b.insert(i + 1, 0xff);
                }
                if target != Target::Record {
                    // keep it below 2^63 so that it is a plausible (huge) length, not a negative one
                    b[i + 1] = 0x7f;
                }
            }
        }
        ByteOp::WidenTag(w) => {
            if target == Target::Record {
                if let Some(n) = widen_tag(b, *w) {
                    *b = n;
                }
            }
        }
        ByteOp::Splice { other, at, from } => {
            let p = small_pool();
            let same: Vec<&&PoolItem> = p.iter().filter(|x| x.target == target).collect();
            if same.is_empty() {
                return;
            }
            let o = same[vh_core::pick_idx(*other, same.len())];
            let a = vh_core::pick_idx(*at, b.len() + 1);
            let f = vh_core::pick_idx(*from, o.bytes.len() + 1);
            b.truncate(a);
            b.extend_from_slice(&o.bytes[f..]);
        }
        ByteOp::Insert { pos, bytes } => {
            let i = vh_core::pick_idx(*pos, b.len() + 1);
            let tail = b.split_off(i);
            b.extend_from_slice(bytes);
            b.extend_from_slice(&tail);
        }
        ByteOp::Delete { pos, len } => {
            if !b.is_empty() {
                let i = vh_core::pick_idx(*pos, b.len());
                let e = (i + *len as usize).min(b.len());
                b.drain(i..e);
            }
        }
    }
}

fn op_name(op: &ByteOp) -> &'static str {
    match op {
        ByteOp::Truncate(_) => "truncate",
        ByteOp::BitFlip { .. } => "bitflip",
        ByteOp::SetByte { .. } => "setbyte",
        ByteOp::TagRewrite(_) => "tag_rewrite",
        ByteOp::Inflate { .. } => "length_inflate",
        ByteOp::Splice { .. } => "splice",
        ByteOp::Insert { .. } => "insert",
        ByteOp::Delete { .. } => "delete",
        ByteOp::WidenTag(_) => "widen_tag",
    }
}

fn judge(target: Target, bytes: &[u8], hint: RecordKind, f: &mut Findings) {
    match target {
        Target::Record => judge_record_bytes(bytes, hint, f),
        Target::Request => judge_request_bytes(bytes, f),
        Target::Response => judge_response_bytes(bytes, f),
    }
}

fn target_name(t: Target, k: RecordKind) -> String {
    match t {
        Target::Record => kind_name(k).to_string(),
        Target::Request => "Request".into(),
        Target::Response => "Response".into(),
    }
}

/// strict prefix of a valid encoding: every decoder for that value must report an error
fn judge_truncated(target: Target, kind: RecordKind, bytes: &[u8], f: &mut Findings) {
    let ok = match target {
        Target::Record => decode_as(kind, &record_of(bytes)).is_ok(),
        Target::Request => decode_request(bytes).is_ok(),
        Target::Response => decode_response(bytes).is_ok(),
    };
    if ok {
        f.fails.push((
            format!("truncated_input_accepted/{}", target_name(target, kind)),
            format!("a strict prefix ({} bytes) of a valid encoding decodes successfully: {}", bytes.len(), hex::encode(&bytes[..bytes.len().min(64)])),
        ));
    }
}

fn check_bytes(c: &ByteCase, ctx: &mut Ctx) {
    let (target, hint, bytes, trunc_of): (Target, RecordKind, Vec<u8>, Option<usize>) = match c {
        ByteCase::Arbitrary { target, bytes } => {
            ctx.label("arbitrary");
            let t = [Target::Record, Target::Request, Target::Response][(*target % 3) as usize];
            (t, ALL_KINDS[bytes.first().copied().unwrap_or(0) as usize % 8], bytes.clone(), None)
        }
        ByteCase::HeaderThen { tag, body } => {
            ctx.label("header_then_arbitrary");
            let mut b = vec![0x91, *tag];
            b.extend_from_slice(body);
            (Target::Record, ALL_KINDS[(*tag % 8) as usize], b, None)
        }
        ByteCase::Mutated { base, ops } => {
            let p = small_pool();
            if p.is_empty() {
                return;
            }
            let item = p[vh_core::pick_idx(*base, p.len())];
            let mut b = item.bytes.clone();
            for op in ops {
                ctx.label(format!("op/{}", op_name(op)));
                apply_op(item.target, &mut b, op);
            }
            ctx.label(format!("base/{}", target_name(item.target, item.kind)));
            let only_trunc = ops.len() == 1 && matches!(ops[0], ByteOp::Truncate(_)) && b.len() < item.bytes.len();
            // a tag rewrite alone on a record: the header must be refused
            if ops.len() == 1 && matches!(ops[0], ByteOp::TagRewrite(_)) && item.target == Target::Record {
                ctx.label("tag_rewrite_only");
            }
            (item.target, item.kind, b, only_trunc.then_some(item.bytes.len()))
        }
    };
    ctx.canon = Some(format!("{:x}", vh_core::stable_hash(&bytes)));
    let mut f = Findings::default();
    let r = ctx.no_panic(
        match target {
            Target::Record => "record_decoders",
            Target::Request => "request_decoder",
            Target::Response => "response_decoder",
        },
        || {
            judge(target, &bytes, hint, &mut f);
            if trunc_of.is_some() {
                judge_truncated(target, hint, &bytes, &mut f);
            }
        },
    );
    if r.is_none() {
        ctx.sample = Some(json!({"bytes": hex::encode(&bytes[..bytes.len().min(64)])}));
        return;
    }
    ctx.nontrivial_if(f.past_header);
    ctx.label_if(f.past_header, "past_header");
    ctx.label_if(f.decoded, "decoded_ok");
    ctx.sample = Some(json!({"target": format!("{target:?}"), "len": bytes.len(), "head": hex::encode(&bytes[..bytes.len().min(24)]), "decoded": f.decoded}));
    absorb(ctx, f);
}

// ------------------------------------------------------------------------------------------------
// exhaustive single mutations of every golden
// ------------------------------------------------------------------------------------------------

fn golden_mutations(rep: &mut Report) {
    let t0 = Instant::now();
    let items = small_pool();
    let workers = rep.cfg.workers.max(1);
    let thorough = rep.cfg.tier == Tier::Thorough;
    let results: std::sync::Mutex<Vec<(u64, BTreeMap<String, u64>, Vec<(String, String, serde_json::Value)>)>> = std::sync::Mutex::new(vec![]);
    let next = std::sync::atomic::AtomicUsize::new(0);
    std::thread::scope(|s| {
        for _ in 0..workers {
            s.spawn(|| {
                let mut evals = 0u64;
                let mut classes: BTreeMap<String, u64> = BTreeMap::new();
                let mut fails = vec![];
                loop {
                    let i = next.fetch_add(1, std::sync::atomic::Ordering::SeqCst);
                    if i >= items.len() {
                        break;
                    }
                    let it = items[i];
                    let mut run = |what: &str, bytes: Vec<u8>, truncated: bool| {
                        evals += 1;
                        *classes.entry(what.to_string()).or_default() += 1;
                        let mut f = Findings::default();
                        let r = vh_core::catch_panic(|| {
                            judge(it.target, &bytes, it.kind, &mut f);
                            if truncated {
                                judge_truncated(it.target, it.kind, &bytes, &mut f);
                            }
                        });
                        let case = json!({"golden": it.name, "mutation": what, "bytes": hex::encode(&bytes)});
                        if let Err(p) = r {
                            if fails.len() < 64 {
                                fails.push((format!("panic:{}_decoder", target_name(it.target, it.kind)), p, case.clone()));
                            }
                        }
                        if f.decoded {
                            *classes.entry(format!("{what}/still_decodes")).or_default() += 1;
                        }
                        for (sg, d) in f.fails {
                            if fails.len() < 64 {
                                fails.push((sg, format!("{} [{what}]: {d}", it.name), case.clone()));
                            }
                        }
                    };
                    for cut in 0..it.bytes.len() {
                        run("truncate", it.bytes[..cut].to_vec(), true);
                    }
                    for pos in 0..it.bytes.len() {
                        // quick: one bit per byte (rotating); thorough: all eight
                        let bits: Vec<u8> = if thorough { (0..8).collect() } else { vec![(pos % 8) as u8, ((pos + 5) % 8) as u8] };
                        for bit in bits {
                            let mut b = it.bytes.clone();
                            b[pos] ^= 1 << bit;
                            run("bitflip", b, false);
                        }
                    }
                    if it.target == Target::Record {
                        for w in 0u8..10 {
                            if let Some(b) = widen_tag(&it.bytes, w) {
                                run("widen_tag", b, false);
                            }
                        }
                        for tag in 8u16..=255 {
                            let mut b = it.bytes.clone();
                            b[1] = tag as u8;
                            evals += 1;
                            *classes.entry("tag_rewrite".into()).or_default() += 1;
                            // a valid payload never starts with a byte < 0x80, so no wider integer
                            // encoding of a known tag can appear: the header must be refused
                            let r = vh_core::catch_panic(|| RecordHeader::from_record(&record_of(&b)).is_ok());
                            let case = json!({"golden": it.name, "mutation": "tag_rewrite", "tag": tag});
                            match r {
                                Err(p) => fails.push(("panic:from_record".into(), p, case)),
                                Ok(true) if it.bytes.get(2).map(|x| *x >= 0x80).unwrap_or(false) => {
                                    fails.push(("unknown_kind_accepted".into(), format!("{}: tag byte rewritten to {tag} still yields a header", it.name), case))
                                }
                                _ => {}
                            }
                        }
                    }
                }
                results.lock().unwrap().push((evals, classes, fails));
            });
        }
    });
    let mut st = SectionStats {
        name: "golden_mutations".into(),
        rule: format!("exhaustive over the {} goldens below 8 KiB: every truncation offset, {} bit flips per byte, every tag rewrite 8..=255 and every wider MessagePack form of the tag (records); same oracle as decode_bytes", items.len(), if thorough { 8 } else { 2 }),
        exhaustive: true,
        ..Default::default()
    };
    let mut viol = vec![];
    for (e, c, f) in results.into_inner().unwrap() {
        st.evaluations += e;
        for (k, v) in c {
            *st.classes.entry(k).or_default() += v;
        }
        viol.extend(f);
    }
    for it in &items {
        st.nontrivial_hashes.insert(vh_core::stable_hash(&it.bytes));
    }
    st.wall_s = t0.elapsed().as_secs_f64();
    rep.add_manual(st);
    viol.sort_by(|a, b| a.0.cmp(&b.0).then(a.1.cmp(&b.1)));
    let mut seen = BTreeSet::new();
    for (sig, detail, case) in viol {
        if seen.insert(sig.clone()) {
            rep.manual_violation("golden_mutations", Failure { sig, detail }, &case);
        }
    }
}

// ------------------------------------------------------------------------------------------------
// libFuzzer campaign (thorough tier)
// ------------------------------------------------------------------------------------------------

fn fuzz_campaign(rep: &mut Report) {
    let root = rep.cfg.root.clone();
    let fuzz_dir = root.join("fuzz");
    let scale = rep.cfg.scale;
    let cap_s: u64 = std::env::var("VERIF_FUZZ_CAP_S").ok().and_then(|s| s.parse().ok()).unwrap_or(((600.0 * scale).ceil() as u64).clamp(20, 600));
    let runs: u64 = std::env::var("VERIF_FUZZ_RUNS").ok().and_then(|s| s.parse().ok()).unwrap_or(((8_000_000.0 * scale) as u64).max(100_000));
    let skip = |rep: &mut Report, why: String| {
        eprintln!("C12 fuzz: {why}");
        rep.inconclusive.push(format!("libFuzzer campaign skipped: {why}"));
    };
    if !fuzz_dir.join("Cargo.toml").is_file() {
        return skip(rep, format!("{} missing", fuzz_dir.display()));
    }
    // build (cargo-fuzz, nightly, offline); a build failure is inconclusive, never a violation
    let t_build = Instant::now();
    let build = std::process::Command::new("cargo")
        .args(["+nightly", "fuzz", "build", "--fuzz-dir", "."])
        .args(["decode_record"])
        .current_dir(&fuzz_dir)
        .env("CARGO_NET_OFFLINE", "true")
        .env("CARGO_TARGET_DIR", fuzz_dir.join("target"))
        .output();
    let build2 = std::process::Command::new("cargo")
        .args(["+nightly", "fuzz", "build", "--fuzz-dir", "."])
        .args(["decode_message"])
        .current_dir(&fuzz_dir)
        .env("CARGO_NET_OFFLINE", "true")
        .env("CARGO_TARGET_DIR", fuzz_dir.join("target"))
        .output();
    for b in [&build, &build2] {
        match b {
            Ok(o) if o.status.success() => {}
            Ok(o) => {
                let err = String::from_utf8_lossy(&o.stderr);
                let tail: String = err.lines().rev().take(12).collect::<Vec<_>>().into_iter().rev().collect::<Vec<_>>().join(" | ");
                return skip(rep, format!("cargo +nightly fuzz build failed: {tail}"));
            }
            Err(e) => return skip(rep, format!("cannot run cargo: {e}")),
        }
    }
    eprintln!("C12 fuzz: targets built in {:.0}s", t_build.elapsed().as_secs_f64());
    for (target, targets) in [("decode_record", vec![Target::Record]), ("decode_message", vec![Target::Request, Target::Response])] {
        let t0 = Instant::now();
        let bin = fuzz_dir.join("target").join("x86_64-unknown-linux-gnu").join("release").join(target);
        if !bin.is_file() {
            skip(rep, format!("{} not found after build", bin.display()));
            continue;
        }
        let tmp = match tempfile::tempdir() {
            Ok(t) => t,
            Err(e) => {
                skip(rep, format!("tempdir: {e}"));
                continue;
            }
        };
        let artifacts = tmp.path().join("artifacts");
        let _ = std::fs::create_dir_all(&artifacts);
        // P independent libFuzzer processes (libFuzzer itself is single-threaded), each with its own
        // fresh corpus seeded from the goldens (frozen files) and its own derived seed. Message seeds
        // get the one-byte selector the target expects (0 = request, 1 = response).
        let procs = rep.cfg.workers.clamp(1, 8) as u64;
        let mut seeds = 0;
        let mut children = vec![];
        for p in 0..procs {
            let corpus = tmp.path().join(format!("corpus-{p}"));
            let _ = std::fs::create_dir_all(&corpus);
            seeds = 0;
            for it in pool().iter().filter(|p| !p.large && targets.contains(&p.target)) {
                let frozen = std::fs::read_to_string(goldens_dir(&root).join(format!("{}.hex", it.name))).ok().and_then(|s| hex::decode(s.trim()).ok()).unwrap_or_else(|| it.bytes.clone());
                let mut b = match it.target {
                    Target::Record => vec![],
                    Target::Request => vec![0u8],
                    Target::Response => vec![1u8],
                };
                b.extend_from_slice(&frozen);
                if std::fs::write(corpus.join(&it.name), b).is_ok() {
                    seeds += 1;
                }
            }
            let fseed = ((rep.cfg.seed.wrapping_mul(64).wrapping_add(p)) % (u32::MAX as u64 - 1)) + 1;
            let child = std::process::Command::new(&bin)
                .arg(&corpus)
                .arg(format!("-runs={}", (runs / procs).max(1)))
                .arg(format!("-seed={fseed}"))
                .arg("-len_control=0")
                .arg("-max_len=4096")
                .arg(format!("-max_total_time={cap_s}"))
                .arg("-rss_limit_mb=4096")
                .arg("-timeout=30")
                .arg("-print_final_stats=1")
                .arg(format!("-artifact_prefix={}/p{p}-", artifacts.display()))
                .stdout(std::process::Stdio::null())
                .stderr(std::process::Stdio::piped())
                .spawn();
            match child {
                Ok(c) => children.push(c),
                Err(e) => skip(rep, format!("cannot run {}: {e}", bin.display())),
            }
        }
        let mut execs = 0u64;
        let mut new_units = 0u64;
        let mut any_failed_without_artifact = None;
        for c in children {
            let Ok(out) = c.wait_with_output() else { continue };
            let log = String::from_utf8_lossy(&out.stderr).to_string();
            let stat = |k: &str| -> Option<u64> { log.lines().rev().find_map(|l| l.strip_prefix(k).and_then(|r| r.trim().parse().ok())) };
            execs += stat("stat::number_of_executed_units:").unwrap_or(0);
            new_units += stat("stat::new_units_added:").unwrap_or(0);
            if !out.status.success() {
                let tail: String = log.lines().rev().take(8).collect::<Vec<_>>().into_iter().rev().collect::<Vec<_>>().join(" | ");
                any_failed_without_artifact = Some((out.status.code(), tail));
            }
        }
        let mut st = SectionStats {
            name: format!("fuzz_{target}"),
            evaluations: execs,
            rule: format!("libFuzzer target {target} (same oracle in-target), {procs} processes each with a fresh corpus of {seeds} golden seeds, -runs={} -seed=f(VERIF_SEED, process) -len_control=0 -max_len=4096, wall cap {cap_s}s (expiry = stop); distinct = corpus units added", (runs / procs).max(1)),
            wall_s: t0.elapsed().as_secs_f64(),
            ..Default::default()
        };
        st.extra.insert("seeds".into(), json!(seeds));
        st.extra.insert("processes".into(), json!(procs));
        st.extra.insert("new_units_added".into(), json!(new_units));
        st.extra.insert("stopped_by_wall_cap".into(), json!(t0.elapsed() >= Duration::from_secs(cap_s)));
        for i in 0..new_units.min(1_000_000) {
            st.nontrivial_hashes.insert(vh_core::stable_hash(&(target, i)));
        }
        rep.add_manual(st);
        let mut arts: Vec<PathBuf> = std::fs::read_dir(&artifacts).map(|rd| rd.flatten().map(|e| e.path()).collect()).unwrap_or_default();
        arts.sort();
        if let (Some((code, tail)), true) = (any_failed_without_artifact, arts.is_empty()) {
            skip(rep, format!("{target} exited with {code:?} without an artifact: {tail}"));
        }
        // crash artifacts: re-judge in-process to get the precise signature
        for a in arts {
            let Ok(data) = std::fs::read(&a) else { continue };
            let kind = a.file_name().map(|s| s.to_string_lossy().to_string()).unwrap_or_default();
            let kind = kind.split_once('-').map(|(_, k)| k.to_string()).unwrap_or(kind);
            if kind.starts_with("oom-") || kind.starts_with("timeout-") || kind.starts_with("slow-unit-") {
                // resource verdicts depend on the machine: keep the input, report as inconclusive
                let keep = root.join("replays").join(format!("C12-fuzz-{target}-{kind}"));
                let _ = std::fs::create_dir_all(root.join("replays"));
                let _ = std::fs::write(&keep, &data);
                skip(rep, format!("{target}: resource artifact {kind} kept at {}", keep.display()));
                continue;
            }
            let (t, body): (Target, &[u8]) = if target == "decode_record" {
                (Target::Record, &data[..])
            } else if data.first().map(|b| b & 1 == 0).unwrap_or(true) {
                (Target::Request, data.get(1..).unwrap_or(&[]))
            } else {
                (Target::Response, data.get(1..).unwrap_or(&[]))
            };
            let mut f = Findings::default();
            let hint = ALL_KINDS[body.first().copied().unwrap_or(0) as usize % 8];
            let r = vh_core::catch_panic(|| judge(t, body, hint, &mut f));
            let case = json!({"fuzz_target": target, "artifact": kind, "input_hex": hex::encode(&data)});
            let mut reported = false;
            if let Err(p) = r {
                reported = true;
                rep.manual_violation(&format!("fuzz_{target}"), Failure { sig: format!("panic:{}_decoder", target_name(t, hint)), detail: p }, &case);
            }
            for (sig, detail) in f.fails {
                reported = true;
                rep.manual_violation(&format!("fuzz_{target}"), Failure { sig, detail }, &case);
            }
            if !reported {
                skip(rep, format!("{target}: artifact {kind} does not reproduce in-process"));
            }
        }
    }
}

// ------------------------------------------------------------------------------------------------

/// `--replay` of a violation reported by one of the manual sections
fn replay_manual(rep: &mut Report, path: &Path) {
    let Ok(txt) = std::fs::read_to_string(path) else { return };
    let Ok(doc) = serde_json::from_str::<serde_json::Value>(&txt) else { return };
    let section = doc["section"].as_str().unwrap_or("").to_string();
    let case = &doc["case"];
    match section.as_str() {
        "goldens" => goldens(rep),
        "header_table" => header_table(rep),
        "golden_mutations" | "fuzz_decode_record" | "fuzz_decode_message" => {
            let hexs = case["bytes"].as_str().or(case["input_hex"].as_str()).unwrap_or("");
            let Ok(data) = hex::decode(hexs) else { return };
            let (t, body): (Target, &[u8]) = if section == "fuzz_decode_message" {
                if data.first().map(|b| b & 1 == 0).unwrap_or(true) { (Target::Request, data.get(1..).unwrap_or(&[])) } else { (Target::Response, data.get(1..).unwrap_or(&[])) }
            } else if section == "fuzz_decode_record" {
                (Target::Record, &data[..])
            } else {
                let name = case["golden"].as_str().unwrap_or("");
                match pool().iter().find(|p| p.name == name) {
                    Some(p) => (p.target, &data[..]),
                    None => (Target::Record, &data[..]),
                }
            };
            let hint = case["golden"].as_str().and_then(|n| pool().iter().find(|p| p.name == n)).map(|p| p.kind).unwrap_or(ALL_KINDS[body.first().copied().unwrap_or(0) as usize % 8]);
            let mut f = Findings::default();
            let r = vh_core::catch_panic(|| {
                judge(t, body, hint, &mut f);
                if case["mutation"].as_str() == Some("truncate") {
                    judge_truncated(t, hint, body, &mut f);
                }
            });
            let mut st = SectionStats { name: section.clone(), evaluations: 1, rule: format!("replay of {}", path.display()), ..Default::default() };
            st.samples.push(case.clone());
            rep.add_manual(st);
            if let Err(p) = r {
                rep.manual_violation(&section, Failure { sig: format!("panic:{}_decoder", target_name(t, hint)), detail: p }, case);
            }
            for (sig, detail) in f.fails {
                rep.manual_violation(&section, Failure { sig, detail }, case);
            }
        }
        _ => {}
    }
}

pub fn run(cfg: RunCfg) {
    let mut rep = Report::new(cfg, "exploration");
    rep.rule = "C12: values of every record kind (± proofs of 0..5 quotes) and every request/response variant are built from plain-data specs with keys derived from small integers; round trip through the repository's encoders/decoders (msgpack records, CBOR via cbor4ii exactly as libp2p's request_response::cbor codec), byte-exact differential against frozen goldens, and the decoders on arbitrary / structurally mutated bytes.".into();
    rep.assumptions = vec![
        "messages are judged in the serde format of libp2p's request_response::cbor codec (cbor4ii::serde to_vec/from_slice); stream framing and size caps of the codec are below the seam".into(),
        "records are paired with the value type the node stores under each kind (put_validation.rs / client put paths): Chunk, (ProofOfPayment, Chunk), Vec<Transaction>, (ProofOfPayment, Transaction), SignedRegister, (ProofOfPayment, SignedRegister), Scratchpad, (ProofOfPayment, Scratchpad)".into(),
        "Scratchpad values with arbitrary counters are built through the type's own decoder from the pinned field layout [address, data_encoding, encrypted_data, counter, signature] and then checked through its accessors (private fields, no public constructor for them)".into(),
        "a header of exactly RecordHeader::SIZE bytes with no payload after it, and integer encodings of a tag wider than one byte, are an 'either' zone".into(),
        "goldens were captured from the pinned tree (30f1684) with VERIF_WRITE_GOLDENS=1; RegisterOp signatures inside goldens go through std's DefaultHasher (the repository's own choice) and would change with a toolchain that changes SipHash-1-3".into(),
        "messages::RegisterCmd is not part of Request/Response (no wire use) and is not covered".into(),
        "libFuzzer: wall-clock cap expiry, OOM/timeout artifacts and build failures are 'inconclusive', never violations; crash artifacts are re-judged in-process for the signature".into(),
    ];
    if let Some(path) = rep.cfg.replay.clone() {
        replay_manual(&mut rep, &path);
    }
    if rep.cfg.replay.is_none() {
        if rep.cfg.only.as_deref().map(|o| "header_table".contains(o)).unwrap_or(true) {
            header_table(&mut rep);
        }
        if rep.cfg.only.as_deref().map(|o| "goldens".contains(o)).unwrap_or(true) {
            goldens(&mut rep);
        }
    }
    vh_core::section!(
        rep, "record_roundtrip", (60_000, 2_400_000), 16,
        "chunks 0..64 KiB (lengths around bin8/16/32 switches, optional forged in-memory address), scratchpads (all counters, unsigned / owner-signed / foreign-signed), transaction vectors, signed registers with op DAGs; each alone or with a ProofOfPayment of 0..5 quotes; non-trivial: non-empty payload and (payment attached or nested ops/outputs); distinct by encoding",
        rec_case_strategy, check_record
    );
    vh_core::section!(
        rep, "message_roundtrip", (400_000, 12_000_000), 16,
        "every Request (Cmd/Query) and Response (CmdResponse/QueryResponse) variant with every NetworkAddress / RecordType / Error variant nested, quotes, chunk proofs, multiaddrs; non-trivial: carries a nested enum (depth ≥ 2); distinct by encoding",
        msg_strategy, check_message
    );
    vh_core::section!(
        rep, "chunk_address", (100_000, 2_000_000), 16,
        "eleven crafted wire forms that try to carry an address next to the chunk bytes (tuple, map, struct-like, trailing; the address as bin, as array and as 64 hex characters), plain and inside (proof, chunk); accepted forms must still yield address = hash(bytes); non-trivial: non-empty bytes",
        forge_strategy, check_forge
    );
    vh_core::section!(
        rep, "hostile_quote_time", (40_000, 1_000_000), 16,
        "paid records of all four kinds, bare proofs and bare quotes whose quote time is re-dated on the wire (seconds around i64::MAX / u64::MAX, nanoseconds at and above 10^9): the decoders return a value or an error. non-trivial: the time does not fit the clock type",
        hostile_time_strategy, check_hostile_time
    );
    vh_core::section!(
        rep, "decode_bytes", (1_500_000, 40_000_000), 16,
        "arbitrary bytes, valid-header-then-arbitrary, and 1..4 structural mutations (truncate, bit flip, set byte, tag rewrite 8..255, length-prefix inflation, splice, insert, delete) of the golden encodings, for the record decoders and the Request/Response decoders; non-trivial: input gets past the header / decodes; distinct by input bytes",
        bytecase_strategy, check_bytes
    );
    if rep.cfg.replay.is_none() {
        if rep.cfg.only.as_deref().map(|o| "golden_mutations".contains(o)).unwrap_or(true) {
            golden_mutations(&mut rep);
        }
        let want_fuzz = rep.cfg.only.as_deref().map(|o| "fuzz".contains(o)).unwrap_or(true);
        if rep.cfg.tier == Tier::Thorough && want_fuzz && std::env::var_os("VERIF_NO_FUZZ").is_none() {
            fuzz_campaign(&mut rep);
        }
    }
    vh_core::fuzz_section!(rep, "record_roundtrip", rec_case_strategy, check_record, "sec_protocol", "protocol", 200_000, 150, 6);
    vh_core::fuzz_section!(rep, "message_roundtrip", msg_strategy, check_message, "sec_protocol", "protocol", 300_000, 150, 6);
    rep.finish();
}
