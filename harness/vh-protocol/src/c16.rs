//! C16 — token amounts: text round-trip and overflow-safe arithmetic.
//!
//! Oracle: exact decimal reference over `num_bigint::BigUint`, written from the property text.

use ant_evm::{Amount, AttoTokens};
use num_bigint::BigUint;
use proptest::prelude::*;
use serde::{Deserialize, Serialize};
use std::str::FromStr;
use vh_core::{Ctx, Report, RunCfg};

fn big(a: &Amount) -> BigUint {
    BigUint::from_bytes_be(&a.to_be_bytes::<32>())
}
fn amt(b: &BigUint) -> Option<Amount> {
    let bytes = b.to_bytes_be();
    if bytes.len() > 32 {
        return None;
    }
    let mut buf = [0u8; 32];
    buf[32 - bytes.len()..].copy_from_slice(&bytes);
    Some(Amount::from_be_bytes(buf))
}
fn ssub(a: BigUint, b: u32) -> BigUint {
    let b = BigUint::from(b);
    if a >= b { a - b } else { BigUint::from(0u32) }
}
fn e18() -> BigUint {
    BigUint::from(10u32).pow(18)
}
fn max() -> BigUint {
    (BigUint::from(1u32) << 256) - 1u32
}

/// Amount given as 32 big-endian bytes in hex, so replay files are readable.
#[derive(Clone, Debug, Serialize, Deserialize)]
pub struct Amt(pub String);
impl Amt {
    fn get(&self) -> Amount {
        let b = hex::decode(&self.0).expect("hex");
        let mut buf = [0u8; 32];
        buf[32 - b.len()..].copy_from_slice(&b);
        Amount::from_be_bytes(buf)
    }
    fn of(b: &BigUint) -> Amt {
        Amt(hex::encode(b.to_bytes_be()))
    }
}

pub fn amount_strategy() -> BoxedStrategy<Amt> {
    let uniform = proptest::collection::vec(any::<u8>(), 32).prop_map(|v| BigUint::from_bytes_be(&v));
    // any bit length
    let by_len = (0usize..=256, proptest::collection::vec(any::<u8>(), 32)).prop_map(|(bits, v)| {
        let x = BigUint::from_bytes_be(&v);
        if bits == 0 {
            BigUint::from(0u32)
        } else {
            (x % (BigUint::from(1u32) << bits)) | (BigUint::from(1u32) << (bits - 1))
        }
    });
    let small = (0u64..2000).prop_map(BigUint::from);
    // 10^k + d - 1, d in 0..3
    let pow10 = (0u32..=77, 0u32..3).prop_map(|(k, d)| {
        let p = BigUint::from(10u32).pow(k);
        ssub(p + d, 1)
    });
    // whole tokens +- small, and whole + remainder with leading zeros
    let whole = (any::<u128>(), 0u32..3, 0u32..=18, 0u64..1000).prop_map(|(w, d, z, r)| {
        let base = BigUint::from(w) * e18();
        let rem = BigUint::from(r) * BigUint::from(10u32).pow(18 - z.min(18)) / BigUint::from(1000u32);
        let x = base + rem + d;
        ssub(x, 1)
    });
    let near_max = (0u64..4000, any::<bool>()).prop_map(|(k, coarse)| {
        if coarse {
            max() - BigUint::from(k) * e18() / 1000u32
        } else {
            max() - BigUint::from(k)
        }
    });
    prop_oneof![
        3 => uniform,
        3 => by_len,
        2 => small,
        2 => pow10,
        4 => whole,
        2 => near_max,
    ]
    .prop_map(|b| Amt::of(&(b % (max() + 1u32))))
    .boxed()
}

/// decimal value * 10^18 of a printed string, if it is `digits.digits`
fn decimal_value_e18(s: &str) -> Option<(BigUint, usize)> {
    let (i, f) = s.split_once('.')?;
    if i.is_empty() || !i.bytes().all(|b| b.is_ascii_digit()) || !f.bytes().all(|b| b.is_ascii_digit()) {
        return None;
    }
    let ip = BigUint::from_str(i).ok()?;
    let fp = if f.is_empty() { BigUint::from(0u32) } else { BigUint::from_str(f).ok()? };
    if f.len() > 18 {
        // value*10^18 is an integer only if the excess digits are zero
        let excess = BigUint::from(10u32).pow((f.len() - 18) as u32);
        if &fp % &excess != BigUint::from(0u32) {
            return None;
        }
        return Some((ip * e18() + fp / excess, f.len()));
    }
    Some((ip * e18() + fp * BigUint::from(10u32).pow((18 - f.len()) as u32), f.len()))
}

pub fn check_display(a: &Amt, ctx: &mut Ctx) {
    let v = a.get();
    let b = big(&v);
    let rem = &b % e18();
    let t = AttoTokens::from_atto(v);
    let Some(s) = ctx.no_panic("AttoTokens::to_string", || t.to_string()) else { return };
    let small_rem = rem != BigUint::from(0u32) && rem < BigUint::from(10u32).pow(17);
    ctx.label_if(small_rem, "remainder_nonzero_below_1e17");
    ctx.label_if(rem == BigUint::from(0u32), "whole_tokens");
    ctx.label_if(&b + e18() > max(), "within_1e18_of_max");
    ctx.nontrivial_if(small_rem || &b + e18() > max());
    ctx.canon = Some(a.0.trim_start_matches('0').to_string());
    ctx.sample = Some(serde_json::json!({"atto_hex": a.0, "printed": s}));
    match decimal_value_e18(&s) {
        None => ctx.fail("display_not_decimal", format!("{b} atto printed as {s:?}")),
        Some((val, digits)) => {
            if val != b {
                // the printed string must be the amount's true value in whole tokens
                let sig = if rem < BigUint::from(10u32).pow(17) && rem != BigUint::from(0u32) {
                    "display_value_wrong_small_remainder"
                } else {
                    "display_value_wrong"
                };
                ctx.fail(sig, format!("{b} atto printed as {s:?}, which denotes {val} atto"));
            }
            if digits != 18 {
                ctx.fail(
                    "display_not_18_fraction_digits",
                    format!("{b} atto printed as {s:?} ({digits} fractional digits)"),
                );
            }
        }
    }
    match ctx.no_panic("AttoTokens::from_str(display)", || AttoTokens::from_str(&s)) {
        Some(Ok(back)) => {
            if back != t {
                let sig = if small_rem { "roundtrip_small_remainder" } else { "roundtrip" };
                ctx.fail(sig, format!("{b} atto -> {s:?} -> {} atto", big(&back.as_atto())));
            }
        }
        Some(Err(e)) => ctx.fail("roundtrip_rejected", format!("{b} atto -> {s:?} -> Err({e:?})")),
        None => {}
    }
}

// ------------------------------------------------------------------------------------------------
// parsing
// ------------------------------------------------------------------------------------------------

#[derive(Clone, Debug, Serialize, Deserialize)]
pub struct Text(pub String);

fn digits(max_len: usize) -> BoxedStrategy<String> {
    prop_oneof![
        4 => proptest::collection::vec(0u8..10, 1..=max_len.max(1)),
        1 => proptest::collection::vec(prop_oneof![Just(0u8), Just(9u8)], 1..=max_len.max(1)),
    ]
    .prop_map(|v| v.into_iter().map(|d| (b'0' + d) as char).collect())
    .boxed()
}

pub fn text_strategy() -> BoxedStrategy<Text> {
    // canonical grammar: int [ "." frac ]
    let ints = prop_oneof![
        3 => digits(12),
        2 => digits(62),
        // around MAX / 10^18 = 115792089237316195423570985008687907853269984665640564039457 (60 digits)
        2 => (0u64..3000, any::<bool>()).prop_map(|(k, up)| {
            let m = max() / e18();
            let v = if up { m + k / 1000 } else { m - (k % 1500) };
            v.to_string()
        }),
        1 => (0usize..4, digits(8)).prop_map(|(z, d)| format!("{}{}", "0".repeat(z), d)),
        // zero-padded whole parts whose LENGTH sits around the digit counts a parser may reason with
        // (60 = digits of MAX / 10^18, 78 = digits of MAX, and the widths of integer types): leading
        // zeros do not change what a decimal string denotes
        1 => (
            prop_oneof![Just(60usize), Just(77), Just(78), Just(79), Just(96), Just(128), Just(256), Just(65536)],
            -2i32..=3,
            prop_oneof![
                2 => digits(8),
                1 => (0u64..1500).prop_map(|k| (max() / e18() - k).to_string()),
                1 => (1u64..4).prop_map(|k| (max() / e18() + k).to_string()),
            ],
        )
            .prop_map(|(w, j, d)| {
                let total = (w as i64 + j as i64).max(1) as usize;
                format!("{}{}", "0".repeat(total.saturating_sub(d.len())), d)
            }),
    ];
    let fracs = prop_oneof![
        2 => Just(None),
        1 => Just(Some(String::new())),
        4 => digits(18).prop_map(Some),
        2 => digits(25).prop_map(Some),
        2 => (0usize..=20, digits(6), 0usize..=12).prop_map(|(z, d, t)| Some(format!("{}{}{}", "0".repeat(z), d, "0".repeat(t)))),
        // the fraction that makes max: .584007913129639935
        1 => (0u64..3).prop_map(|d| Some(format!("{}", 584007913129639934u64 + d))),
        1 => Just(Some("999999999999999999".to_string())),
        // fraction lengths around the widths of the integer types a length may be squeezed into
        // (256 = u8, 65536 = u16, and their doubles), mostly leading zeros so that the digits stay small
        1 => (prop_oneof![Just(256usize), Just(512), Just(65536), Just(131072)], -2i32..=19, digits(3), 0usize..3).prop_map(|(w, j, d, t)| {
            let total = (w as i64 + j as i64).max(1) as usize;
            let zeros = total.saturating_sub(d.len() + t);
            Some(format!("{}{}{}", "0".repeat(zeros), d, "0".repeat(t)))
        }),
    ];
    let canonical = (ints, fracs).prop_map(|(i, f)| match f {
        None => i,
        Some(f) => format!("{i}.{f}"),
    });
    let canonical2 = canonical.clone();
    // mutations of canonical strings
    let junk = prop_oneof![
        Just("+"), Just("-"), Just(" "), Just("_"), Just("0x"), Just("0o"), Just("0b"), Just("x"),
        Just("e"), Just("E5"), Just(","), Just("."), Just("\t"), Just("\n"), Just("a"), Just("f"),
        Just("٣"), Just("１"), Just("०"), Just("\u{0}"), Just("'"), Just("0X"), Just("1e3"), Just("0B"),
    ];
    let mutated = (canonical2, junk, any::<u16>(), 0u8..4).prop_map(|(s, j, pos, mode)| {
        let chars: Vec<char> = s.chars().collect();
        let at = vh_core::pick_idx(pos, chars.len() + 1);
        match mode {
            0 => format!("{j}{s}"),
            1 => format!("{s}{j}"),
            _ => {
                let mut out: String = chars[..at].iter().collect();
                out.push_str(j);
                out.extend(chars[at..].iter());
                out
            }
        }
    });
    let odd = prop_oneof![
        Just(String::new()),
        Just(".".to_string()),
        Just("..".to_string()),
        digits(18).prop_map(|d| format!(".{d}")),
        "[ -~]{0,12}",
        "[0-9a-fx_.]{0,24}",
        "\\PC{0,8}",
    ];
    prop_oneof![6 => canonical, 4 => mutated, 2 => odd].prop_map(Text).boxed()
}

enum Expect {
    /// must parse to exactly this
    Value(BigUint),
    /// may be rejected, but if accepted must equal this
    ValueOrReject(BigUint),
    /// must be rejected
    Reject(&'static str),
    /// nothing claimed beyond no-panic
    Either,
}

fn classify(s: &str) -> Expect {
    let ascii_digits = |t: &str| t.bytes().all(|b| b.is_ascii_digit());
    let n_digits = s.bytes().filter(|b| b.is_ascii_digit()).count();
    let only_grammar_chars = s.bytes().all(|b| b.is_ascii_digit() || b == b'.');
    if !only_grammar_chars {
        return Expect::Reject("non_decimal_character");
    }
    if n_digits == 0 {
        return Expect::Reject("no_digits");
    }
    let dots = s.bytes().filter(|&b| b == b'.').count();
    if dots > 1 {
        return Expect::Reject("several_dots");
    }
    let (i, f) = match s.split_once('.') {
        Some((i, f)) => (i, f),
        None => (s, ""),
    };
    debug_assert!(ascii_digits(i) && ascii_digits(f));
    let unconventional = i.is_empty();
    let ip = if i.is_empty() { BigUint::from(0u32) } else { BigUint::from_str(i).unwrap() };
    let sig_f = f.trim_end_matches('0');
    if sig_f.len() > 18 {
        return Expect::Reject("more_than_18_significant_fraction_digits");
    }
    let fp = if sig_f.is_empty() {
        BigUint::from(0u32)
    } else {
        BigUint::from_str(sig_f).unwrap() * BigUint::from(10u32).pow((18 - sig_f.len()) as u32)
    };
    let val = ip * e18() + fp;
    if val > max() {
        return Expect::Reject("value_exceeds_256_bits");
    }
    if unconventional {
        return Expect::ValueOrReject(val);
    }
    if f.len() > 18 {
        // more than 18 fractional digits, the excess being zeros: the statement's "at most 18
        // fractional digits" would reject, the code trims zeros; tolerated either way
        return Expect::ValueOrReject(val);
    }
    Expect::Value(val)
}

pub fn check_parse(t: &Text, ctx: &mut Ctx) {
    let s = &t.0;
    let Some(res) = ctx.no_panic("AttoTokens::from_str", || AttoTokens::from_str(s)) else { return };
    let got = res.as_ref().ok().map(|a| big(&a.as_atto()));
    ctx.sample = Some(serde_json::json!({"text": s, "parsed_atto": got.as_ref().map(|g| g.to_string())}));
    match classify(s) {
        Expect::Value(v) => {
            ctx.label("canonical_representable");
            ctx.nontrivial_if(&v + e18() > max() || (&v % e18() != BigUint::from(0u32)));
            match got {
                Some(g) if g == v => {}
                Some(g) => ctx.fail("parse_wrong_value", format!("{s:?} parsed as {g} atto, denotes {v}")),
                None => ctx.fail("parse_rejects_valid", format!("{s:?} denotes {v} atto but was rejected: {:?}", res.err())),
            }
        }
        Expect::ValueOrReject(v) => {
            ctx.label("tolerated_either_way");
            if let Some(g) = got {
                if g != v {
                    ctx.fail("parse_wrong_value", format!("{s:?} parsed as {g} atto, denotes {v}"));
                }
            }
        }
        Expect::Reject(why) => {
            ctx.label(format!("must_reject/{why}"));
            ctx.nontrivial();
            if let Some(g) = got {
                ctx.fail(format!("parse_accepts_invalid/{why}"), format!("{s:?} accepted as {g} atto"));
            }
        }
        Expect::Either => {
            ctx.label("unclassified");
        }
    }
}

// ------------------------------------------------------------------------------------------------
// arithmetic
// ------------------------------------------------------------------------------------------------

#[derive(Clone, Debug, Serialize, Deserialize)]
pub struct Pair(pub Amt, pub Amt);

pub fn pair_strategy() -> BoxedStrategy<Pair> {
    let a = amount_strategy();
    let b = amount_strategy();
    let complement = (amount_strategy(), 0u32..5).prop_map(|(a, d)| {
        // b = MAX - a + d - 2 : crosses the overflow boundary
        let av = big(&a.get());
        let b = ssub(max() - &av + d, 2) % (max() + 1u32);
        Pair(a, Amt::of(&b))
    });
    let near = (amount_strategy(), 0u32..5).prop_map(|(a, d)| {
        let av = big(&a.get());
        let b = ssub(av + d, 2) % (max() + 1u32);
        Pair(a, Amt::of(&b))
    });
    prop_oneof![3 => (a, b).prop_map(|(a, b)| Pair(a, b)), 2 => complement, 2 => near].boxed()
}

pub fn check_arith(p: &Pair, ctx: &mut Ctx) {
    let (a, b) = (p.0.get(), p.1.get());
    let (ba, bb) = (big(&a), big(&b));
    let (ta, tb) = (AttoTokens::from_atto(a), AttoTokens::from_atto(b));
    let sum = &ba + &bb;
    let add = ctx.no_panic("checked_add", || ta.checked_add(tb));
    let sub = ctx.no_panic("checked_sub", || ta.checked_sub(tb));
    ctx.label_if(sum > max(), "add_overflows");
    ctx.label_if(ba < bb, "sub_underflows");
    ctx.nontrivial_if(sum > max() || ba < bb || sum == max() || ba == bb);
    ctx.sample = Some(serde_json::json!({"a": ba.to_string(), "b": bb.to_string()}));
    if let Some(add) = add {
        let exp = if sum > max() { None } else { amt(&sum) };
        if add.map(|x| x.as_atto()) != exp {
            ctx.fail("checked_add_wrong", format!("{ba} + {bb}: got {add:?}, exact {exp:?}"));
        }
    }
    if let Some(sub) = sub {
        let exp = if ba < bb { None } else { amt(&(&ba - &bb)) };
        if sub.map(|x| x.as_atto()) != exp {
            ctx.fail("checked_sub_wrong", format!("{ba} - {bb}: got {sub:?}, exact {exp:?}"));
        }
    }
}

pub fn run(cfg: RunCfg) {
    let mut rep = Report::new(cfg, "exploration");
    rep.rule = "C16: amounts/strings from boundary-biased generators; oracle = exact bignum decimal reference.".into();
    rep.assumptions = vec![
        "strings with a leading '.' or with >18 fractional digits whose excess is zeros may be accepted or rejected (if accepted the value must be exact)".into(),
        "overflow-checks are on in the harness build, so a wrapping '+' in the parser is a visible panic".into(),
    ];
    vh_core::section!(
        rep, "display", (800_000, 12_000_000), 16,
        "non-trivial: remainder in (0,10^17) or amount within 10^18 of MAX; distinct by amount",
        amount_strategy, check_display
    );
    vh_core::section!(
        rep, "parse", (1_600_000, 24_000_000), 16,
        "non-trivial: string that must be rejected, or canonical with fractional part / near MAX; distinct by string",
        text_strategy, check_parse
    );
    vh_core::section!(
        rep, "arith", (800_000, 12_000_000), 16,
        "non-trivial: a+b crosses or touches MAX, or a<=b; distinct by pair",
        pair_strategy, check_arith
    );
    vh_core::fuzz_section!(rep, "parse", text_strategy, check_parse, "sec_protocol", "protocol", 1_000_000, 150, 6);
    vh_core::fuzz_section!(rep, "arith", pair_strategy, check_arith, "sec_protocol", "protocol", 500_000, 90, 4);
    vh_core::fuzz_section!(rep, "display", amount_strategy, check_display, "sec_protocol", "protocol", 500_000, 90, 4);
    rep.finish();
}
