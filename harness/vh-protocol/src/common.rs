//! Deterministic key material and quote/proof builders shared by C12 and C13.
//!
//! Everything here is a pure function of small integers / fixed bytes carried in the case, so a
//! replay file reproduces the very same keys and signatures (ed25519 and BLS signing are
//! deterministic for a fixed key and message).

use ant_evm::{EncodedPeerId, PaymentQuote, ProofOfPayment, QuotingMetrics, RewardsAddress};
use libp2p::identity::Keypair;
use libp2p::PeerId;
use proptest::prelude::*;
use serde::{Deserialize, Serialize};
use sha2::{Digest, Sha256};
use std::time::{Duration, SystemTime};
use xor_name::XorName;

pub fn h(tag: &str, i: u64) -> [u8; 32] {
    let mut s = Sha256::new();
    s.update(tag.as_bytes());
    s.update(i.to_le_bytes());
    s.finalize().into()
}

/// ed25519 libp2p keypair derived from a small integer
pub fn ed_keypair(seed: u64) -> Keypair {
    let mut b = h("verif-ed25519", seed);
    Keypair::ed25519_from_bytes(&mut b).expect("32 bytes are a valid ed25519 secret")
}

/// BLS secret key derived from a small integer (top byte cleared: always below the group order)
pub fn bls_sk(seed: u64) -> bls::SecretKey {
    let mut b = h("verif-bls", seed);
    b[0] = 0;
    if b.iter().all(|x| *x == 0) {
        b[31] = 1;
    }
    bls::SecretKey::from_bytes(b).expect("scalar below the group order")
}

/// independent SHA3-256 (the content address of a chunk / scratchpad payload)
pub fn sha3_256(input: &[u8]) -> [u8; 32] {
    use tiny_keccak::{Hasher, Sha3};
    let mut sha3 = Sha3::v256();
    let mut out = [0u8; 32];
    sha3.update(input);
    sha3.finalize(&mut out);
    out
}

#[derive(Clone, Debug, PartialEq, Eq, Serialize, Deserialize)]
pub struct MetricsSpec {
    pub close_records_stored: u64,
    pub max_records: u64,
    pub received_payment_count: u64,
    pub live_time: u64,
    pub network_density: Option<[u8; 32]>,
    pub network_size: Option<u64>,
}

impl MetricsSpec {
    pub fn build(&self) -> QuotingMetrics {
        QuotingMetrics {
            close_records_stored: self.close_records_stored as usize,
            max_records: self.max_records as usize,
            received_payment_count: self.received_payment_count as usize,
            live_time: self.live_time,
            network_density: self.network_density,
            network_size: self.network_size,
        }
    }
}

/// A quote described by plain data; `key` selects the signing node key.
#[derive(Clone, Debug, PartialEq, Eq, Serialize, Deserialize)]
pub struct QuoteSpec {
    pub key: u16,
    pub content: [u8; 32],
    /// seconds / nanoseconds after the Unix epoch
    pub ts_secs: u64,
    pub ts_nanos: u32,
    pub metrics: MetricsSpec,
    pub rewards: [u8; 20],
}

impl QuoteSpec {
    pub fn timestamp(&self) -> SystemTime {
        SystemTime::UNIX_EPOCH + Duration::new(self.ts_secs, self.ts_nanos)
    }
    pub fn keypair(&self) -> Keypair {
        ed_keypair(self.key as u64)
    }
    pub fn signer(&self) -> PeerId {
        self.keypair().public().to_peer_id()
    }
    /// The quote as an honest node produces it (mirrors `create_quote_for_storecost`: the node signs
    /// `PaymentQuote::bytes_for_signing(..)` of exactly the fields it then puts into the quote).
    pub fn build_signed(&self) -> PaymentQuote {
        let kp = self.keypair();
        let metrics = self.metrics.build();
        let rewards = RewardsAddress::new(self.rewards);
        let content = XorName(self.content);
        let ts = self.timestamp();
        let bytes = PaymentQuote::bytes_for_signing(content, ts, &metrics, &rewards);
        let signature = kp.sign(&bytes).expect("ed25519 signing cannot fail");
        PaymentQuote {
            content,
            timestamp: ts,
            quoting_metrics: metrics,
            rewards_address: rewards,
            pub_key: kp.public().encode_protobuf(),
            signature,
        }
    }
}

pub fn metrics_strategy() -> BoxedStrategy<MetricsSpec> {
    let num = || {
        prop_oneof![
            3 => 0u64..4,
            3 => 0u64..100_000,
            1 => any::<u64>(),
            1 => Just(u32::MAX as u64),
            1 => Just(u64::MAX),
        ]
    };
    (
        num(),
        num(),
        num(),
        num(),
        proptest::option::of(any::<[u8; 32]>()),
        proptest::option::of(num()),
    )
        .prop_map(|(a, b, c, d, e, f)| MetricsSpec {
            close_records_stored: a,
            max_records: b,
            received_payment_count: c,
            live_time: d,
            network_density: e,
            network_size: f,
        })
        .boxed()
}

/// timestamps well after the epoch (a real node clock), with and without a sub-second part
pub fn abs_time_strategy() -> BoxedStrategy<(u64, u32)> {
    let secs = prop_oneof![
        4 => 1_600_000_000u64..1_900_000_000,
        1 => 1u64..100_000,
        1 => Just(u32::MAX as u64),
        1 => (u32::MAX as u64 - 2)..(u32::MAX as u64 + 3),
    ];
    let nanos = prop_oneof![2 => Just(0u32), 3 => 0u32..1_000_000_000, 1 => Just(999_999_999u32)];
    (secs, nanos).boxed()
}

pub fn quote_strategy(keys: u16) -> BoxedStrategy<QuoteSpec> {
    (
        0..keys,
        any::<[u8; 32]>(),
        abs_time_strategy(),
        metrics_strategy(),
        any::<[u8; 20]>(),
    )
        .prop_map(|(key, content, (ts_secs, ts_nanos), metrics, rewards)| QuoteSpec {
            key,
            content,
            ts_secs,
            ts_nanos,
            metrics,
            rewards,
        })
        .boxed()
}

/// `EncodedPeerId` has a private field; its serde form is the plain byte sequence.
pub fn encoded_peer_id_from_bytes(bytes: &[u8]) -> EncodedPeerId {
    serde_json::from_value(serde_json::json!(bytes)).expect("EncodedPeerId is a newtype over bytes")
}

pub fn proof_of(quotes: &[QuoteSpec]) -> ProofOfPayment {
    ProofOfPayment {
        peer_quotes: quotes
            .iter()
            .map(|q| (EncodedPeerId::from(q.signer()), q.build_signed()))
            .collect(),
    }
}
