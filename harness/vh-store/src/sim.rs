//! StoreSim / DriverSim: a real `SwarmDriver` (with its real `NodeRecordStore`) that is never
//! `run()`; the harness drains its command channels and decides what is handled when.

#![allow(dead_code)]

use ant_networking::verif_hooks::{set_store_overrides, LocalSwarmCmd, NetworkSwarmCmd};
use ant_networking::{Network, NetworkBuilder, NetworkEvent, SwarmDriver};
use ant_protocol::storage::{RecordHeader, RecordKind, RecordType};
use ant_protocol::NetworkAddress;
use libp2p::identity::Keypair;
use libp2p::kad::{Record, RecordKey};
use libp2p::PeerId;
use sha2::{Digest, Sha256};
use std::collections::HashMap;
use std::net::SocketAddr;
use std::path::{Path, PathBuf};
use tokio::runtime::Runtime;
use tokio::sync::{mpsc, oneshot};

pub type U256 = ant_evm::U256;

pub fn scratch_base() -> PathBuf {
    if let Ok(p) = std::env::var("VERIF_TMP") {
        return PathBuf::from(p);
    }
    let shm = Path::new("/dev/shm");
    if shm.is_dir() {
        shm.to_path_buf()
    } else {
        std::env::temp_dir()
    }
}

pub fn new_tempdir() -> tempfile::TempDir {
    tempfile::Builder::new()
        .prefix("vh-store-")
        .tempdir_in(scratch_base())
        .expect("tempdir")
}

pub fn keypair_from_seed(seed: u64) -> Keypair {
    let mut h = Sha256::new();
    h.update(b"vh-store-keypair");
    h.update(seed.to_le_bytes());
    let bytes: [u8; 32] = h.finalize().into();
    Keypair::ed25519_from_bytes(bytes).expect("ed25519 from 32 bytes")
}

pub fn new_runtime() -> Runtime {
    tokio::runtime::Builder::new_current_thread()
        .enable_all()
        .build()
        .expect("runtime")
}

/// The reference metric of C11, written independently of ant-protocol / libp2p:
/// SHA-256 of the address bytes, XOR, read as a 256-bit big-endian integer.
pub fn ref_distance(a: &[u8], b: &[u8]) -> U256 {
    let ha: [u8; 32] = Sha256::digest(a).into();
    let hb: [u8; 32] = Sha256::digest(b).into();
    let mut x = [0u8; 32];
    for i in 0..32 {
        x[i] = ha[i] ^ hb[i];
    }
    U256::from_be_bytes(x)
}

pub fn kind_of(tag: u8) -> RecordKind {
    match tag % 4 {
        0 => RecordKind::Chunk,
        1 => RecordKind::Transaction,
        2 => RecordKind::Register,
        _ => RecordKind::Scratchpad,
    }
}

/// What `cmd.rs` derives as the `RecordType` of a locally put record.
pub fn expected_record_type(value: &[u8]) -> Option<RecordType> {
    let rec = Record {
        key: RecordKey::new(&[0u8]),
        value: value.to_vec(),
        publisher: None,
        expires: None,
    };
    let h = RecordHeader::from_record(&rec).ok()?;
    Some(match h.kind {
        RecordKind::Chunk => RecordType::Chunk,
        RecordKind::Scratchpad => RecordType::Scratchpad,
        RecordKind::Transaction | RecordKind::Register => {
            RecordType::NonChunk(xor_name::XorName::from_content(value))
        }
        _ => return None,
    })
}

/// A well-formed record value of the kind `kind_tag` selects (what validation hands to the store):
/// a chunk of `len` pseudo-random bytes, or — for the signed kinds — one of a small pool of
/// validly signed scratchpads / registers / transaction sets chosen by (`len` bucket, `seed`). The
/// pool keeps BLS signing out of the hot path; different (len, seed) mostly give different values.
pub fn make_value(kind_tag: u8, len: usize, seed: u32) -> Vec<u8> {
    use std::collections::HashMap;
    use std::sync::{Mutex, OnceLock};
    let kind = kind_of(kind_tag);
    if kind == RecordKind::Chunk {
        let mut x = (seed as u64).wrapping_mul(0x9e37_79b9_7f4a_7c15) | 1;
        let mut payload = Vec::with_capacity(len.max(1));
        for _ in 0..len.max(1) {
            x ^= x << 13;
            x ^= x >> 7;
            x ^= x << 17;
            payload.push((x >> 24) as u8);
        }
        let c = ant_protocol::storage::Chunk::new(bytes::Bytes::from(payload));
        return vh_fix::chunk_record(&c).value;
    }
    static POOL: OnceLock<Mutex<HashMap<(u8, u8, u8), Vec<u8>>>> = OnceLock::new();
    let bucket: u8 = match len {
        0..=63 => 0,
        64..=2047 => 1,
        _ => 2,
    };
    let pick = ((seed.wrapping_mul(2_654_435_761) >> 9) % 8) as u8;
    let slot = (kind_tag % 4, bucket, pick);
    let pool = POOL.get_or_init(|| Mutex::new(HashMap::new()));
    if let Some(v) = pool.lock().unwrap().get(&slot) {
        return v.clone();
    }
    let size = [12usize, 300, 6000][bucket as usize];
    let id = bucket as u64 * 8 + pick as u64;
    let key = RecordKey::new(&[0u8]);
    let v = match kind {
        RecordKind::Scratchpad => {
            let pad = vh_fix::scratchpad(70 + id % 5, 1, vh_fix::pseudo_bytes(id, size), 1 + id % 7, vh_fix::Sig::Valid);
            vh_fix::scratchpad_record(&pad).value
        }
        RecordKind::Register => {
            let owner = 80 + id % 3;
            let base = vh_fix::register_base(owner, id, Some(vec![]));
            let n = [1usize, 2, 4][bucket as usize];
            let ops = vh_fix::register_ops(owner, id, n, &[owner]);
            vh_fix::register_record(key, &vh_fix::signed_register(&base, owner, ops)).value
        }
        _ => {
            let owner = 90 + id % 5;
            let n = [1u64, 2, 3][bucket as usize];
            let txs: Vec<_> = (0..n).map(|i| vh_fix::transaction(owner, id * 4 + i, true)).collect();
            vh_fix::transactions_record(key, &txs).value
        }
    };
    pool.lock().unwrap().insert(slot, v.clone());
    v
}

/// A chunk record value of exactly `total` bytes (header and length prefix included).
pub fn chunk_value_of_total_len(total: usize, seed: u32) -> Vec<u8> {
    let mut len = total.saturating_sub(7).max(1);
    for _ in 0..4 {
        let v = make_value(0, len, seed);
        if v.len() == total {
            return v;
        }
        len = (len + total).saturating_sub(v.len()).max(1);
    }
    make_value(0, len, seed)
}

pub fn record(key: &RecordKey, value: Vec<u8>) -> Record {
    Record {
        key: key.clone(),
        value,
        publisher: None,
        expires: None,
    }
}

pub struct DriverSim {
    pub rt: Runtime,
    pub net: Network,
    pub driver: SwarmDriver,
    pub events: mpsc::Receiver<NetworkEvent>,
    /// completion notifications of the store's background tasks, not yet delivered
    pub notifications: Vec<LocalSwarmCmd>,
    pub network_cmds: Vec<NetworkSwarmCmd>,
    pub seen_events: Vec<NetworkEvent>,
    pub root: PathBuf,
    pub keypair: Keypair,
    pub self_addr_bytes: Vec<u8>,
}

impl Drop for DriverSim {
    fn drop(&mut self) {
        // the swarm's transports want a runtime context while being torn down
        let _g = self.rt.enter();
        self.notifications.clear();
        self.network_cmds.clear();
        self.seen_events.clear();
    }
}

impl DriverSim {
    /// Build a node driver over `root` (like `antnode` does), never running it.
    pub fn new_node(root: &Path, keypair: Keypair, store: Option<(usize, usize)>) -> DriverSim {
        Self::new_node_chan(root, keypair, store, None)
    }

    /// `chan`: capacity of the driver's local command channel (shipped: 10 000). With a handful of slots a
    /// burst of a few unacknowledged writes reaches "the channel is full", which a node only sees under load.
    pub fn new_node_chan(root: &Path, keypair: Keypair, store: Option<(usize, usize)>, chan: Option<usize>) -> DriverSim {
        let rt = new_runtime();
        // inside block_on, so that tasks spawned during construction queue FIFO with later ones
        let (net, events, driver) = rt.block_on(async {
            set_store_overrides(store);
            ant_networking::verif_hooks::set_local_cmd_channel_size(chan);
            let mut b = NetworkBuilder::new(keypair.clone(), true);
            b.listen_addr("127.0.0.1:0".parse::<SocketAddr>().unwrap());
            let r = b.build_node(root.to_path_buf()).expect("build_node");
            set_store_overrides(None);
            ant_networking::verif_hooks::set_local_cmd_channel_size(None);
            r
        });
        let peer = PeerId::from(keypair.public());
        DriverSim {
            rt,
            net,
            driver,
            events,
            notifications: vec![],
            network_cmds: vec![],
            seen_events: vec![],
            root: root.to_path_buf(),
            keypair,
            self_addr_bytes: peer.to_bytes(),
        }
    }

    /// a client driver on a runtime whose clock is paused: `tokio::time::sleep` inside the code under
    /// test (retry back-off) only returns when the harness advances the clock
    pub fn new_client_paused(keypair: Keypair) -> DriverSim {
        let rt = tokio::runtime::Builder::new_current_thread()
            .enable_all()
            .start_paused(true)
            .build()
            .expect("runtime");
        Self::new_client_on(rt, keypair)
    }

    pub fn new_client(keypair: Keypair) -> DriverSim {
        Self::new_client_on(new_runtime(), keypair)
    }

    fn new_client_on(rt: Runtime, keypair: Keypair) -> DriverSim {
        let (net, events, driver) = rt.block_on(async {
            NetworkBuilder::new(keypair.clone(), true)
                .build_client()
                .expect("build_client")
        });
        let peer = PeerId::from(keypair.public());
        DriverSim {
            rt,
            net,
            driver,
            events,
            notifications: vec![],
            network_cmds: vec![],
            seen_events: vec![],
            root: PathBuf::new(),
            keypair,
            self_addr_bytes: peer.to_bytes(),
        }
    }

    pub fn peer_id(&self) -> PeerId {
        PeerId::from(self.keypair.public())
    }

    pub fn storage_dir(&self) -> PathBuf {
        self.root.join("record_store")
    }

    /// Let spawned tasks run (`rounds` scheduler passes) and collect what they sent.
    pub fn run_tasks(&mut self, rounds: usize) -> usize {
        let mut got = 0;
        for _ in 0..rounds {
            // barrier: the scheduler is FIFO, so once this sentinel has run every task spawned
            // before it has run as well (a plain yield only runs a bounded batch of tasks)
            self.rt.block_on(async {
                let done = std::sync::Arc::new(std::sync::atomic::AtomicBool::new(false));
                let d2 = done.clone();
                tokio::spawn(async move {
                    d2.store(true, std::sync::atomic::Ordering::SeqCst);
                });
                let mut spins = 0u32;
                while !done.load(std::sync::atomic::Ordering::SeqCst) {
                    tokio::task::yield_now().await;
                    spins += 1;
                    if spins > 1_000_000 {
                        panic!("sentinel task never ran");
                    }
                }
            });
            got += self.drain();
        }
        got
    }

    /// Move everything from the driver's channels into the harness buffers.
    pub fn drain(&mut self) -> usize {
        let mut n = 0;
        while let Some(cmd) = self.driver.verif_try_recv_local_cmd() {
            n += 1;
            match cmd {
                LocalSwarmCmd::AddLocalRecordAsStored { .. }
                | LocalSwarmCmd::RemoveFailedLocalRecord { .. } => self.notifications.push(cmd),
                other => {
                    // nothing else is produced spontaneously in these sims; handle at once
                    let _g = self.rt.enter();
                    let _ = self.handle_local(other);
                }
            }
        }
        while let Some(cmd) = self.driver.verif_try_recv_network_cmd() {
            n += 1;
            self.network_cmds.push(cmd);
        }
        while let Ok(ev) = self.events.try_recv() {
            n += 1;
            self.seen_events.push(ev);
        }
        n
    }

    /// Run until no task produces anything for 3 consecutive rounds.
    pub fn quiesce_tasks(&mut self) {
        let mut idle = 0;
        let mut guard = 0;
        while idle < 3 && guard < 10_000 {
            if self.run_tasks(1) == 0 {
                idle += 1;
            } else {
                idle = 0;
            }
            guard += 1;
        }
    }

    /// Handle a local command with the real handler, inside the runtime context (handlers spawn).
    /// Run `f` on the driver *inside* `block_on`: tasks it spawns then go to the scheduler's local
    /// FIFO queue (spawns made under a mere `enter()` guard land in the inject queue, which the
    /// scheduler interleaves arbitrarily with the local one).
    pub fn with_driver<R>(&mut self, f: impl FnOnce(&mut SwarmDriver) -> R) -> R {
        let driver = &mut self.driver;
        self.rt.block_on(async move { f(driver) })
    }

    pub fn handle_local(&mut self, cmd: LocalSwarmCmd) -> Result<(), String> {
        self.with_driver(|d| d.verif_handle_local_cmd(cmd).map_err(|e| format!("{e:?}")))
    }

    pub fn handle_network(&mut self, cmd: NetworkSwarmCmd) -> Result<(), String> {
        self.with_driver(|d| d.verif_handle_network_cmd(cmd).map_err(|e| format!("{e:?}")))
    }

    /// Deliver the i-th buffered completion notification to the real handler.
    pub fn deliver_notification(&mut self, i: usize) {
        if i < self.notifications.len() {
            let cmd = self.notifications.remove(i);
            let _ = self.handle_local(cmd);
        }
    }

    /// Settle: run tasks, deliver every notification (order chosen by `pick`), until quiet.
    pub fn settle(&mut self, mut pick: impl FnMut(usize) -> usize) {
        let mut guard = 0;
        loop {
            self.quiesce_tasks();
            if self.notifications.is_empty() {
                break;
            }
            let n = self.notifications.len();
            let i = pick(n).min(n - 1);
            self.deliver_notification(i);
            guard += 1;
            if guard > 100_000 {
                panic!("settle does not terminate");
            }
        }
    }

    // ---- store operations, as the node layer issues them (cmd.rs arms) -------------------------

    pub fn put_local(&mut self, rec: Record) -> Result<(), String> {
        self.handle_local(LocalSwarmCmd::PutLocalRecord { record: rec })
    }

    pub fn get_local(&mut self, key: &RecordKey) -> Option<Record> {
        let (tx, mut rx) = oneshot::channel();
        let _ = self.handle_local(LocalSwarmCmd::GetLocalRecord {
            key: key.clone(),
            sender: tx,
        });
        rx.try_recv().expect("GetLocalRecord answers synchronously")
    }

    pub fn has_key(&mut self, key: &RecordKey) -> bool {
        let (tx, mut rx) = oneshot::channel();
        let _ = self.handle_local(LocalSwarmCmd::RecordStoreHasKey {
            key: key.clone(),
            sender: tx,
        });
        rx.try_recv().expect("RecordStoreHasKey answers synchronously")
    }

    pub fn list(&mut self) -> HashMap<NetworkAddress, RecordType> {
        let (tx, mut rx) = oneshot::channel();
        let _ = self.handle_local(LocalSwarmCmd::GetAllLocalRecordAddresses { sender: tx });
        rx.try_recv()
            .expect("GetAllLocalRecordAddresses answers synchronously")
    }

    pub fn remove(&mut self, key: &RecordKey) {
        use libp2p::kad::store::RecordStore;
        self.with_driver(|d| d.verif_store().remove(key));
    }

    pub fn quoting_metrics(&mut self, key: &RecordKey) -> (ant_evm::QuotingMetrics, bool) {
        let (tx, mut rx) = oneshot::channel();
        let _ = self.handle_local(LocalSwarmCmd::GetLocalQuotingMetrics {
                key: key.clone(),
                sender: tx,
            });
        rx.try_recv()
            .expect("GetLocalQuotingMetrics answers synchronously")
    }

    pub fn payment_received(&mut self) {
        let _ = self.handle_local(LocalSwarmCmd::PaymentReceived);
    }

    pub fn cleanup(&mut self) {
        let _ = self.handle_local(LocalSwarmCmd::TriggerIrrelevantRecordCleanup);
    }

    pub fn files(&self) -> Vec<String> {
        let mut out = vec![];
        if let Ok(rd) = std::fs::read_dir(self.storage_dir()) {
            for e in rd.flatten() {
                if let Some(n) = e.file_name().to_str() {
                    out.push(n.to_string());
                }
            }
        }
        out.sort();
        out
    }
}
