//! vh-store: checks over the real record store / swarm driver / replication fetcher of
//! ant-networking, stepped by the harness through the `verif-hooks` feature.
pub mod c01;
pub mod c02;
pub mod c05;
pub mod c08;
pub mod c10;
pub mod c11;
pub mod c13q;
pub mod c17r;
pub mod sim;

pub fn main_entry() {
    let cfg = vh_core::RunCfg::from_args();
    match cfg.prop.as_str() {
        "C01" => c01::run(cfg),
        "C02" => c02::run(cfg),
        "C05" => c05::run(cfg),
        "C08" => c08::run(cfg),
        "C10" => c10::run(cfg),
        "C11" => c11::run(cfg),
        "C13" => c13q::run(cfg),
        "C17" => c17r::run(cfg),
        other => {
            eprintln!("vh-store: unknown property {other}");
            std::process::exit(2);
        }
    }
}

/// Sections that the coverage-guided campaigns of the thorough tier drive (`/verif/fuzz`, target `sec_store`).
pub fn fuzz_table() -> vh_core::secfuzz::Table {
    use vh_core::secfuzz::entry;
    vec![
        entry("C08", "history", c08::case_strategy, c08::check),
        entry("C11", "fetch_order", c11::fetch_strategy, c11::check_fetch_order),
        entry("C11", "sort", c11::sort_strategy, c11::check_sort),
        entry("C05", "quorum", c05::case_strategy, c05::check),
        entry("C10", "capacity", c10::case_strategy, c10::check),
        entry("C01", "history", c01::case_strategy, c01::check),
    ]
}
