//! C13 (last clause), driver side — "a later quote from the same node that reports less uptime or fewer
//! received payments than an earlier one is flagged as inconsistent".
//!
//! `PaymentQuote::historical_verify` (a pure function, judged in vh-protocol's C13 sections) compares
//! two quotes; which two quotes get compared is decided by the swarm driver's per-peer quote history
//! (`LocalSwarmCmd::QuoteVerification` -> `verify_peer_quote`). This section delivers quotes of a few
//! peers in generated ARRIVAL order to the real driver and watches the BadQuoting issues it records.
//! It is run as a child of the C13 check (vh-protocol) and its evidence is folded into C13's.

use crate::sim::*;
use ant_evm::{PaymentQuote, QuotingMetrics, RewardsAddress};
use ant_networking::verif_hooks::LocalSwarmCmd;
use proptest::prelude::*;
use serde::{Deserialize, Serialize};
use std::time::{Duration, SystemTime};
use vh_core::{Ctx, Report, RunCfg};
use vh_fix as fix;

#[derive(Clone, Debug, Serialize, Deserialize)]
pub struct Q {
    pub peer: u8,
    /// the quote is dated `now - 3000 s + 60 s * rank`
    pub rank: u8,
    /// received payments claimed = 2 * rank + pays_delta (clamped at 0)
    pub pays_delta: i8,
    /// uptime claimed = rank + live_delta (clamped at 0)
    pub live_delta: i8,
}

#[derive(Clone, Debug, Serialize, Deserialize)]
pub struct Case {
    pub arrivals: Vec<Q>,
    /// (before arrival i, n): quotes of n further, distinct peers (one each, unobjectionable) are verified
    /// there — a node sees quotes of many peers between two quotes of one peer
    #[serde(default)]
    pub crowd: Vec<(u8, u8)>,
}

fn strategy() -> BoxedStrategy<Case> {
    let q = (0u8..2, 0u8..12, prop_oneof![6 => Just(0i8), 1 => Just(1i8), 1 => -6i8..0, 2 => -24i8..-6], prop_oneof![8 => Just(0i8), 1 => -4i8..0, 1 => -12i8..-4])
        .prop_map(|(peer, rank, pays_delta, live_delta)| Q { peer, rank, pays_delta, live_delta });
    let crowd = prop_oneof![2 => Just(vec![]), 1 => proptest::collection::vec((0u8..8, prop_oneof![1u8..8, 15u8..45]), 1..3)];
    (proptest::collection::vec(q, 2..vh_core::depth(9, 16)), crowd).prop_map(|(arrivals, crowd)| Case { arrivals, crowd }).boxed()
}

fn mk_quote(q: &Q, base: SystemTime) -> PaymentQuote {
    let kp = fix::ed_keypair(600 + q.peer as u64);
    let ts = base + Duration::from_secs(60 * q.rank as u64);
    let qm = QuotingMetrics {
        close_records_stored: 10,
        max_records: 16384,
        received_payment_count: (2 * q.rank as i64 + q.pays_delta as i64).max(0) as usize,
        live_time: (q.rank as i64 + q.live_delta as i64).max(0) as u64,
        network_density: None,
        network_size: Some(100),
    };
    let content = xor_name::XorName(fix::h32("c13q-content", &[q.peer as u64]));
    let rewards = RewardsAddress::from_slice(&fix::h32("c13q-rewards", &[q.peer as u64])[..20]);
    let bytes = PaymentQuote::bytes_for_signing(content, ts, &qm, &rewards);
    PaymentQuote { content, timestamp: ts, quoting_metrics: qm, rewards_address: rewards, pub_key: kp.public().encode_protobuf(), signature: kp.sign(&bytes).expect("sign") }
}

#[derive(Clone)]
enum PeerState {
    /// the latest-dated quote delivered so far (all deliveries so far were mutually consistent)
    Judging(Option<(u8, usize, u64)>),
    /// a flag was due or was raised: the driver's de-duplication window (10 s) hides further ones
    Stopped,
}

fn check(case: &Case, ctx: &mut Ctx) {
    // a fresh driver per case: the history and the issue list are per-driver state
    let dir = new_tempdir();
    let mut sim = DriverSim::new_node(dir.path(), keypair_from_seed(0x1300), None);
    let base = SystemTime::now() - Duration::from_secs(3000);
    let mut st = vec![PeerState::Judging(None), PeerState::Judging(None)];
    let (mut due, mut out_of_order) = (0, 0);
    let mut bystanders = 0u64;
    for (i, q) in case.arrivals.iter().enumerate() {
        for (_, n) in case.crowd.iter().filter(|(at, _)| *at as usize == i) {
            for _ in 0..*n {
                // one quote per bystander, dated among and after the tracked peers' quotes
                let b = Q { peer: 0, rank: ((bystanders * 7) % 16) as u8, pays_delta: 0, live_delta: 0 };
                let mut quote = mk_quote(&b, base);
                let kp = fix::ed_keypair(700 + bystanders);
                quote.pub_key = kp.public().encode_protobuf();
                let bytes = PaymentQuote::bytes_for_signing(quote.content, quote.timestamp, &quote.quoting_metrics, &quote.rewards_address);
                quote.signature = kp.sign(&bytes).expect("sign");
                let _ = sim.handle_local(LocalSwarmCmd::QuoteVerification { quotes: vec![(fix::peer(700 + bystanders), quote)] });
                bystanders += 1;
            }
            sim.drain();
        }
        let p = (q.peer % 2) as usize;
        let peer = fix::peer(600 + p as u64);
        let quote = mk_quote(q, base);
        let (pays, live) = (quote.quoting_metrics.received_payment_count, quote.quoting_metrics.live_time);
        let before = sim.with_driver(|d| d.verif_bad_quoting_issues(&peer));
        let _ = sim.handle_local(LocalSwarmCmd::QuoteVerification { quotes: vec![(peer, quote)] });
        sim.drain();
        let after = sim.with_driver(|d| d.verif_bad_quoting_issues(&peer));
        let flagged = after.0 > before.0 || (after.1 && !before.1);
        let PeerState::Judging(max) = st[p].clone() else { continue };
        match max {
            None => st[p] = PeerState::Judging(Some((q.rank, pays, live))),
            Some((mr, mp, ml)) => {
                if q.rank > mr {
                    if pays < mp || live < ml {
                        // later than everything seen from this peer, and claims less: must be flagged
                        due += 1;
                        if !flagged {
                            ctx.fail(
                                "later_quote_claiming_less_not_flagged_by_the_quote_history",
                                format!("arrival {i}: peer {p} quote dated rank {} claims payments {pays} uptime {live}; the latest-dated quote delivered before it (rank {mr}) claimed payments {mp} uptime {ml}; no BadQuoting issue was recorded (arrivals {:?})", q.rank, case.arrivals),
                            );
                        }
                        st[p] = PeerState::Stopped;
                    } else if flagged {
                        ctx.label("consistent_later_quote_flagged(not_judged)");
                        st[p] = PeerState::Stopped;
                    } else {
                        st[p] = PeerState::Judging(Some((q.rank, pays, live)));
                    }
                } else if q.rank < mr {
                    out_of_order += 1;
                    if pays > mp || live > ml || flagged {
                        // an older quote that claims more than a newer one: which of the two is "the"
                        // inconsistent one is the implementation's call
                        st[p] = PeerState::Stopped;
                    }
                } else {
                    st[p] = PeerState::Stopped;
                }
            }
        }
    }
    ctx.label_if(due > 0, "flag_due");
    ctx.label_if(bystanders >= 20, "twenty_or_more_other_peers_quoted_in_between");
    ctx.label_if(bystanders > 0 && bystanders < 20, "a_few_other_peers_quoted_in_between");
    ctx.label_if(out_of_order > 0, "older_quote_arrives_after_a_newer_one");
    ctx.nontrivial_if(due > 0 && out_of_order > 0);
    drop(sim);
}

pub fn run(cfg: RunCfg) {
    let mut rep = Report::new(cfg, "exploration");
    rep.rule = "C13 (driver side): quotes of two peers delivered to the real SwarmDriver (LocalSwarmCmd::QuoteVerification) in generated arrival order; per peer the reference model is the latest-dated quote delivered so far.".into();
    rep.assumptions = vec![
        "a flag is demanded only when the arriving quote is dated later than every quote delivered before from that peer and claims fewer payments or less uptime than the latest-dated of them; an older quote claiming more than a newer one is an either-zone; a peer is judged up to its first (due or observed) flag because the driver collapses issues raised within 10 s".into(),
        "quotes are dated in the past (50 min .. 39 min ago) so that the clock-skew escape of historical_verify does not apply; claimed uptime moves in step with the dates".into(),
    ];
    vh_core::section!(
        rep, "quote_history", (12_000, 250_000), 16,
        "2..8 arrivals over 2 peers, 12 dates, payments/uptime in step with the date or lowered; non-trivial: a flag is due and an older quote arrived after a newer one; distinct by arrival list",
        strategy, check
    );
    rep.finish();
}
