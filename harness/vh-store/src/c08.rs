//! C08 — replication fetching is bounded, duplicate-free, in-range and makes progress.
//!
//! The real `ReplicationFetcher` (through the `VerifFetcher` hook wrapper) is driven with generated
//! interleavings of advertisement lists, completions, early completions, range / fullness updates
//! and virtual-time ageing. A monitor written from the statement keeps its own in-flight set and
//! checks the history invariants I1–I7 after every call; a second section checks bounded progress.

use crate::sim::{keypair_from_seed, new_runtime, ref_distance, U256};
use ant_networking::verif_hooks::VerifFetcher;
use ant_networking::NetworkEvent;
use ant_protocol::storage::RecordType;
use ant_protocol::NetworkAddress;
use libp2p::kad::RecordKey;
use libp2p::PeerId;
use proptest::prelude::*;
use serde::{Deserialize, Serialize};
use sha2::{Digest, Sha256};
use std::collections::{BTreeSet, HashMap, HashSet};
use std::time::Duration;
use tokio::sync::mpsc;
use vh_core::{pick_idx, Ctx, Report, RunCfg};

const NKEYS: usize = 40;
const NHOLDERS: usize = 5;
const MAXP: usize = 20;
/// guard band around the 20 s fetch deadline (deadlines are real `Instant`s shifted by the ageing hook)
const SURE_ALIVE_S: u64 = 17;
const SURE_DEAD_S: u64 = 23;

#[derive(Clone, Debug, Serialize, Deserialize)]
pub enum RangeSel {
    AtKey(u8),
    AboveKey(u8),
    Frac(u16),
    Max,
}

#[derive(Clone, Debug, Serialize, Deserialize)]
pub enum Op {
    /// an advertisement list from a holder: (key index, version selector)
    AddKeys { holder: u8, keys: Vec<(u8, u8)> },
    /// a record was stored locally (fetched or uploaded)
    NewPut { k: u8, t: u8 },
    /// a fetch was reported complete without a store (old version fetched)
    EarlyCompleted { k: u8, t: u8 },
    /// the record disappears from the local store (pruned)
    LocalRemove { k: u8 },
    SetRange(RangeSel),
    /// the node is full: farthest held record is key k
    SetFarthestOnFull { k: u8 },
    NextKeys,
    Age { secs: u16 },
}

#[derive(Clone, Debug, Serialize, Deserialize)]
pub struct Case {
    pub node: u8,
    pub ops: Vec<Op>,
}

fn keys_strategy() -> impl Strategy<Value = Vec<(u8, u8)>> {
    prop_oneof![
        3 => proptest::collection::vec((0u8..NKEYS as u8, 0u8..4), 1..=1),
        3 => proptest::collection::vec((0u8..NKEYS as u8, 0u8..4), 2..=3),
        3 => proptest::collection::vec((0u8..NKEYS as u8, 0u8..4), 2..=30),
        // a whole-store advertisement
        1 => (0u8..4).prop_map(|t| (0..NKEYS as u8).map(|k| (k, t)).collect()),
    ]
}

fn op_strategy() -> impl Strategy<Value = Op> {
    prop_oneof![
        30 => (0u8..NHOLDERS as u8, keys_strategy()).prop_map(|(holder, keys)| Op::AddKeys { holder, keys }),
        14 => (0u8..NKEYS as u8, 0u8..4).prop_map(|(k, t)| Op::NewPut { k, t }),
        6 => (0u8..NKEYS as u8, 0u8..4).prop_map(|(k, t)| Op::EarlyCompleted { k, t }),
        3 => (0u8..NKEYS as u8).prop_map(|k| Op::LocalRemove { k }),
        5 => prop_oneof![
            (0u8..NKEYS as u8).prop_map(RangeSel::AtKey),
            (0u8..NKEYS as u8).prop_map(RangeSel::AboveKey),
            any::<u16>().prop_map(RangeSel::Frac),
            Just(RangeSel::Max)
        ].prop_map(Op::SetRange),
        3 => (0u8..NKEYS as u8).prop_map(|k| Op::SetFarthestOnFull { k }),
        8 => Just(Op::NextKeys),
        8 => prop_oneof![4 => 1u16..16, 4 => 24u16..60, 1 => 16u16..24, 1 => Just(1000u16)].prop_map(|secs| Op::Age { secs }),
    ]
}

pub fn case_strategy() -> BoxedStrategy<Case> {
    (0u8..4, proptest::collection::vec(op_strategy(), 1..vh_core::depth(60, 220)))
        .prop_map(|(node, ops)| Case { node, ops })
        .boxed()
}

pub fn type_of(k: usize, t: u8) -> RecordType {
    // keys 0..13 hold chunks, 14..19 scratchpads, the rest versioned (register / transaction) records
    match (k, t % 4) {
        (0..=13, 0..=2) => RecordType::Chunk,
        (14..=19, 0..=2) => RecordType::Scratchpad,
        (_, v) => {
            let mut h = Sha256::new();
            h.update(b"version");
            h.update([k as u8, v]);
            let b: [u8; 32] = h.finalize().into();
            RecordType::NonChunk(xor_name::XorName(b))
        }
    }
}

pub struct World {
    pub rt: tokio::runtime::Runtime,
    pub f: VerifFetcher,
    pub events: mpsc::Receiver<NetworkEvent>,
    pub self_bytes: Vec<u8>,
    /// keys sorted by increasing reference distance
    pub keys: Vec<(RecordKey, NetworkAddress, U256)>,
    pub holders: Vec<PeerId>,
}

impl World {
    pub fn new(node: u8) -> World {
        let rt = new_runtime();
        let me = PeerId::from(keypair_from_seed(0x8000 + node as u64).public());
        let (tx, events) = mpsc::channel(100_000);
        let f = VerifFetcher::new(me, tx);
        let self_bytes = me.to_bytes();
        let mut keys: Vec<(RecordKey, NetworkAddress, U256)> = (0..NKEYS)
            .map(|i| {
                let mut h = Sha256::new();
                h.update(b"c08-key");
                h.update([node, i as u8]);
                let b: [u8; 32] = h.finalize().into();
                let rk = RecordKey::new(&b);
                (rk.clone(), NetworkAddress::from_record_key(&rk), ref_distance(&self_bytes, &b))
            })
            .collect();
        keys.sort_by(|a, b| a.2.cmp(&b.2));
        let holders = (0..NHOLDERS).map(|i| PeerId::from(keypair_from_seed(0x9000 + i as u64).public())).collect();
        World { rt, f, events, self_bytes, keys, holders }
    }
    pub fn idx(&self, k: &RecordKey) -> usize {
        self.keys.iter().position(|x| x.0 == *k).expect("key of the universe")
    }
    pub fn hidx(&self, p: &PeerId) -> usize {
        self.holders.iter().position(|x| x == p).expect("holder of the universe")
    }
    /// snapshot as index triples (key, type, holder)
    pub fn pending(&self) -> HashSet<(usize, RecordType, usize)> {
        self.f.to_be_fetched().into_iter().map(|(k, t, p)| (self.idx(&k), t, self.hidx(&p))).collect()
    }
    pub fn ongoing(&self) -> HashSet<(usize, RecordType, usize)> {
        self.f.on_going_fetches().into_iter().map(|(k, t, p)| (self.idx(&k), t, self.hidx(&p))).collect()
    }
    /// run spawned senders and collect the holders reported as failed
    pub fn failed_holders(&mut self) -> BTreeSet<usize> {
        self.rt.block_on(async {
            for _ in 0..4 {
                tokio::task::yield_now().await;
            }
        });
        let mut out = BTreeSet::new();
        while let Ok(ev) = self.events.try_recv() {
            if let NetworkEvent::FailedToFetchHolders(hs) = ev {
                for h in hs {
                    out.insert(self.hidx(&h));
                }
            }
        }
        out
    }
}

#[derive(Clone, Debug)]
struct Flight {
    holder: usize,
    started: u64,
}

#[derive(PartialEq)]
enum Call {
    AddKeys,
    Other,
}

struct Monitor {
    now: u64,
    flights: HashMap<(usize, RecordType), Flight>,
    local: HashMap<usize, RecordType>,
    range: Option<U256>,
    farthest: Option<U256>,
}

pub fn check(case: &Case, ctx: &mut Ctx) {
    let mut w = World::new(case.node);
    let mut m = Monitor { now: 0, flights: HashMap::new(), local: HashMap::new(), range: None, farthest: None };
    let (mut holders_seen, mut completions, mut range_or_full, mut aged_across) = (BTreeSet::new(), 0, false, false);
    let mut multi_adverts = 0;

    for (step, op) in case.ops.iter().enumerate() {
        let at = format!("step {step} {}", vh_core::one_line(&format!("{op:?}"), 120));
        let pre_pending = w.pending();
        let pre_ongoing = w.ongoing();
        let mut incoming: Vec<(usize, RecordType)> = vec![];
        let mut call = Call::Other;
        let mut advert_holder = 0usize;
        let local_map: HashMap<RecordKey, (NetworkAddress, RecordType)> = m
            .local
            .iter()
            .map(|(i, t)| (w.keys[*i].0.clone(), (w.keys[*i].1.clone(), t.clone())))
            .collect();
        let returned: Option<Vec<(PeerId, RecordKey)>> = match op {
            Op::AddKeys { holder, keys } => {
                call = Call::AddKeys;
                advert_holder = *holder as usize % NHOLDERS;
                holders_seen.insert(advert_holder);
                let mut seen = HashSet::new();
                for (k, t) in keys {
                    let ki = *k as usize % NKEYS;
                    let ty = type_of(ki, *t);
                    if seen.insert((ki, ty.clone())) {
                        incoming.push((ki, ty));
                    }
                }
                if incoming.len() >= 2 {
                    multi_adverts += 1;
                }
                let list = incoming.iter().map(|(i, t)| (w.keys[*i].1.clone(), t.clone())).collect();
                let h = w.holders[advert_holder];
                let (f, rt) = (&mut w.f, &w.rt);
                Some(rt.block_on(async { f.add_keys(h, list, &local_map) }))
            }
            Op::NewPut { k, t } => {
                let ki = *k as usize % NKEYS;
                let ty = type_of(ki, *t);
                m.local.insert(ki, ty.clone());
                completions += 1;
                let key = w.keys[ki].0.clone();
                let (f, rt) = (&mut w.f, &w.rt);
                Some(rt.block_on(async { f.notify_about_new_put(key, ty) }))
            }
            Op::EarlyCompleted { k, t } => {
                let ki = *k as usize % NKEYS;
                let ty = type_of(ki, *t);
                completions += 1;
                let key = w.keys[ki].0.clone();
                let (f, rt) = (&mut w.f, &w.rt);
                Some(rt.block_on(async { f.notify_fetch_early_completed(key, ty) }))
            }
            Op::LocalRemove { k } => {
                m.local.remove(&(*k as usize % NKEYS));
                None
            }
            Op::SetRange(sel) => {
                let r = match sel {
                    RangeSel::AtKey(k) => w.keys[*k as usize % NKEYS].2,
                    RangeSel::AboveKey(k) => w.keys[*k as usize % NKEYS].2.saturating_add(U256::from(1u8)),
                    RangeSel::Frac(f) => (U256::MAX >> 16) * U256::from(*f),
                    RangeSel::Max => U256::MAX,
                };
                w.f.set_replication_distance_range(r);
                m.range = Some(r);
                range_or_full = true;
                None
            }
            Op::SetFarthestOnFull { k } => {
                let ki = *k as usize % NKEYS;
                w.f.set_farthest_on_full(Some(w.keys[ki].0.clone()));
                let d = w.keys[ki].2;
                m.farthest = Some(match m.farthest {
                    Some(old) if old < d => old,
                    _ => d,
                });
                range_or_full = true;
                // I3 (second half): farther pending / in-flight entries are gone at once
                for (i, _t, _h) in w.pending().iter().chain(w.ongoing().iter()) {
                    if w.keys[*i].2 > d {
                        ctx.fail("farther_entry_survives_set_farthest_on_full", format!("{at}: key {i} is farther than the farthest held record {ki} and still queued / in flight"));
                        break;
                    }
                }
                // the monitor forgets flights that the fetcher is told to abandon
                let lim = m.farthest.unwrap();
                m.flights.retain(|(i, _), _| w.keys[*i].2 <= lim);
                None
            }
            Op::NextKeys => {
                let (f, rt) = (&mut w.f, &w.rt);
                Some(rt.block_on(async { f.next_keys_to_fetch() }))
            }
            Op::Age { secs } => {
                w.f.age(Duration::from_secs(*secs as u64));
                m.now += *secs as u64;
                if m.flights.values().any(|fl| m.now - fl.started >= SURE_DEAD_S) {
                    aged_across = true;
                }
                None
            }
        };

        let Some(returned) = returned else { continue };
        let post_pending = w.pending();
        let post_ongoing = w.ongoing();
        let failed = w.failed_holders();
        let returned_idx: Vec<(usize, usize)> = returned.iter().map(|(p, k)| (w.hidx(p), w.idx(k))).collect();

        // flights that ended by this call, per the statement
        match op {
            Op::NewPut { k, .. } => {
                let ki = *k as usize % NKEYS;
                m.flights.retain(|(i, _), _| *i != ki);
            }
            Op::EarlyCompleted { k, t } => {
                let ki = *k as usize % NKEYS;
                m.flights.remove(&(ki, type_of(ki, *t)));
            }
            Op::AddKeys { .. } => {
                // a record now held locally (same version) no longer needs fetching
                let local = m.local.clone();
                m.flights.retain(|(i, t), _| local.get(i) != Some(t));
            }
            _ => {}
        }

        // a record that arrived (was stored) ends the fetches of that key: none may stay in flight
        if let Op::NewPut { k, .. } = op {
            let ki = *k as usize % NKEYS;
            let stale: Vec<&(usize, RecordType, usize)> = post_ongoing.iter().filter(|e| e.0 == ki && pre_ongoing.contains(*e) && !post_pending.iter().any(|p| p.0 == ki)).collect();
            // (an entry that was ended and immediately rescheduled from the queue is legitimate: it needs
            // a queued entry of that key before the call)
            let requeued = pre_pending.iter().any(|p| p.0 == ki);
            if !stale.is_empty() && !requeued {
                ctx.fail("fetch_still_in_flight_after_the_record_arrived", format!("{at}: key {ki} was stored, yet its fetch {:?} is still in flight", stale[0].1));
            }
        }

        // I7: fetches past their deadline leave the in-flight set, holder reported, its queue dropped
        let mut timed_out_holders = BTreeSet::new();
        let mut timed_out_flights: HashSet<(usize, RecordType)> = HashSet::new();
        let now = m.now;
        for ((i, t), fl) in m.flights.clone() {
            let age = now - fl.started;
            if age >= SURE_DEAD_S {
                timed_out_flights.insert((i, t.clone()));
                if post_ongoing.contains(&(i, t.clone(), fl.holder)) {
                    ctx.fail("timed_out_fetch_still_in_flight", format!("{at}: fetch of key {i} from holder {} started {age}s ago and is still in flight", fl.holder));
                }
                if !failed.contains(&fl.holder) {
                    ctx.fail("timed_out_holder_not_reported", format!("{at}: fetch of key {i} from holder {} timed out ({age}s) but no FailedToFetchHolders event names it (got {failed:?})", fl.holder));
                }
                timed_out_holders.insert(fl.holder);
                m.flights.remove(&(i, t));
            } else if age > SURE_ALIVE_S {
                // within the guard band: may or may not have been pruned; follow the fetcher
                if !post_ongoing.contains(&(i, t.clone(), fl.holder)) {
                    m.flights.remove(&(i, t));
                }
            }
        }
        for (i, _t, h) in &post_pending {
            if timed_out_holders.contains(h) {
                ctx.fail("timed_out_holder_entries_kept", format!("{at}: holder {h} timed out but its queued entry for key {i} was kept"));
                break;
            }
        }

        // newly in flight = snapshot difference; must agree with what the call returned
        // (an entry that this very call ended per the statement and then scheduled again shows up
        // unchanged in both snapshots, so the "before" side is reduced by what the call ended)
        let ended_by_call = |e: &(usize, RecordType, usize)| -> bool {
            (match op {
                Op::NewPut { k, .. } => e.0 == *k as usize % NKEYS,
                Op::EarlyCompleted { k, t } => e.0 == *k as usize % NKEYS && e.1 == type_of(e.0, *t),
                Op::AddKeys { .. } => m.local.get(&e.0) == Some(&e.1),
                _ => false,
            }) || timed_out_flights.contains(&(e.0, e.1.clone()))
        };
        let pre_live: HashSet<(usize, RecordType, usize)> = pre_ongoing.iter().filter(|e| !ended_by_call(e)).cloned().collect();
        let new_flights: Vec<(usize, RecordType, usize)> = post_ongoing.difference(&pre_live).cloned().collect();
        let mut a: Vec<(usize, usize)> = new_flights.iter().map(|(i, _, h)| (*h, *i)).collect();
        let mut b = returned_idx.clone();
        a.sort();
        b.sort();
        if a != b {
            ctx.fail("returned_fetches_disagree_with_in_flight_set", format!("{at}: returned (holder,key) {b:?}, newly in flight {a:?}"));
        }

        for (i, t, h) in &new_flights {
            // I4: never two concurrent fetches of one record version
            if let Some(fl) = m.flights.get(&(*i, t.clone())) {
                if now - fl.started <= SURE_ALIVE_S {
                    ctx.fail("duplicate_concurrent_fetch", format!("{at}: key {i} {t:?} scheduled from holder {h} while a fetch from holder {} started {}s ago is still running", fl.holder, now - fl.started));
                }
            }
            // I3: nothing farther than the farthest held record once full
            if let Some(lim) = m.farthest {
                if w.keys[*i].2 > lim {
                    ctx.fail("scheduled_farther_than_farthest_when_full", format!("{at}: key {i} scheduled although farther than the farthest held record"));
                }
            }
            if call == Call::AddKeys {
                // I1: nothing scheduled for a record present in the local map of that call
                if m.local.get(i) == Some(t) && incoming.contains(&(*i, t.clone())) {
                    ctx.fail("scheduled_record_already_held", format!("{at}: key {i} {t:?} is in the local store given to this call, yet scheduled"));
                }
                // I2: keys taken from a multi-record advertisement must lie within the range
                let from_this_advert = incoming.contains(&(*i, t.clone())) && *h == advert_holder && !pre_pending.contains(&(*i, t.clone(), *h));
                if from_this_advert && incoming.len() >= 2 {
                    if let Some(r) = m.range {
                        if w.keys[*i].2 > r {
                            let fresh: Vec<_> = incoming
                                .iter()
                                .filter(|(j, tt)| !m.local.contains_key(j) && !pre_pending.contains(&(*j, tt.clone(), advert_holder)))
                                .collect();
                            let sig = if fresh.len() == 1 {
                                "multi_record_advert_with_single_new_key_bypasses_range"
                            } else {
                                "out_of_range_key_scheduled_from_multi_record_advert"
                            };
                            ctx.fail(sig, format!("{at}: key {i} taken from an advertisement of {} records lies outside the responsible range, yet scheduled ({} of them unknown to the node)", incoming.len(), fresh.len()));
                        }
                    }
                }
            }
            m.flights.insert((*i, t.clone()), Flight { holder: *h, started: now });
        }

        // I5: batch scheduling never exceeds the parallel-fetch limit
        let batch_certain = if call == Call::AddKeys { returned_idx.len() >= 2 } else { !returned_idx.is_empty() };
        if batch_certain && post_ongoing.len() > MAXP {
            ctx.fail("batch_scheduling_exceeds_parallel_limit", format!("{at}: {} fetches in flight after a batch scheduling of {}", post_ongoing.len(), returned_idx.len()));
        }
        // I6: closest first — whatever eligible entry is left queued is no closer than what was scheduled,
        // and is only left queued because the limit was reached
        let ongoing_keys: HashSet<(usize, RecordType)> = post_ongoing.iter().map(|(i, t, _)| (*i, t.clone())).collect();
        let eligible_left: Vec<&(usize, RecordType, usize)> = post_pending.iter().filter(|(i, t, _)| !ongoing_keys.contains(&(*i, t.clone()))).collect();
        if !eligible_left.is_empty() {
            if post_ongoing.len() < MAXP {
                // (leaving a slot unused for one round is not against the statement; progress is judged
                // in the `progress` section)
                ctx.label("observation:eligible_entry_left_unscheduled_below_limit");
            }
            if batch_certain {
                let max_sched = new_flights.iter().map(|(i, _, _)| w.keys[*i].2).max();
                let min_left = eligible_left.iter().map(|(i, _, _)| w.keys[*i].2).min();
                if let (Some(a), Some(b)) = (max_sched, min_left) {
                    // with >=2 returned from add_keys one of them may be the single-key fast path:
                    // compare against the second-farthest scheduled in that case
                    let mut ds: Vec<U256> = new_flights.iter().map(|(i, _, _)| w.keys[*i].2).collect();
                    ds.sort();
                    let cmp = if call == Call::AddKeys && ds.len() >= 2 { ds[ds.len() - 2] } else { a };
                    if cmp > b {
                        ctx.fail("not_closest_first", format!("{at}: scheduled a record at distance rank beyond an eligible closer one left queued"));
                    }
                }
            }
        }
    }
    ctx.label_if(holders_seen.len() >= 2, "two_or_more_holders");
    ctx.label_if(completions > 0, "completion");
    ctx.label_if(range_or_full, "range_or_full_set");
    ctx.label_if(aged_across, "aged_across_fetch_deadline");
    ctx.label_if(multi_adverts > 0, "multi_record_advert");
    ctx.nontrivial_if(holders_seen.len() >= 2 && completions > 0 && range_or_full && aged_across);
}

// ------------------------------------------------------------------------------------------------
// I8: bounded progress
// ------------------------------------------------------------------------------------------------

#[derive(Clone, Debug, Serialize, Deserialize)]
pub struct ProgressCase {
    pub node: u8,
    /// history that builds up queue state first (no ageing: every holder stays responsive)
    pub prefix: Vec<Op>,
    pub target: u16,
    pub holder: u8,
    /// advertise the target alone or inside a list
    pub companions: Vec<u8>,
}

fn progress_strategy() -> BoxedStrategy<ProgressCase> {
    let prefix_op = prop_oneof![
        8 => (0u8..NHOLDERS as u8, keys_strategy()).prop_map(|(holder, keys)| Op::AddKeys { holder, keys }),
        2 => (0u8..NKEYS as u8, 0u8..4).prop_map(|(k, t)| Op::NewPut { k, t }),
        1 => prop_oneof![(0u8..NKEYS as u8).prop_map(RangeSel::AboveKey), Just(RangeSel::Max)].prop_map(Op::SetRange),
        1 => (20u8..NKEYS as u8).prop_map(|k| Op::SetFarthestOnFull { k }),
    ];
    (0u8..4, proptest::collection::vec(prefix_op, 0..25), any::<u16>(), 0u8..NHOLDERS as u8, proptest::collection::vec(0u8..NKEYS as u8, 0..4))
        .prop_map(|(node, prefix, target, holder, companions)| ProgressCase { node, prefix, target, holder, companions })
        .boxed()
}

fn check_progress(case: &ProgressCase, ctx: &mut Ctx) {
    let mut w = World::new(case.node);
    let mut local: HashMap<usize, RecordType> = HashMap::new();
    let mut range: Option<U256> = None;
    let mut farthest: Option<U256> = None;
    let lm = |local: &HashMap<usize, RecordType>, w: &World| -> HashMap<RecordKey, (NetworkAddress, RecordType)> {
        local.iter().map(|(i, t)| (w.keys[*i].0.clone(), (w.keys[*i].1.clone(), t.clone()))).collect()
    };
    for op in &case.prefix {
        match op {
            Op::AddKeys { holder, keys } => {
                let list: Vec<_> = keys.iter().map(|(k, t)| (w.keys[*k as usize % NKEYS].1.clone(), type_of(*k as usize % NKEYS, *t))).collect();
                let h = w.holders[*holder as usize % NHOLDERS];
                let map = lm(&local, &w);
                let (f, rt) = (&mut w.f, &w.rt);
                let _ = rt.block_on(async { f.add_keys(h, list, &map) });
            }
            Op::NewPut { k, t } => {
                let ki = *k as usize % NKEYS;
                local.insert(ki, type_of(ki, *t));
                let key = w.keys[ki].0.clone();
                let (f, rt) = (&mut w.f, &w.rt);
                let _ = rt.block_on(async { f.notify_about_new_put(key, type_of(ki, *t)) });
            }
            Op::SetRange(sel) => {
                let r = match sel {
                    RangeSel::AboveKey(k) => w.keys[*k as usize % NKEYS].2.saturating_add(U256::from(1u8)),
                    _ => U256::MAX,
                };
                w.f.set_replication_distance_range(r);
                range = Some(r);
            }
            Op::SetFarthestOnFull { k } => {
                let ki = *k as usize % NKEYS;
                w.f.set_farthest_on_full(Some(w.keys[ki].0.clone()));
                let d = w.keys[ki].2;
                farthest = Some(farthest.map(|o: U256| o.min(d)).unwrap_or(d));
            }
            _ => {}
        }
    }
    // choose a target the statement covers: missing locally, in range, not beyond the farthest when full
    let candidates: Vec<usize> = (0..NKEYS)
        .filter(|i| !local.contains_key(i))
        .filter(|i| range.map(|r| w.keys[*i].2 <= r).unwrap_or(true))
        .filter(|i| farthest.map(|f| w.keys[*i].2 <= f).unwrap_or(true))
        .collect();
    if candidates.is_empty() {
        ctx.label("no_eligible_target");
        return;
    }
    let target = candidates[pick_idx(case.target, candidates.len())];
    let ttype = type_of(target, 0);
    let holder = case.holder as usize % NHOLDERS;
    let queued = w.pending().len() + w.ongoing().len();
    let bound = queued.div_ceil(MAXP) + 2;
    let mut rounds = 0usize;
    let mut got = w.ongoing().iter().any(|(i, t, _)| *i == target && *t == ttype);
    ctx.label_if(got, "target_already_in_flight");
    ctx.label_if(queued > MAXP, "queue_longer_than_parallel_limit");
    ctx.label_if(!case.companions.is_empty(), "advertised_inside_a_list");
    while !got && rounds <= bound + 2 {
        rounds += 1;
        let mut list = vec![(w.keys[target].1.clone(), ttype.clone())];
        for c in &case.companions {
            let ci = *c as usize % NKEYS;
            if ci != target {
                list.push((w.keys[ci].1.clone(), type_of(ci, 0)));
            }
        }
        let h = w.holders[holder];
        let map = lm(&local, &w);
        let (f, rt) = (&mut w.f, &w.rt);
        let sched = rt.block_on(async { f.add_keys(h, list, &map) });
        if sched.iter().any(|(_, k)| *k == w.keys[target].0) || w.ongoing().iter().any(|(i, t, _)| *i == target && *t == ttype) {
            got = true;
            break;
        }
        // the environment completes every fetch that is in flight
        for (i, t, _) in w.ongoing() {
            local.insert(i, t.clone());
            let key = w.keys[i].0.clone();
            let (f, rt) = (&mut w.f, &w.rt);
            let more = rt.block_on(async { f.notify_about_new_put(key, t) });
            if more.iter().any(|(_, k)| *k == w.keys[target].0) {
                got = true;
            }
        }
    }
    if !got {
        ctx.fail("advertised_in_range_record_never_scheduled", format!("key {target} advertised every round by responsive holder {holder} was not scheduled within {} rounds ({} entries queued at the start)", bound + 2, queued));
    } else if rounds > bound {
        ctx.fail("advertised_in_range_record_scheduled_late", format!("key {target} needed {rounds} rounds, bound {bound}"));
    }
    ctx.nontrivial_if(queued > 0);
}

pub fn run(cfg: RunCfg) {
    let mut rep = Report::new(cfg, "exploration");
    rep.rule = "C08: interleavings of advertisement lists (single/multi key, 5 holders, 40 keys at all distances), completions, early completions, local removals, range/fullness updates and virtual ageing against the real ReplicationFetcher; monitor with its own in-flight set.".into();
    rep.assumptions = vec![
        "fetch deadlines are real Instants moved by the ageing hook: a fetch aged 17-23 s may or may not have been pruned (guard band)".into(),
        "a stored record of any version ends the fetches of that key (the statement lists when a fetch leaves, the code's comment explains the by-key removal)".into(),
        "liveness is checked only as bounded progress in a fair scenario (holder responsive, environment completes every fetch)".into(),
    ];
    vh_core::section!(
        rep, "history", (160_000, 3_000_000), 16,
        "non-trivial: >=2 holders and >=1 completion and (range or full set) and >=1 ageing across the fetch deadline; distinct by history",
        case_strategy, check
    );
    vh_core::section!(
        rep, "progress", (40_000, 600_000), 16,
        "non-trivial: something queued when the advertising starts; target = missing, in-range, not beyond farthest",
        progress_strategy, check_progress
    );
    vh_core::fuzz_section!(rep, "history", case_strategy, check, "sec_store", "store", 400_000, 240, 8);
    rep.finish();
}
