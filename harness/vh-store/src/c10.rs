//! C10 — store capacity, distance-based eviction and quoting metrics are exact.
//!
//! Generated: capacities 1–12, histories of puts of keys at known distances (bursts of
//! unacknowledged writes included), range settings, clean-ups, payments, quotes, restarts.
//! Oracle: step-by-step accept / evict / refuse model written from the statement, three views of
//! the held set agree, quoted figures equal the truth. Distances use the harness' own metric.

use crate::c01::fifo_per_key;
use crate::sim::*;
use ant_networking::verif_hooks::LocalSwarmCmd;
use libp2p::kad::RecordKey;
use proptest::prelude::*;
use serde::{Deserialize, Serialize};
use sha2::{Digest, Sha256};
use std::collections::BTreeSet;
use vh_core::{pick_idx, Ctx, Report, RunCfg};

pub const NKEYS: usize = 16;
/// `MAX_PACKET_SIZE` in driver.rs = the store's `max_value_bytes`
pub const SIZE_LIMIT: usize = 5 * 1024 * 1024;
/// `MAX_RECORDS_COUNT / 10` in record_store.rs: clean-up only applies from this many records
pub const CLEANUP_THRESHOLD: usize = 16 * 1024 / 10;

#[derive(Clone, Debug, Serialize, Deserialize)]
pub enum RangeSel {
    /// exactly the distance of key i
    AtKey(u8),
    /// the distance of key i plus one
    AboveKey(u8),
    Frac(u16),
    Zero,
    Max,
}

#[derive(Clone, Debug, Serialize, Deserialize)]
pub enum Op {
    /// keys are numbered by increasing distance from the node
    Put { k: u8, ver: u8 },
    /// a record of exactly the size limit (5 MiB) or more for key k: must be refused, whatever the
    /// fill level, and a refusal leaves the held set unchanged
    PutOversized { k: u8, extra: u8 },
    Run,
    Ack { i: u16 },
    AckAll,
    SetRange(RangeSel),
    Cleanup,
    Payment,
    Quote { k: u8 },
    Restart,
}

#[derive(Clone, Debug, Serialize, Deserialize)]
pub struct Case {
    pub node: u8,
    pub cap: u8,
    pub cache: u8,
    pub ops: Vec<Op>,
    /// capacity of the driver's local command channel (0 = the shipped 10 000)
    #[serde(default)]
    pub chan: u8,
}

fn range_strategy() -> impl Strategy<Value = RangeSel> {
    let k = 0u8..NKEYS as u8;
    prop_oneof![
        3 => k.clone().prop_map(RangeSel::AtKey),
        3 => k.prop_map(RangeSel::AboveKey),
        2 => any::<u16>().prop_map(RangeSel::Frac),
        1 => Just(RangeSel::Zero),
        1 => Just(RangeSel::Max),
    ]
}

fn op_strategy() -> impl Strategy<Value = Op> {
    prop_oneof![
        40 => (0u8..NKEYS as u8, 0u8..3).prop_map(|(k, ver)| Op::Put { k, ver }),
        1 => (0u8..NKEYS as u8, 0u8..3).prop_map(|(k, extra)| Op::PutOversized { k, extra }),
        8 => Just(Op::Run),
        12 => any::<u16>().prop_map(|i| Op::Ack { i }),
        14 => Just(Op::AckAll),
        5 => range_strategy().prop_map(Op::SetRange),
        3 => Just(Op::Cleanup),
        4 => Just(Op::Payment),
        6 => (0u8..NKEYS as u8).prop_map(|k| Op::Quote { k }),
        2 => Just(Op::Restart),
    ]
}

pub fn case_strategy() -> BoxedStrategy<Case> {
    (0u8..4, 1u8..=(vh_core::depth(12, 15) as u8), prop_oneof![Just(1u8), Just(4u8), Just(25u8)], proptest::collection::vec(op_strategy(), 1..vh_core::depth(80, 260)), prop_oneof![3 => Just(0u8), 1 => 1u8..5])
        .prop_map(|(node, cap, cache, ops, chan)| Case { node, cap, cache, ops, chan })
        .boxed()
}

/// 16 keys sorted by increasing reference distance from the node
pub fn universe(node: u8, self_bytes: &[u8], n: usize) -> Vec<(RecordKey, U256)> {
    let mut v: Vec<(RecordKey, U256)> = (0..n)
        .map(|i| {
            let mut h = Sha256::new();
            h.update(b"c10-key");
            h.update([node]);
            h.update((i as u32).to_le_bytes());
            let bytes: [u8; 32] = h.finalize().into();
            let d = ref_distance(self_bytes, &bytes);
            (RecordKey::new(&bytes), d)
        })
        .collect();
    v.sort_by(|a, b| a.1.cmp(&b.1));
    v
}

fn value_of(k: usize, ver: u8) -> Vec<u8> {
    make_value(k as u8, 8 + ver as usize, (k as u32) << 8 | ver as u32)
}

fn range_value(sel: &RangeSel, uni: &[(RecordKey, U256)]) -> U256 {
    match sel {
        RangeSel::AtKey(k) => uni[*k as usize % uni.len()].1,
        RangeSel::AboveKey(k) => uni[*k as usize % uni.len()].1.saturating_add(U256::from(1u8)),
        RangeSel::Frac(f) => (U256::MAX >> 16) * U256::from(*f),
        RangeSel::Zero => U256::ZERO,
        RangeSel::Max => U256::MAX,
    }
}

struct World {
    sim: DriverSim,
    uni: Vec<(RecordKey, U256)>,
}

impl World {
    fn idx(&self, key: &RecordKey) -> Option<usize> {
        self.uni.iter().position(|(k, _)| k == key)
    }
    fn real_listed(&mut self, ctx: &mut Ctx, at: &str) -> BTreeSet<usize> {
        let mut out = BTreeSet::new();
        for (addr, _) in self.sim.list() {
            match self.idx(&addr.to_record_key()) {
                Some(i) => {
                    out.insert(i);
                }
                None => ctx.fail("listed_unknown_key", format!("{at}: {addr:?} listed")),
            }
        }
        out
    }
    /// the three views of the held set must agree: address list, has_key, distance index, farthest
    fn views_agree(&mut self, listed: &BTreeSet<usize>, ctx: &mut Ctx, at: &str) {
        for i in 0..self.uni.len() {
            let has = self.sim.has_key(&self.uni[i].0.clone());
            if has != listed.contains(&i) {
                ctx.fail("views_disagree_has_key", format!("{at}: key {i}: has_key={has}, in address list={}", listed.contains(&i)));
            }
        }
        let (index, farthest) = {
            let st = self.sim.driver.verif_node_store().expect("node store");
            (st.verif_distance_index(), st.get_farthest())
        };
        let mut idx_keys = BTreeSet::new();
        for (d, k) in &index {
            match self.idx(k) {
                Some(i) => {
                    idx_keys.insert(i);
                    if *d != self.uni[i].1 {
                        ctx.fail("distance_index_wrong_distance", format!("{at}: key {i} indexed at {d}, reference distance {}", self.uni[i].1));
                    }
                }
                None => ctx.fail("distance_index_unknown_key", format!("{at}: {k:?}")),
            }
        }
        if idx_keys != *listed {
            ctx.fail("views_disagree_distance_index", format!("{at}: distance index holds {idx_keys:?}, address list {listed:?}"));
        }
        let want = listed.iter().next_back().copied();
        let got = farthest.as_ref().and_then(|k| self.idx(k));
        if want != got {
            ctx.fail("farthest_view_wrong", format!("{at}: farthest held is key {want:?}, store says {got:?}"));
        }
    }
}

pub fn check(case: &Case, ctx: &mut Ctx) {
    let dir = new_tempdir();
    let kp = keypair_from_seed(0x1000 + case.node as u64);
    let cap = case.cap.max(1) as usize;
    let store_cfg = Some((cap, case.cache.max(1) as usize));
    let chan = (case.chan > 0).then_some(case.chan as usize);
    let sim = DriverSim::new_node_chan(dir.path(), kp.clone(), store_cfg, chan);
    ctx.label_if(case.chan > 0, "small_command_channel");
    let uni = universe(case.node, &sim.self_addr_bytes, NKEYS);
    let mut w = World { sim, uni };

    // model
    let mut listed: BTreeSet<usize> = BTreeSet::new();
    let mut unacked: Vec<usize> = vec![]; // key index of every accepted, not yet acknowledged put
    let mut range: Option<U256> = None;
    let mut payments: usize = 0;
    let mut burst_budget: usize = 0;
    let (mut reached_cap, mut refusals, mut evictions, mut bursts, mut restarts_after_payment, mut quotes) = (false, 0, 0, 0, 0, 0);

    for (step, op) in case.ops.iter().enumerate() {
        let at = format!("step {step} {op:?}");
        match op {
            Op::Put { k, ver } => {
                let ki = *k as usize % NKEYS;
                let key = w.uni[ki].0.clone();
                let v = value_of(ki, *ver);
                let cached_same = w.sim.driver.verif_node_store().map(|s| s.verif_cache_keys().contains(&key)).unwrap_or(false)
                    && w.sim.get_local(&key).map(|r| r.value == v).unwrap_or(false);
                let before = listed.clone();
                let res = w.sim.put_local(record(&key, v));
                let after = w.real_listed(ctx, &at);
                if before.len() >= cap {
                    reached_cap = true;
                }
                if cached_same {
                    // the store answers from its read cache without touching anything
                    if res.is_err() {
                        ctx.precondition_failed("cached_put_errors", format!("{at}: {res:?}"));
                    }
                    if after != before {
                        ctx.fail("cached_put_changed_held_set", format!("{at}: {before:?} -> {after:?}"));
                    }
                    let farther = before.len() >= cap && !before.contains(&ki) && before.iter().next_back().map(|f| ki > *f).unwrap_or(false);
                    if farther && !unacked.contains(&ki) && res.is_ok() {
                        ctx.fail(
                            "refusal_masked_by_read_cache",
                            format!("{at}: at capacity {cap} with held {before:?}, key {ki} is farther than the farthest held and not stored, yet the put reports success (same bytes were refused before and stayed in the read cache)"),
                        );
                    }
                } else if before.len() < cap {
                    if res.is_err() {
                        ctx.precondition_failed("below_capacity_refused", format!("{at}: held {} < capacity {cap}, yet refused: {res:?}", before.len()));
                    } else {
                        if before.len() + unacked.len() >= cap {
                            bursts += 1;
                            burst_budget += 1;
                        }
                        unacked.push(ki);
                    }
                    if after != before {
                        ctx.fail("put_below_capacity_changed_held_set", format!("{at}: {before:?} -> {after:?} before any acknowledgement"));
                    }
                } else if !before.contains(&ki) {
                    let f = *before.iter().next_back().expect("non-empty at capacity");
                    if ki < f {
                        // closer than the farthest held: accepted, exactly the farthest evicted
                        if res.is_err() {
                            ctx.fail("closer_record_refused_at_capacity", format!("{at}: key {ki} is closer than farthest held {f}, refused: {res:?}"));
                        } else {
                            evictions += 1;
                            unacked.push(ki);
                            let mut want = before.clone();
                            want.remove(&f);
                            if after != want {
                                ctx.fail("eviction_wrong_victim", format!("{at}: held {before:?}, expected {want:?} after evicting farthest {f}, got {after:?}"));
                            }
                            listed = want;
                        }
                    } else {
                        refusals += 1;
                        if res.is_ok() {
                            ctx.fail("farther_record_accepted_at_capacity", format!("{at}: key {ki} is farther than farthest held {f} at capacity {cap}, yet accepted"));
                            unacked.push(ki);
                        } else if !res.as_ref().err().map(|e| e.contains("MaxRecords")).unwrap_or(false) {
                            ctx.fail("refusal_wrong_error", format!("{at}: {res:?}"));
                        }
                        if after != before {
                            ctx.fail("refusal_changed_held_set", format!("{at}: {before:?} -> {after:?}"));
                        }
                    }
                } else {
                    // overwrite of a held key at capacity: the statement is silent; follow the store
                    if res.is_ok() {
                        unacked.push(ki);
                    }
                    ctx.label("overwrite_at_capacity_unspecified");
                    listed = after.clone();
                }
                if listed != after && !ctx.failed() {
                    ctx.fail("listed_set_diverges_from_model", format!("{at}: model {listed:?}, store {after:?}"));
                }
                listed = after;
            }
            Op::PutOversized { k, extra } => {
                let ki = *k as usize % NKEYS;
                let key = w.uni[ki].0.clone();
                static BIG: std::sync::OnceLock<Vec<u8>> = std::sync::OnceLock::new();
                let big = BIG.get_or_init(|| chunk_value_of_total_len(SIZE_LIMIT + 2, 0xb16));
                let v = big[..SIZE_LIMIT + (*extra as usize).min(2)].to_vec();
                let before = w.real_listed(ctx, &at);
                let res = w.sim.put_local(record(&key, v));
                let after = w.real_listed(ctx, &at);
                ctx.label("oversized_put");
                if res.is_ok() {
                    ctx.precondition_failed("oversized_record_accepted", format!("{at}: a value of the size limit or more was accepted (C04's subject); case not judged further"));
                    return;
                }
                if after != before {
                    ctx.fail("refusal_changed_held_set", format!("{at}: oversized record refused ({res:?}) at {} of {cap} records held, yet the held set went {before:?} -> {after:?}", before.len()));
                }
                ctx.label_if(before.len() >= cap, "oversized_put_at_capacity");
                listed = after;
            }
            Op::Run => {
                w.sim.run_tasks(1);
            }
            Op::Ack { .. } | Op::AckAll => {
                w.sim.quiesce_tasks();
                loop {
                    let n = w.sim.notifications.len();
                    if n == 0 {
                        break;
                    }
                    let j = match op {
                        Op::Ack { i } => fifo_per_key(&w.sim.notifications, pick_idx(*i, n)),
                        _ => 0,
                    };
                    if let Some(LocalSwarmCmd::AddLocalRecordAsStored { key, .. }) = w.sim.notifications.get(j) {
                        if let Some(ki) = w.idx(key) {
                            listed.insert(ki);
                            if let Some(p) = unacked.iter().position(|x| *x == ki) {
                                unacked.remove(p);
                            }
                        }
                    }
                    w.sim.deliver_notification(j);
                    if matches!(op, Op::Ack { .. }) {
                        break;
                    }
                }
            }
            Op::SetRange(sel) => {
                let r = range_value(sel, &w.uni);
                w.sim.with_driver(|d| d.verif_set_distance_range(r));
                range = Some(r);
            }
            Op::Cleanup => {
                let before = w.real_listed(ctx, &at);
                w.sim.cleanup();
                let after = w.real_listed(ctx, &at);
                if before.len() < CLEANUP_THRESHOLD && after != before {
                    ctx.fail("cleanup_below_threshold_removed", format!("{at}: only {} records held, clean-up removed {:?}", before.len(), before.difference(&after).collect::<Vec<_>>()));
                }
                listed = after;
            }
            Op::Payment => {
                w.sim.payment_received();
                payments += 1;
            }
            Op::Quote { k } => {
                quotes += 1;
                let ki = *k as usize % NKEYS;
                let key = w.uni[ki].0.clone();
                let (m, is_stored) = w.sim.quoting_metrics(&key);
                let real = w.real_listed(ctx, &at);
                if m.max_records != cap {
                    ctx.fail("quote_max_records_wrong", format!("{at}: max_records {} != capacity {cap}", m.max_records));
                }
                if m.received_payment_count != payments {
                    ctx.fail("quote_payment_count_wrong", format!("{at}: received_payment_count {} != {payments} payments notified", m.received_payment_count));
                }
                if is_stored != real.contains(&ki) {
                    ctx.fail("quote_is_stored_wrong", format!("{at}: is_stored={is_stored}, held={}", real.contains(&ki)));
                }
                match range {
                    None => {
                        if m.close_records_stored != real.len() {
                            ctx.fail("quote_close_records_wrong", format!("{at}: no range set, close_records_stored {} != {} held", m.close_records_stored, real.len()));
                        }
                    }
                    Some(r) => {
                        let lo = real.iter().filter(|i| w.uni[**i].1 < r).count();
                        let hi = real.iter().filter(|i| w.uni[**i].1 <= r).count();
                        if m.close_records_stored < lo || m.close_records_stored > hi {
                            ctx.fail("quote_close_records_wrong", format!("{at}: close_records_stored {} not in [{lo},{hi}] (records within range {r})", m.close_records_stored));
                        }
                        if m.network_density != Some(r.to_be_bytes()) {
                            ctx.fail("quote_density_wrong", format!("{at}: network_density does not equal the responsible range"));
                        }
                    }
                }
            }
            Op::Restart => {
                w.sim.settle(|_| 0);
                if payments > 0 {
                    restarts_after_payment += 1;
                }
                let self_bytes = w.sim.self_addr_bytes.clone();
                let uni = w.uni.clone();
                drop(w);
                let sim = DriverSim::new_node_chan(dir.path(), kp.clone(), store_cfg, chan);
                assert_eq!(sim.self_addr_bytes, self_bytes);
                w = World { sim, uni };
                w.sim.quiesce_tasks();
                unacked.clear();
                range = None;
                // which records are held after a restart is C02's subject; here: follow the store
                listed = w.real_listed(ctx, &at);
                let key0 = w.uni[0].0.clone();
                let (m, _) = w.sim.quoting_metrics(&key0);
                if m.received_payment_count != payments {
                    ctx.fail("payment_count_lost_on_restart", format!("{at}: {} payments before the restart, quote says {}", payments, m.received_payment_count));
                }
            }
        }
        w.sim.drain();
        // invariants after every step
        let real = w.real_listed(ctx, &at);
        if real != listed && !ctx.failed() {
            ctx.fail("listed_set_diverges_from_model", format!("{at}: model {listed:?}, store {real:?}"));
        }
        listed = real.clone();
        if !ctx.failed() {
            w.views_agree(&real, ctx, &at);
        }
        if real.len() > cap + unacked.len() {
            let excess = real.len() - cap - unacked.len();
            let sig = if excess <= burst_budget { "capacity_exceeded_after_unacknowledged_burst" } else { "capacity_exceeded" };
            ctx.fail(sig, format!("{at}: {} records held > capacity {cap} + {} writes in flight", real.len(), unacked.len()));
        }
        if ctx.failures.iter().any(|f| f.sig != "capacity_exceeded_after_unacknowledged_burst" && f.sig != "refusal_masked_by_read_cache") {
            break;
        }
    }
    ctx.label_if(reached_cap, "reached_capacity");
    ctx.label_if(refusals > 0, "refusal");
    ctx.label_if(evictions > 0, "eviction");
    ctx.label_if(bursts > 0, "unacked_burst_across_capacity");
    ctx.label_if(restarts_after_payment > 0, "restart_after_payment");
    ctx.label_if(quotes > 0, "quoted");
    ctx.nontrivial_if(reached_cap && refusals > 0 && (evictions > 0 || restarts_after_payment > 0));
}

// ------------------------------------------------------------------------------------------------
// large store: clean-up only applies from MAX_RECORDS_COUNT/10 = 1638 records
// ------------------------------------------------------------------------------------------------

#[derive(Clone, Debug, Serialize, Deserialize)]
pub struct LargeCase {
    pub node: u8,
    /// how many records above / below the clean-up threshold (negative = below)
    pub delta: i16,
    /// range = distance of the record of this rank (fraction of the held count)
    pub range_rank: u16,
    pub exact: bool,
}

fn large_strategy() -> BoxedStrategy<LargeCase> {
    (0u8..4, prop_oneof![Just(-1i16), Just(0), Just(1), -40i16..60], any::<u16>(), any::<bool>())
        .prop_map(|(node, delta, range_rank, exact)| LargeCase { node, delta, range_rank, exact })
        .boxed()
}

fn check_large(case: &LargeCase, ctx: &mut Ctx) {
    let dir = new_tempdir();
    let kp = keypair_from_seed(0x2000 + case.node as u64);
    let sim = DriverSim::new_node(dir.path(), kp, None);
    let n = (CLEANUP_THRESHOLD as i64 + case.delta as i64).max(1) as usize;
    let uni = universe(case.node, &sim.self_addr_bytes, n);
    let mut w = World { sim, uni };
    for i in 0..n {
        let key = w.uni[i].0.clone();
        if let Err(e) = w.sim.put_local(record(&key, make_value(0, 4, i as u32))) {
            ctx.precondition_failed("below_capacity_refused", format!("put {i}: {e}"));
            return;
        }
        if i % 256 == 255 {
            w.sim.settle(|_| 0);
        }
    }
    w.sim.settle(|_| 0);
    let before = w.real_listed(ctx, "large store filled");
    if before.len() != n {
        ctx.precondition_failed("large_store_fill_incomplete", format!("{} of {n} records listed", before.len()));
        return;
    }
    let rank = pick_idx(case.range_rank, n);
    let r = if case.exact { w.uni[rank].1 } else { w.uni[rank].1.saturating_add(U256::from(1u8)) };
    w.sim.with_driver(|d| d.verif_set_distance_range(r));
    let (m, _) = w.sim.quoting_metrics(&w.uni[0].0.clone());
    let lo = before.iter().filter(|i| w.uni[**i].1 < r).count();
    let hi = before.iter().filter(|i| w.uni[**i].1 <= r).count();
    if m.close_records_stored < lo || m.close_records_stored > hi {
        ctx.fail("quote_close_records_wrong", format!("close_records_stored {} not in [{lo},{hi}]", m.close_records_stored));
    }
    w.sim.cleanup();
    w.sim.settle(|_| 0);
    let after = w.real_listed(ctx, "after clean-up");
    let applies = n >= CLEANUP_THRESHOLD;
    for i in 0..n {
        let d = w.uni[i].1;
        let kept = after.contains(&i);
        if d < r && !kept {
            ctx.fail("cleanup_removed_in_range_record", format!("record {i} at distance < range was removed (n={n})"));
            break;
        }
        if d > r && kept && applies {
            ctx.fail("cleanup_kept_out_of_range_record", format!("record {i} at distance > range kept although {n} >= {CLEANUP_THRESHOLD} records held"));
            break;
        }
        if !kept && !applies {
            ctx.fail("cleanup_below_threshold_removed", format!("record {i} removed although only {n} < {CLEANUP_THRESHOLD} records held"));
            break;
        }
    }
    if !ctx.failed() {
        w.views_agree(&after, ctx, "after clean-up");
        // (how many files the store keeps is its own business; observed only)
        ctx.label_if(w.sim.files().len() != after.len(), "file_count_differs_from_listed_count");
    }
    ctx.label(if applies { "at_or_above_threshold" } else { "below_threshold" });
    ctx.label_if(case.exact, "range_equals_a_held_distance");
    ctx.label_if(after.len() < before.len(), "cleanup_removed_something");
    ctx.nontrivial();
}

pub fn run(cfg: RunCfg) {
    let mut rep = Report::new(cfg, "exploration");
    rep.rule = "C10: capacity 1-12 histories over 16 keys numbered by distance (harness metric) against the real SwarmDriver+NodeRecordStore.".into();
    rep.assumptions = vec![
        "overwrite of a held key at capacity is not specified by the statement: only the invariants are checked there".into(),
        "a record at distance exactly equal to the responsible range may be kept or removed / counted or not".into(),
        "which records are held after a restart is C02's subject; C10 checks the payment count and the agreement of the views there".into(),
    ];
    vh_core::section!(
        rep, "capacity", (8_000, 150_000), 16,
        "non-trivial: store reached capacity and >=1 refusal and (>=1 eviction or a restart after payments); distinct by history",
        case_strategy, check
    );
    vh_core::section!(
        rep, "large_store", (24, 600), 8,
        "stores of 1638+-delta records (clean-up threshold), range at/above a held distance; every record's fate checked",
        large_strategy, check_large
    );
    // the figures in quotes the node really issues (node's query handler, payments counted from verified
    // uploads) need the node simulator of vh-node and run there as a child (built by harness/pre-C10.sh)
    let exe = rep.cfg.root.join("harness/target/release/vh-node");
    vh_core::run_child(&mut rep, &exe, "node-side issued quotes (vh-node child)");
    vh_core::fuzz_section!(rep, "capacity", case_strategy, check, "sec_store", "store", 6_000, 240, 8);
    rep.finish();
}
