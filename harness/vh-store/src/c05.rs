//! C05 — quorum reads return only what enough distinct peers agree on.
//!
//! The real `Network::get_record_from_network` is called by 1–4 concurrent callers against a real
//! (client) `SwarmDriver` that is stepped by hand; peer replies and the terminating event are
//! injected as synthetic kad events in a generated order. Oracle: distinct-peer quorum model, merge
//! model for mergeable kinds, exactly one outcome per caller.

use crate::sim::*;
use ant_networking::verif_hooks::NetworkSwarmCmd;
use ant_networking::{GetRecordCfg, GetRecordError, NetworkError};
use ant_protocol::storage::{try_deserialize_record, Scratchpad, Transaction};
use ant_registers::SignedRegister;
use libp2p::kad::{self, PeerRecord, ProgressStep, QueryId, QueryResult, QueryStats, Quorum, Record, RecordKey};
use proptest::prelude::*;
use serde::{Deserialize, Serialize};
use std::collections::{BTreeMap, BTreeSet, HashSet};
use std::num::NonZeroUsize;
use std::sync::{Arc, Mutex};
use vh_core::{pick_idx, Ctx, Report, RunCfg};
use vh_fix as fix;

#[derive(Clone, Copy, Debug, Serialize, Deserialize, PartialEq)]
pub enum Class {
    Chunk,
    Tx,
    Reg,
    Pad,
}

#[derive(Clone, Copy, Debug, Serialize, Deserialize)]
pub enum Q {
    One,
    Majority,
    All,
    N(u8),
}

#[derive(Clone, Copy, Debug, Serialize, Deserialize, PartialEq)]
pub enum Target {
    None,
    Version(u8),
    Other,
}

#[derive(Clone, Debug, Serialize, Deserialize)]
pub struct Caller {
    pub q: Q,
    pub target: Target,
    /// the caller issues its request just before this event index
    pub at: u8,
}

#[derive(Clone, Debug, Serialize, Deserialize)]
pub struct Reply {
    /// 0..8 = that peer, 8 = `peer: None` (the local node itself)
    pub peer: u8,
    pub ver: u8,
    /// the record comes under another key than the requested one (libp2p-kad does not compare)
    pub other_key: bool,
}

#[derive(Clone, Copy, Debug, Serialize, Deserialize)]
pub enum Term {
    Finished,
    NotFound,
    QuorumFailed,
    Timeout,
}

#[derive(Clone, Debug, Serialize, Deserialize)]
pub struct Case {
    pub class: Class,
    /// scratchpad versions: (counter, signature valid); other classes ignore it
    pub pads: Vec<(u8, bool)>,
    pub callers: Vec<Caller>,
    pub replies: Vec<Reply>,
    pub term: Term,
    pub trailing: Vec<Reply>,
}

fn q_strategy() -> impl Strategy<Value = Q> {
    prop_oneof![3 => Just(Q::One), 3 => Just(Q::Majority), 3 => Just(Q::All), 3 => (1u8..=6).prop_map(Q::N)]
}

fn reply_strategy(allow_other_key: bool) -> impl Strategy<Value = Reply> {
    // versions 0..2 as before; a fifth of the replies pick among eight versions, so that a query can see more
    // distinct versions than a close group has members
    (0u8..9, prop_oneof![5 => Just(0u8), 2 => Just(1u8), 1 => Just(2u8), 2 => 0u8..8], prop_oneof![12 => Just(false), 1 => Just(allow_other_key)])
        .prop_map(|(peer, ver, other_key)| Reply { peer, ver, other_key })
}

pub fn case_strategy() -> BoxedStrategy<Case> {
    let class = prop_oneof![4 => Just(Class::Chunk), 2 => Just(Class::Tx), 1 => Just(Class::Reg), 2 => Just(Class::Pad)];
    class
        .prop_flat_map(|class| {
            let caller = (q_strategy(), prop_oneof![6 => Just(Target::None), 3 => (0u8..3).prop_map(Target::Version), 1 => Just(Target::Other)], prop_oneof![3 => Just(0u8), 1 => 0u8..8])
                .prop_map(|(q, target, at)| Caller { q, target, at });
            (
                Just(class),
                proptest::collection::vec((1u8..9, prop_oneof![3 => Just(true), 1 => Just(false)]), 8),
                proptest::collection::vec(caller, 1..=vh_core::depth(4, 7)),
                prop_oneof![
                    5 => proptest::collection::vec(reply_strategy(class == Class::Chunk), 0..vh_core::depth(12, 32)),
                    // a walk over many peers that each hold another version (6..8 distinct versions from distinct
                    // peers, in a generated order), then ordinary replies
                    1 => (proptest::collection::vec(any::<u16>(), 8), 6usize..=8, proptest::collection::vec(reply_strategy(false), 0..8)).prop_map(|(order, n, tail)| {
                        let mut idx: Vec<u8> = (0..8).collect();
                        for i in 0..idx.len() {
                            let j = i + pick_idx(order[i], idx.len() - i);
                            idx.swap(i, j);
                        }
                        let mut v: Vec<Reply> = idx.into_iter().take(n).map(|i| Reply { peer: i, ver: i, other_key: false }).collect();
                        v.extend(tail);
                        v
                    }),
                ],
                prop_oneof![Just(Term::Finished), Just(Term::NotFound), Just(Term::QuorumFailed), Just(Term::Timeout)],
                proptest::collection::vec(reply_strategy(false), 0..3),
            )
        })
        .prop_map(|(class, pads, callers, replies, term, trailing)| Case { class, pads, callers, replies, term, trailing })
        .boxed()
}

fn quorum(q: Q) -> Quorum {
    match q {
        Q::One => Quorum::One,
        Q::Majority => Quorum::Majority,
        Q::All => Quorum::All,
        Q::N(n) => Quorum::N(NonZeroUsize::new(n.max(1) as usize).unwrap()),
    }
}

/// the statement's Q, written independently: close group of 5, majority 3
fn q_value(q: Q) -> usize {
    match q {
        Q::One => 1,
        Q::Majority => 3,
        Q::All => 5,
        Q::N(n) => n.max(1) as usize,
    }
}

struct Versions {
    key: RecordKey,
    other_key: RecordKey,
    values: Vec<Vec<u8>>,
    txs: Vec<Vec<Transaction>>,
    regs: Vec<SignedRegister>,
    pads: Vec<Scratchpad>,
    pad_authentic: Vec<bool>,
}

thread_local! {
    static REG_FIXTURE: std::cell::RefCell<Option<Vec<SignedRegister>>> = const { std::cell::RefCell::new(None) };
}

fn versions(case: &Case) -> Versions {
    let other_key = RecordKey::new(&fix::h32("c05-other-key", &[1]));
    let mut v = Versions { key: RecordKey::new(&fix::h32("c05-key", &[0])), other_key, values: vec![], txs: vec![], regs: vec![], pads: vec![], pad_authentic: vec![] };
    match case.class {
        Class::Chunk => {
            v.key = RecordKey::new(&fix::h32("c05-chunk-key", &[0]));
            for i in 0..8u64 {
                v.values.push(make_value(0, 20 + i as usize, 77 + i as u32));
            }
        }
        Class::Tx => {
            v.key = fix::transaction_key(1);
            let t = |n| fix::transaction(1, n, true);
            // the third version also carries a look-alike: other content under the signature bytes of
            // transaction 1 (not validly signed). Nothing at this layer verifies transactions; whatever
            // the merge does with it, it must not cost a genuine transaction its place
            let mut lookalike = t(1);
            lookalike.content = fix::h32("c05-lookalike", &[1]);
            v.txs = vec![vec![t(0)], vec![t(1)], vec![t(2), t(0), lookalike], vec![t(3)], vec![t(4)], vec![t(5)], vec![t(6), t(1)], vec![t(7), t(3)]];
            for txs in &v.txs {
                v.values.push(fix::transactions_record(v.key.clone(), txs).value);
            }
        }
        Class::Reg => {
            v.key = fix::register_key(2, 7);
            v.regs = REG_FIXTURE.with(|c| {
                c.borrow_mut()
                    .get_or_insert_with(|| {
                        let base = fix::register_base(2, 7, Some(vec![]));
                        let ops = fix::register_ops(2, 7, 7, &[2]);
                        vec![
                            fix::signed_register(&base, 2, ops[0..2].to_vec()),
                            fix::signed_register(&base, 2, ops[1..3].to_vec()),
                            fix::signed_register(&base, 2, ops[0..4].to_vec()),
                            fix::signed_register(&base, 2, ops[4..5].to_vec()),
                            fix::signed_register(&base, 2, ops[5..6].to_vec()),
                            fix::signed_register(&base, 2, ops[2..3].to_vec()),
                            fix::signed_register(&base, 2, ops[3..7].to_vec()),
                        ]
                    })
                    .clone()
            });
            for r in &v.regs {
                v.values.push(fix::register_record(v.key.clone(), r).value);
            }
        }
        Class::Pad => {
            v.key = fix::scratchpad_key(3);
            for (i, (counter, valid)) in case.pads.iter().enumerate() {
                let p = fix::scratchpad(3, 1, fix::pseudo_bytes(40 + i as u64, 24), *counter as u64, if *valid { fix::Sig::Valid } else { fix::Sig::OtherKey });
                v.pad_authentic.push(fix::scratchpad_is_authentic(&p, &fix::pk(3)));
                v.values.push(fix::scratchpad_record(&p).value);
                v.pads.push(p);
            }
        }
    }
    v
}

type Outcome = Result<Record, NetworkError>;

fn found_event(id: QueryId, peer: Option<libp2p::PeerId>, rec: Record, count: usize) -> kad::Event {
    kad::Event::OutboundQueryProgressed {
        id,
        result: QueryResult::GetRecord(Ok(kad::GetRecordOk::FoundRecord(PeerRecord { peer, record: rec }))),
        stats: QueryStats::empty(),
        step: ProgressStep { count: NonZeroUsize::new(count.max(1)).unwrap(), last: false },
    }
}

fn term_event(id: QueryId, key: &RecordKey, term: Term, count: usize) -> kad::Event {
    let result = match term {
        Term::Finished => QueryResult::GetRecord(Ok(kad::GetRecordOk::FinishedWithNoAdditionalRecord { cache_candidates: BTreeMap::new() })),
        Term::NotFound => QueryResult::GetRecord(Err(kad::GetRecordError::NotFound { key: key.clone(), closest_peers: vec![] })),
        Term::QuorumFailed => QueryResult::GetRecord(Err(kad::GetRecordError::QuorumFailed { key: key.clone(), records: vec![], quorum: NonZeroUsize::new(1).unwrap() })),
        Term::Timeout => QueryResult::GetRecord(Err(kad::GetRecordError::Timeout { key: key.clone() })),
    };
    kad::Event::OutboundQueryProgressed { id, result, stats: QueryStats::empty(), step: ProgressStep { count: NonZeroUsize::new(count.max(1)).unwrap(), last: true } }
}

thread_local! {
    // ManuallyDrop: a driver cannot be torn down inside a thread-local destructor; the per-thread
    // instance that is still parked when the worker exits is simply leaked
    static SIM: std::cell::RefCell<Option<std::mem::ManuallyDrop<DriverSim>>> = const { std::cell::RefCell::new(None) };
}

pub fn check(case: &Case, ctx: &mut Ctx) {
    // one client driver per worker thread, reused: every case leaves it without pending queries
    let mut sim = SIM
        .with(|s| s.borrow_mut().take())
        .map(std::mem::ManuallyDrop::into_inner)
        .unwrap_or_else(|| DriverSim::new_client(keypair_from_seed(0x5005)));
    check_with(&mut sim, case, ctx);
    if ctx.failed() || !sim.driver.verif_pending_get_record().is_empty() {
        drop(sim); // do not carry a possibly odd state into the next case
    } else {
        SIM.with(|s| *s.borrow_mut() = Some(std::mem::ManuallyDrop::new(sim)));
    }
}

fn check_with(sim: &mut DriverSim, case: &Case, ctx: &mut Ctx) {
    let v = versions(case);
    let nver = v.values.len();
    let results: Arc<Mutex<Vec<Option<Outcome>>>> = Arc::new(Mutex::new(vec![None; case.callers.len()].into_iter().map(|_: Option<()>| None).collect()));
    let mut caller_query: Vec<Option<QueryId>> = vec![None; case.callers.len()];
    let mut first_query: Option<QueryId> = None;
    let first_caller: std::cell::Cell<Option<usize>> = std::cell::Cell::new(None);
    // replies delivered to the first query before it completed: version -> distinct peers
    let mut seen: BTreeMap<usize, BTreeSet<u8>> = BTreeMap::new();
    let mut raw_counts: BTreeMap<usize, usize> = BTreeMap::new();
    let mut other_key_seen = false;
    let mut completed = false;
    let (mut dup_peer, mut term_before_quorum) = (false, false);

    let attach = |sim: &mut DriverSim, ci: usize, caller_query: &mut Vec<Option<QueryId>>, first_query: &mut Option<QueryId>| {
        let c = &case.callers[ci];
        let target = match c.target {
            Target::None => None,
            Target::Version(i) => Some(fix::record(v.key.clone(), v.values[i as usize % nver].clone())),
            Target::Other => Some(fix::record(v.key.clone(), make_value(0, 9, 4242))),
        };
        let cfg = GetRecordCfg { get_quorum: quorum(c.q), retry_strategy: None, target_record: target, expected_holders: HashSet::new(), is_register: case.class == Class::Reg };
        let net = sim.net.clone();
        let key = v.key.clone();
        let res = results.clone();
        sim.rt.block_on(async {
            tokio::spawn(async move {
                let r = net.get_record_from_network(key, &cfg).await;
                res.lock().unwrap()[ci] = Some(r);
            });
        });
        sim.run_tasks(3);
        let before: std::collections::HashMap<QueryId, usize> = sim.driver.verif_pending_get_record().into_iter().map(|(id, _, n)| (id, n)).collect();
        let cmds: Vec<NetworkSwarmCmd> = sim.network_cmds.drain(..).collect();
        for cmd in cmds {
            let _ = sim.handle_network(cmd);
        }
        for (id, _k, n) in sim.driver.verif_pending_get_record() {
            if before.get(&id).copied().unwrap_or(0) < n {
                caller_query[ci] = Some(id);
                if first_query.is_none() {
                    *first_query = Some(id);
                    first_caller.set(Some(ci));
                }
            }
        }
    };

    let n_events = case.replies.len();
    for ei in 0..=n_events {
        for ci in 0..case.callers.len() {
            let at = (case.callers[ci].at as usize).min(n_events);
            if at == ei && caller_query[ci].is_none() && results.lock().unwrap()[ci].is_none() {
                attach(sim, ci, &mut caller_query, &mut first_query);
            }
        }
        let Some(qid) = first_query else { continue };
        if ei == n_events {
            break;
        }
        let r = &case.replies[ei];
        let ver = r.ver as usize % nver;
        let rec = fix::record(if r.other_key { v.other_key.clone() } else { v.key.clone() }, v.values[ver].clone());
        let peer = if r.peer >= 8 { None } else { Some(fix::peer(100 + r.peer as u64)) };
        let was_pending = sim.driver.verif_pending_get_record().iter().any(|(id, _, _)| *id == qid);
        if was_pending {
            if r.other_key {
                other_key_seen = true;
            } else {
                if !seen.entry(ver).or_default().insert(r.peer.min(8)) {
                    dup_peer = true;
                }
                *raw_counts.entry(ver).or_default() += 1;
            }
        }
        let ev = found_event(qid, peer, rec, ei + 1);
        let _ = sim.with_driver(|d| d.verif_handle_kad_event(ev));
        sim.run_tasks(2);
        if was_pending && !sim.driver.verif_pending_get_record().iter().any(|(id, _, _)| *id == qid) {
            completed = true;
        }
    }
    // terminator (for the first query if it is still pending), then stray events after completion
    if let Some(qid) = first_query {
        if sim.driver.verif_pending_get_record().iter().any(|(id, _, _)| *id == qid) {
            term_before_quorum = true;
        }
        let ev = term_event(qid, &v.key, case.term, n_events + 1);
        let _ = sim.with_driver(|d| d.verif_handle_kad_event(ev));
        sim.run_tasks(2);
        for (i, r) in case.trailing.iter().enumerate() {
            let rec = fix::record(v.key.clone(), v.values[r.ver as usize % nver].clone());
            let ev = found_event(qid, Some(fix::peer(100 + r.peer as u64 % 8)), rec, n_events + 2 + i);
            let _ = sim.with_driver(|d| d.verif_handle_kad_event(ev));
        }
    }
    let _ = completed;
    // queries started by callers that arrived after the first one completed: nobody answers
    for _ in 0..4 {
        sim.run_tasks(2);
        let cmds: Vec<NetworkSwarmCmd> = sim.network_cmds.drain(..).collect();
        for cmd in cmds {
            let _ = sim.handle_network(cmd);
        }
        for (id, k, _) in sim.driver.verif_pending_get_record() {
            let ev = term_event(id, &k, Term::Finished, 1);
            let _ = sim.with_driver(|d| d.verif_handle_kad_event(ev));
        }
    }
    sim.run_tasks(3);

    // ---- oracle ----------------------------------------------------------------------------------
    let versions_seen: Vec<usize> = seen.keys().copied().collect();
    let outcomes: Vec<Option<Outcome>> = results.lock().unwrap().iter().map(|o| o.as_ref().map(|r| match r {
        Ok(rec) => Ok(rec.clone()),
        Err(e) => Err(clone_err(e)),
    })).collect();
    let first_cfg = &first_caller.get().map(|ci| case.callers[ci].clone());
    for (ci, out) in outcomes.iter().enumerate() {
        let c = &case.callers[ci];
        let on_first = caller_query[ci].is_some() && caller_query[ci] == first_query;
        let at = format!("caller {ci} (quorum {:?}, target {:?}, {})", c.q, c.target, if on_first { "on the first query" } else { "own late query" });
        let Some(out) = out else {
            ctx.fail("caller_left_waiting", format!("{at}: no outcome after the query terminated"));
            continue;
        };
        match out {
            Ok(rec) => {
                if !on_first {
                    ctx.fail("value_without_any_reply", format!("{at}: got a value although its query never received a reply"));
                    continue;
                }
                if rec.key != v.key {
                    ctx.fail("value_under_other_key_returned", format!("{at}: returned a record keyed {:?}, requested {:?}", rec.key, v.key));
                    continue;
                }
                let q = q_value(c.q);
                let matching = (0..nver).find(|i| v.values[*i] == rec.value);
                let by_quorum = matching.map(|i| seen.get(&i).map(|s| s.len()).unwrap_or(0) >= q).unwrap_or(false);
                let target_ok = match c.target {
                    Target::None => true,
                    Target::Version(t) => v.values[t as usize % nver] == rec.value,
                    Target::Other => false,
                };
                let merged_ok = versions_seen.len() > 1 && is_merge(case, &v, &versions_seen, rec);
                if merged_ok {
                    ctx.label("merged_result");
                    continue;
                }
                if versions_seen.len() > 1 {
                    // peers returned differing content: the caller must get the full set of versions
                    // (an error) or the deterministic merge, never one of the versions as if agreed
                    ctx.fail(
                        "one_version_returned_although_peers_returned_differing_content",
                        format!("{at}: {} versions were received before completion (distinct peers per version {seen:?}), yet one of them (version {matching:?}) was returned as the value", versions_seen.len()),
                    );
                    continue;
                }
                if by_quorum && target_ok {
                    continue;
                }
                // classify
                let under_first = first_cfg.as_ref().map(|f| {
                    let fq = q_value(f.q);
                    matching.map(|i| seen.get(&i).map(|s| s.len()).unwrap_or(0) >= fq).unwrap_or(false)
                        && match f.target { Target::None => true, Target::Version(t) => v.values[t as usize % nver] == rec.value, Target::Other => false }
                }).unwrap_or(false);
                let first_ci = first_caller.get();
                if under_first && first_ci != Some(ci) {
                    ctx.fail("deduplicated_caller_judged_under_first_callers_cfg", format!("{at}: received a value that satisfies only the first caller's settings ({:?}); distinct peers per version {:?}", first_cfg, seen));
                } else if let Some(i) = matching {
                    let distinct = seen.get(&i).map(|s| s.len()).unwrap_or(0);
                    if distinct < q {
                        let sig = if raw_counts.get(&i).copied().unwrap_or(0) >= q { "duplicate_peer_counted_towards_quorum" } else { "value_without_quorum" };
                        ctx.fail(sig, format!("{at}: value returned with {distinct} distinct peers < quorum {q} (replies per version {raw_counts:?}, other-key replies: {other_key_seen})"));
                    } else {
                        ctx.fail("value_not_matching_expected_target", format!("{at}: returned version {i} although the caller expected {:?}", c.target));
                    }
                } else {
                    ctx.fail("value_is_no_received_version_nor_merge", format!("{at}: returned {} bytes that are neither a received version nor the merge of {versions_seen:?}", rec.value.len()));
                }
            }
            Err(NetworkError::GetRecordError(GetRecordError::SplitRecord { result_map })) => {
                ctx.label("split_record_error");
                for i in &versions_seen {
                    if !result_map.values().any(|(r, _)| r.value == v.values[*i]) {
                        ctx.fail("split_record_misses_a_version", format!("{at}: SplitRecord carries {} versions, version {i} missing", result_map.len()));
                    }
                }
            }
            Err(NetworkError::InternalMsgChannelDropped) => {
                ctx.fail("caller_channel_dropped", format!("{at}: the request channel was dropped instead of answering"));
            }
            Err(_) => {}
        }
    }
    ctx.label_if(versions_seen.len() >= 2, "two_or_more_versions");
    ctx.label_if(versions_seen.len() > 5, "more_versions_than_a_close_group_has_members");
    ctx.label_if(dup_peer, "duplicate_peer");
    ctx.label_if(term_before_quorum, "terminated_before_quorum");
    ctx.label_if(other_key_seen, "reply_under_other_key");
    ctx.label_if(case.callers.len() > 1, "concurrent_callers");
    ctx.label(format!("class_{:?}", case.class));
    ctx.nontrivial_if(versions_seen.len() >= 2 || dup_peer || term_before_quorum);
}

fn clone_err(e: &NetworkError) -> NetworkError {
    match e {
        NetworkError::GetRecordError(g) => NetworkError::GetRecordError(g.clone()),
        NetworkError::InternalMsgChannelDropped => NetworkError::InternalMsgChannelDropped,
        other => NetworkError::NotEnoughPeers { found: 0, required: other.to_string().len() },
    }
}

/// Is `rec` the deterministic merge of the versions seen (per the statement)?
fn is_merge(case: &Case, v: &Versions, seen: &[usize], rec: &Record) -> bool {
    match case.class {
        Class::Chunk => false,
        Class::Tx => {
            let Ok(got) = try_deserialize_record::<Vec<Transaction>>(rec) else { return false };
            let got: BTreeSet<Transaction> = got.into_iter().collect();
            let all: BTreeSet<Transaction> = seen.iter().flat_map(|i| v.txs[*i].clone()).collect();
            let genuine: BTreeSet<Transaction> = all.iter().filter(|t| t.verify()).cloned().collect();
            // the union of what was seen; entries that are not validly signed may be left out
            got.is_subset(&all) && genuine.is_subset(&got)
        }
        Class::Reg => {
            let Ok(got) = try_deserialize_record::<SignedRegister>(rec) else { return false };
            let want: BTreeSet<_> = seen.iter().flat_map(|i| v.regs[*i].ops().clone()).collect();
            *got.ops() == want && got.base_register() == v.regs[0].base_register()
        }
        Class::Pad => {
            let Ok(got) = try_deserialize_record::<Scratchpad>(rec) else { return false };
            let best = seen.iter().filter(|i| v.pad_authentic[**i]).map(|i| v.pads[*i].count()).max();
            match best {
                None => false,
                Some(b) => fix::scratchpad_is_authentic(&got, &fix::pk(3)) && got.count() == b && seen.iter().any(|i| v.pads[*i] == got),
            }
        }
    }
}

// ------------------------------------------------------------------------------------------------
// section retry: callers that re-issue the read after a failed attempt (RetryStrategy back-off)
// ------------------------------------------------------------------------------------------------

#[derive(Clone, Debug, Serialize, Deserialize)]
pub struct Attempt {
    pub replies: Vec<Reply>,
    pub term: Term,
}

#[derive(Clone, Debug, Serialize, Deserialize)]
pub struct RetryCase {
    pub class: Class,
    pub pads: Vec<(u8, bool)>,
    pub q: Q,
    pub target: Target,
    /// total attempts the caller is allowed (RetryStrategy::N)
    pub allowed: u8,
    /// what the network answers to the first, second, ... attempt
    pub attempts: Vec<Attempt>,
}

pub fn retry_strategy() -> BoxedStrategy<RetryCase> {
    let attempt = (proptest::collection::vec(reply_strategy(false), 0..6), prop_oneof![Just(Term::Finished), Just(Term::NotFound), Just(Term::QuorumFailed), Just(Term::Timeout)])
        .prop_map(|(replies, term)| Attempt { replies, term });
    (
        prop_oneof![4 => Just(Class::Chunk), 2 => Just(Class::Pad), 1 => Just(Class::Tx)],
        proptest::collection::vec((1u8..5, prop_oneof![3 => Just(true), 1 => Just(false)]), 3),
        prop_oneof![1 => Just(Q::One), 3 => Just(Q::Majority), 3 => Just(Q::All), 3 => (2u8..=5).prop_map(Q::N)],
        prop_oneof![6 => Just(Target::None), 2 => (0u8..3).prop_map(Target::Version)],
        2u8..=4,
        proptest::collection::vec(attempt, 1..=4),
    )
        .prop_map(|(class, pads, q, target, allowed, attempts)| RetryCase { class, pads, q, target, allowed, attempts })
        .boxed()
}

thread_local! {
    static RETRY_SIM: std::cell::RefCell<Option<std::mem::ManuallyDrop<DriverSim>>> = const { std::cell::RefCell::new(None) };
}

pub fn check_retry(case: &RetryCase, ctx: &mut Ctx) {
    let mut sim = RETRY_SIM
        .with(|s| s.borrow_mut().take())
        .map(std::mem::ManuallyDrop::into_inner)
        .unwrap_or_else(|| DriverSim::new_client_paused(keypair_from_seed(0x5006)));
    check_retry_with(&mut sim, case, ctx);
    if ctx.failed() || !sim.driver.verif_pending_get_record().is_empty() {
        drop(sim);
    } else {
        RETRY_SIM.with(|s| *s.borrow_mut() = Some(std::mem::ManuallyDrop::new(sim)));
    }
}

fn check_retry_with(sim: &mut DriverSim, case: &RetryCase, ctx: &mut Ctx) {
    let proto = Case { class: case.class, pads: case.pads.clone(), callers: vec![], replies: vec![], term: Term::Finished, trailing: vec![] };
    let v = versions(&proto);
    let nver = v.values.len();
    let target = match case.target {
        Target::None => None,
        Target::Version(i) => Some(fix::record(v.key.clone(), v.values[i as usize % nver].clone())),
        Target::Other => None,
    };
    let allowed = case.allowed.max(1) as usize;
    let cfg = GetRecordCfg {
        get_quorum: quorum(case.q),
        retry_strategy: Some(ant_protocol::storage::RetryStrategy::N(NonZeroUsize::new(allowed).unwrap())),
        target_record: target,
        expected_holders: HashSet::new(),
        is_register: false,
    };
    let result: Arc<Mutex<Option<Outcome>>> = Arc::new(Mutex::new(None));
    {
        let (net, key, res) = (sim.net.clone(), v.key.clone(), result.clone());
        sim.rt.block_on(async {
            tokio::spawn(async move {
                let r = net.get_record_from_network(key, &cfg).await;
                *res.lock().unwrap() = Some(r);
            });
        });
    }
    // distinct peers per version, per attempt and over all attempts
    let mut all_seen: BTreeMap<usize, BTreeSet<u8>> = BTreeMap::new();
    let mut per_attempt: Vec<BTreeMap<usize, BTreeSet<u8>>> = vec![];
    let mut queries_issued = 0usize;
    let done = |r: &Arc<Mutex<Option<Outcome>>>| r.lock().unwrap().is_some();
    for round in 0..(2 * allowed + 4) {
        sim.run_tasks(3);
        let cmds: Vec<NetworkSwarmCmd> = sim.network_cmds.drain(..).collect();
        for cmd in cmds {
            let _ = sim.handle_network(cmd);
        }
        if done(&result) {
            break;
        }
        let pending = sim.driver.verif_pending_get_record();
        let Some((qid, _, _)) = pending.iter().find(|(_, k, _)| *k == v.key).cloned() else {
            // the caller sleeps between attempts: let the paused clock pass its back-off
            sim.rt.block_on(async { tokio::time::advance(std::time::Duration::from_secs(40)).await });
            continue;
        };
        queries_issued += 1;
        let script = case.attempts.get(queries_issued - 1);
        let mut seen: BTreeMap<usize, BTreeSet<u8>> = BTreeMap::new();
        if let Some(a) = script {
            for (ei, r) in a.replies.iter().enumerate() {
                if !sim.driver.verif_pending_get_record().iter().any(|(id, _, _)| *id == qid) {
                    break;
                }
                let ver = r.ver as usize % nver;
                seen.entry(ver).or_default().insert(r.peer.min(8));
                all_seen.entry(ver).or_default().insert(r.peer.min(8));
                let peer = if r.peer >= 8 { None } else { Some(fix::peer(100 + r.peer as u64)) };
                let ev = found_event(qid, peer, fix::record(v.key.clone(), v.values[ver].clone()), ei + 1);
                let _ = sim.with_driver(|d| d.verif_handle_kad_event(ev));
                sim.run_tasks(2);
            }
        }
        per_attempt.push(seen);
        if sim.driver.verif_pending_get_record().iter().any(|(id, _, _)| *id == qid) {
            let term = script.map(|a| a.term).unwrap_or(Term::NotFound);
            let ev = term_event(qid, &v.key, term, 99);
            let _ = sim.with_driver(|d| d.verif_handle_kad_event(ev));
            sim.run_tasks(2);
        }
        let _ = round;
    }
    sim.run_tasks(3);
    ctx.label(format!("queries_issued_{}", queries_issued.min(5)));
    ctx.label(format!("class_{:?}", case.class));
    ctx.nontrivial_if(queries_issued >= 2);
    if queries_issued > allowed {
        ctx.fail("more_attempts_than_the_retry_strategy_allows", format!("{queries_issued} queries issued, strategy allows {allowed}"));
    }
    let out = result.lock().unwrap().take();
    let Some(out) = out else {
        ctx.fail("caller_left_waiting", format!("no outcome after {queries_issued} attempts were answered and terminated (allowed {allowed})"));
        return;
    };
    let q = q_value(case.q);
    match out {
        Ok(rec) => {
            ctx.label("value_returned");
            if rec.key != v.key {
                ctx.fail("value_under_other_key_returned", format!("{:?}", rec.key));
                return;
            }
            let versions_seen: Vec<usize> = all_seen.keys().copied().collect();
            let matching = (0..nver).find(|i| v.values[*i] == rec.value);
            // the merge of differing versions of one attempt is a legal value too
            let merged = per_attempt.iter().any(|s| s.len() > 1 && is_merge(&proto, &v, &s.keys().copied().collect::<Vec<_>>(), &rec));
            if merged {
                ctx.label("merged_result");
                return;
            }
            let Some(i) = matching else {
                ctx.fail("value_is_no_received_version_nor_merge", format!("{} bytes; versions received {versions_seen:?}", rec.value.len()));
                return;
            };
            // lenient on purpose: distinct peers are counted over ALL attempts of this caller
            let distinct = all_seen.get(&i).map(|s| s.len()).unwrap_or(0);
            if distinct < q {
                ctx.fail(
                    "value_without_quorum_after_retries",
                    format!("quorum {q}: version {i} was returned although over all {queries_issued} attempts only {distinct} distinct peers returned it (per attempt: {per_attempt:?})"),
                );
            }
            if let Target::Version(t) = case.target {
                if v.values[t as usize % nver] != rec.value {
                    ctx.fail("value_not_matching_expected_target", format!("returned version {i}, expected {t}"));
                }
            }
            // a value by quorum while the attempt that produced it (the last one made) saw differing content
            if per_attempt.last().map(|s| s.len() > 1).unwrap_or(false) {
                ctx.fail("one_version_returned_although_peers_returned_differing_content", format!("per attempt: {per_attempt:?}, returned version {i}"));
            }
        }
        Err(NetworkError::InternalMsgChannelDropped) => ctx.fail("caller_channel_dropped", "the request channel was dropped instead of answering".to_string()),
        Err(_) => ctx.label("error_returned"),
    }
}

pub fn run(cfg: RunCfg) {
    let mut rep = Report::new(cfg, "exploration");
    rep.rule = "C05: quorum cfg x 1-4 callers (attaching at generated points) x up to 8 content versions (chunk-like, transaction sets, registers, scratchpads) x reply sequences over 8 peers + self with duplicates x terminator; replies and terminators injected as kad events into the real SwarmDriver, callers are real Network::get_record_from_network futures.".into();
    rep.assumptions = vec![
        "libp2p's own query engine is replaced by injected kad::Event values (the seam the driver consumes)".into(),
        "an expected target is only required of a value returned on quorum, not of a merged result (the statement is read as two cases)".into(),
        "scratchpad ties on the highest counter may resolve to any of the tied valid versions".into(),
    ];
    vh_core::section!(
        rep, "quorum", (40_000, 1_000_000), 16,
        "non-trivial: >=2 versions seen, or a duplicate peer, or the terminator arrives before quorum; distinct by whole case",
        case_strategy, check
    );
    vh_core::section!(
        rep, "retry", (6_000, 200_000), 16,
        "one caller with RetryStrategy::N(2..4) on a client driver whose clock is paused; each attempt's query is answered by a generated reply list and terminator, the back-off is passed by advancing the clock; a value needs the quorum of distinct peers (counted leniently over all attempts), at most the allowed number of attempts, exactly one outcome; non-trivial: >= 2 attempts were made",
        retry_strategy, check_retry
    );
    vh_core::fuzz_section!(rep, "quorum", case_strategy, check, "sec_store", "store", 150_000, 240, 8);
    rep.finish();
}
