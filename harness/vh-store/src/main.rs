fn main() {
    vh_store::main_entry()
}
