//! vh-store: checks over the real record store / swarm driver / replication fetcher of
//! ant-networking, stepped by the harness through the `verif-hooks` feature.
mod c01;
mod c02;
mod c05;
mod c08;
mod c10;
mod c11;
mod c13q;
mod c17r;
mod sim;

fn main() {
    let cfg = vh_core::RunCfg::from_args();
    match cfg.prop.as_str() {
        "C01" => c01::run(cfg),
        "C02" => c02::run(cfg),
        "C05" => c05::run(cfg),
        "C08" => c08::run(cfg),
        "C10" => c10::run(cfg),
        "C11" => c11::run(cfg),
        "C13" => c13q::run(cfg),
        "C17" => c17r::run(cfg),
        other => {
            eprintln!("vh-store: unknown property {other}");
            std::process::exit(2);
        }
    }
}
