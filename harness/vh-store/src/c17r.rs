//! C17, record-store side — "parsers of untrusted ... bytes never crash": the files under a node's
//! storage directory are bytes the node did not necessarily write in full (a crash between create and
//! write, a full disk, a foreign file): the start-up loader and a later read must cope with ANY content.
//! Run as a child of the C17 check (vh-parsers); its evidence is folded into C17's.

use crate::sim::*;
use libp2p::kad::RecordKey;
use proptest::prelude::*;
use serde::{Deserialize, Serialize};
use vh_core::{Ctx, Report, RunCfg};

#[derive(Clone, Debug, Serialize, Deserialize)]
pub enum Content {
    /// the first n bytes of the file the store itself wrote for this record
    PrefixOfReal(u16),
    /// n bytes of noise
    Noise { len: u8, seed: u8 },
    /// the real file with noise appended
    RealPlus { len: u8, seed: u8 },
    /// the real file of ANOTHER record under this record's name
    OtherRecordsFile,
    Empty,
}

#[derive(Clone, Debug, Serialize, Deserialize)]
pub struct Case {
    pub node: u8,
    pub kind: u8,
    pub len: u16,
    pub files: Vec<Content>,
    /// also leave files whose names are no record keys (odd hex length, non-hex, very long)
    pub odd_names: bool,
}

fn strategy() -> BoxedStrategy<Case> {
    let content = prop_oneof![
        4 => prop_oneof![0u16..40, any::<u16>()].prop_map(Content::PrefixOfReal),
        3 => (prop_oneof![0u8..34, any::<u8>()], any::<u8>()).prop_map(|(len, seed)| Content::Noise { len, seed }),
        1 => (1u8..20, any::<u8>()).prop_map(|(len, seed)| Content::RealPlus { len, seed }),
        1 => Just(Content::OtherRecordsFile),
        1 => Just(Content::Empty),
    ];
    (0u8..4, 0u8..4, prop_oneof![1u16..40, 40u16..600], proptest::collection::vec(content, 1..5), any::<bool>())
        .prop_map(|(node, kind, len, files, odd_names)| Case { node, kind, len, files, odd_names })
        .boxed()
}

fn key_of(node: u8, i: usize) -> RecordKey {
    RecordKey::new(&vh_fix::h32("c17r-key", &[node as u64, i as u64]))
}

fn check(case: &Case, ctx: &mut Ctx) {
    let dir = new_tempdir();
    let kp = keypair_from_seed(0x1700 + case.node as u64);
    let n = case.files.len();
    // phase 1: the store writes real files for n+1 records
    let mut real: Vec<Vec<u8>> = vec![];
    {
        let mut sim = DriverSim::new_node(dir.path(), kp.clone(), None);
        for i in 0..=n {
            let v = make_value(case.kind, case.len as usize, 0x1700 + i as u32);
            let _ = sim.put_local(record(&key_of(case.node, i), v));
        }
        sim.settle(|_| 0);
        for i in 0..=n {
            real.push(std::fs::read(sim.storage_dir().join(hex::encode(key_of(case.node, i).as_ref()))).unwrap_or_default());
        }
    }
    if real.iter().any(|r| r.is_empty()) {
        // the store does not keep one hex-named file per record (any more): nothing to plant
        ctx.label("inconclusive_precondition/no_hex_named_record_files");
        return;
    }
    // phase 2: plant
    let storage = dir.path().join("record_store");
    let mut short = false;
    for (i, c) in case.files.iter().enumerate() {
        let path = storage.join(hex::encode(key_of(case.node, i).as_ref()));
        let bytes: Vec<u8> = match c {
            Content::PrefixOfReal(n) => real[i][..vh_core::pick_idx(*n, real[i].len())].to_vec(),
            Content::Noise { len, seed } => vh_fix::pseudo_bytes(*seed as u64, *len as usize),
            Content::RealPlus { len, seed } => {
                let mut b = real[i].clone();
                b.extend(vh_fix::pseudo_bytes(*seed as u64, *len as usize));
                b
            }
            Content::OtherRecordsFile => real[n].clone(),
            Content::Empty => vec![],
        };
        if bytes.len() < 32 {
            short = true;
        }
        std::fs::write(&path, &bytes).expect("plant");
    }
    if case.odd_names {
        let _ = std::fs::write(storage.join("abc"), b"x");
        let _ = std::fs::write(storage.join("not-hex-at-all"), b"");
        let _ = std::fs::write(storage.join("ff".repeat(100)), vh_fix::pseudo_bytes(1, 10));
    }
    // phase 3: restart over it, then read every key (vh-core turns a panic into `panic:...`)
    let ok = ctx.no_panic("record_store_loader", || {
        let mut sim2 = DriverSim::new_node(dir.path(), kp.clone(), None);
        sim2.quiesce_tasks();
        for i in 0..=n {
            let _ = sim2.get_local(&key_of(case.node, i));
        }
        // a file that turns up (or is cut short) while the node runs: re-plant and read again
        for (i, c) in case.files.iter().enumerate() {
            if let Content::PrefixOfReal(p) = c {
                let path = sim2.storage_dir().join(hex::encode(key_of(case.node, i).as_ref()));
                let _ = std::fs::write(&path, &real[i][..vh_core::pick_idx(*p, real[i].len())]);
                let _ = sim2.get_local(&key_of(case.node, i));
            }
        }
        drop(sim2);
    });
    ctx.label_if(short, "file_shorter_than_32_bytes");
    ctx.label_if(case.odd_names, "files_with_odd_names");
    ctx.nontrivial_if(ok.is_some() && short);
}

pub fn run(cfg: RunCfg) {
    let mut rep = Report::new(cfg, "exploration");
    rep.rule = "C17 (record-store side): record files with arbitrary content (prefixes of real files, noise of 0..255 bytes, real file + noise, another record's file, empty) and odd names planted in a node's storage directory; restart and reads must not panic.".into();
    rep.assumptions = vec!["what the store serves from such files is C02's subject; here only 'does not crash' is judged".into()];
    vh_core::section!(
        rep, "record_files", (1_500, 30_000), 16,
        "1..4 planted files per restart over a store of real records of every kind; non-trivial: a planted file shorter than 32 bytes; distinct by case",
        strategy, check
    );
    rep.finish();
}
