//! C11 — all distance computations agree with the XOR metric over hashed addresses.
//!
//! Reference metric (harness-side, independent of libp2p / ant-protocol): SHA-256 (sha2 crate) of
//! the address bytes, XOR, read as a 256-bit big-endian integer.

use crate::sim::*;
use ant_networking::verif_hooks::LocalSwarmCmd;
use ant_networking::{sort_peers_by_address, sort_peers_by_key, NetworkError};
use ant_protocol::storage::{ChunkAddress, ScratchpadAddress, TransactionAddress};
use ant_protocol::{convert_distance_to_u256, NetworkAddress};
use libp2p::kad::RecordKey;
use libp2p::PeerId;
use proptest::prelude::*;
use serde::{Deserialize, Serialize};
use tokio::sync::oneshot;
use vh_core::{pick_idx, Ctx, Report, RunCfg};
use vh_fix as fix;

/// An address described by small integers (replayable)
#[derive(Clone, Debug, Serialize, Deserialize, PartialEq)]
pub enum Addr {
    Peer(u16),
    Chunk(u16),
    Register { owner: u8, meta: u8 },
    Scratchpad(u8),
    Transaction(u16),
    /// raw record key: `len` bytes derived from `seed`
    Raw { seed: u16, len: u8 },
    /// an address whose hash shares >= `bits` leading bits with that of peer `with` (found by search)
    NearPeer { with: u16, bits: u8 },
}

fn addr_strategy() -> impl Strategy<Value = Addr> {
    prop_oneof![
        4 => (0u16..60).prop_map(Addr::Peer),
        2 => (0u16..60).prop_map(Addr::Chunk),
        1 => (0u8..6, 0u8..6).prop_map(|(owner, meta)| Addr::Register { owner, meta }),
        1 => (0u8..6).prop_map(Addr::Scratchpad),
        1 => (0u16..60).prop_map(Addr::Transaction),
        2 => (0u16..60, prop_oneof![Just(0u8), Just(1), Just(31), Just(32), Just(33), Just(64), 0u8..=64]).prop_map(|(seed, len)| Addr::Raw { seed, len }),
        2 => (0u16..400, 8u8..=14).prop_map(|(with, bits)| Addr::NearPeer { with, bits }),
    ]
}

pub fn build(a: &Addr) -> NetworkAddress {
    match a {
        Addr::Peer(i) => NetworkAddress::from_peer(fix::peer(*i as u64)),
        Addr::Chunk(i) => NetworkAddress::from_chunk_address(ChunkAddress::new(xor_name::XorName(fix::h32("c11-chunk", &[*i as u64])))),
        Addr::Register { owner, meta } => NetworkAddress::from_register_address(fix::register_address(*owner as u64, *meta as u64)),
        Addr::Scratchpad(o) => NetworkAddress::from_scratchpad_address(ScratchpadAddress::new(fix::pk(*o as u64))),
        Addr::Transaction(i) => NetworkAddress::from_transaction_address(TransactionAddress::new(xor_name::XorName(fix::h32("c11-tx", &[*i as u64])))),
        Addr::Raw { seed, len } => NetworkAddress::from_record_key(&RecordKey::new(&fix::pseudo_bytes(*seed as u64 + 1, *len as usize))),
        Addr::NearPeer { with, bits } => {
            // search a counter whose SHA-256 shares `bits` leading bits with the peer's hash
            use sha2::{Digest, Sha256};
            let target: [u8; 32] = Sha256::digest(fix::peer(*with as u64).to_bytes()).into();
            let want = (*bits).min(14) as u32;
            let mut n: u64 = 0;
            loop {
                let cand = fix::h32("c11-near", &[*with as u64, n]);
                let h: [u8; 32] = Sha256::digest(cand).into();
                let x = u32::from_be_bytes([h[0] ^ target[0], h[1] ^ target[1], h[2] ^ target[2], h[3] ^ target[3]]);
                if x.leading_zeros() >= want {
                    return NetworkAddress::from_record_key(&RecordKey::new(&cand));
                }
                n += 1;
            }
        }
    }
}

#[derive(Clone, Debug, Serialize, Deserialize)]
pub struct PairCase {
    pub a: Addr,
    pub b: Addr,
}

fn pair_strategy() -> BoxedStrategy<PairCase> {
    prop_oneof![
        6 => (addr_strategy(), addr_strategy()).prop_map(|(a, b)| PairCase { a, b }),
        1 => addr_strategy().prop_map(|a| PairCase { a: a.clone(), b: a }),
        3 => (0u16..400, 8u8..=14).prop_map(|(p, bits)| PairCase { a: Addr::Peer(p), b: Addr::NearPeer { with: p, bits } }),
    ]
    .boxed()
}

fn check_pair(c: &PairCase, ctx: &mut Ctx) {
    let (a, b) = (build(&c.a), build(&c.b));
    let (ab, bb) = (a.as_bytes(), b.as_bytes());
    let want = ref_distance(&ab, &bb);
    let got = convert_distance_to_u256(&a.distance(&b));
    let back = convert_distance_to_u256(&b.distance(&a));
    ctx.sample = Some(serde_json::json!({"a": format!("{:?}", c.a), "b": format!("{:?}", c.b), "distance": want.to_string()}));
    if got != want {
        ctx.fail("distance_differs_from_reference_metric", format!("{:?} ~ {:?}: code {got}, reference {want}", c.a, c.b));
    }
    if got != back {
        ctx.fail("distance_not_symmetric", format!("{:?} ~ {:?}: {got} vs {back}", c.a, c.b));
    }
    if (got == U256::ZERO) != (ab == bb) {
        ctx.fail("zero_distance_iff_equal_violated", format!("{:?} ~ {:?}: distance {got}, equal bytes {}", c.a, c.b, ab == bb));
    }
    // typed form vs raw record key form
    let a_raw = NetworkAddress::from_record_key(&a.to_record_key());
    let b_raw = NetworkAddress::from_record_key(&b.to_record_key());
    for (x, y, what) in [(&a_raw, &b, "a as record key"), (&a, &b_raw, "b as record key"), (&a_raw, &b_raw, "both as record keys")] {
        let d = convert_distance_to_u256(&x.distance(y));
        if d != want {
            ctx.fail("typed_and_record_key_forms_disagree", format!("{:?} ~ {:?} ({what}): {d} vs {want}", c.a, c.b));
        }
    }
    let shared = (want.leading_zeros() as u32).min(256);
    ctx.label_if(shared >= 8, "share_8_or_more_leading_hash_bits");
    ctx.label_if(ab == bb, "equal_addresses");
    ctx.nontrivial_if(shared >= 8);
}

// ------------------------------------------------------------------------------------------------

#[derive(Clone, Debug, Serialize, Deserialize)]
pub struct SortCase {
    pub peers: Vec<u16>,
    pub target: Addr,
    pub n: u8,
    pub by_key: bool,
}

pub fn sort_strategy() -> BoxedStrategy<SortCase> {
    (proptest::collection::vec(0u16..60, 0..40), addr_strategy(), 0u8..45, any::<bool>())
        .prop_map(|(peers, target, n, by_key)| SortCase { peers, target, n, by_key })
        .boxed()
}

pub fn check_sort(c: &SortCase, ctx: &mut Ctx) {
    let mut seen = std::collections::BTreeSet::new();
    let ids: Vec<u16> = c.peers.iter().copied().filter(|p| seen.insert(*p)).collect();
    let peers: Vec<PeerId> = ids.iter().map(|i| fix::peer(*i as u64)).collect();
    let target = build(&c.target);
    let n = c.n as usize;
    let res: Result<Vec<PeerId>, NetworkError> = if c.by_key {
        sort_peers_by_key(&peers, &target.as_kbucket_key(), n).map(|v| v.into_iter().copied().collect())
    } else {
        sort_peers_by_address(&peers, &target, n).map(|v| v.into_iter().copied().collect())
    };
    let tb = target.as_bytes();
    let mut want: Vec<(U256, PeerId)> = peers.iter().map(|p| (ref_distance(&tb, &p.to_bytes()), *p)).collect();
    want.sort_by(|a, b| a.0.cmp(&b.0));
    let tie = want.windows(2).any(|w| w[0].0 == w[1].0);
    let want: Vec<PeerId> = want.into_iter().take(n).map(|x| x.1).collect();
    ctx.label_if(peers.len() < 5, "fewer_than_close_group");
    ctx.label_if(n > peers.len(), "asks_for_more_than_known");
    ctx.nontrivial_if(peers.len() >= 5 && n >= 1);
    match res {
        Err(NetworkError::NotEnoughPeers { .. }) => {
            if peers.len() >= 5 {
                ctx.fail("not_enough_peers_reported_with_enough_known", format!("{} peers known", peers.len()));
            }
        }
        Err(e) => ctx.fail("sort_unexpected_error", format!("{e:?}")),
        Ok(got) => {
            if peers.len() < 5 {
                ctx.fail("too_few_peers_not_reported", format!("{} peers known, got Ok", peers.len()));
            } else if got != want && !tie {
                ctx.fail("closest_peers_differ_from_reference_order", format!("asked {n} of {} peers: got {:?}, reference {:?}", peers.len(), got.iter().map(|p| p.to_string()[40..].to_string()).collect::<Vec<_>>(), want.iter().map(|p| p.to_string()[40..].to_string()).collect::<Vec<_>>()));
            }
        }
    }
}

// ------------------------------------------------------------------------------------------------

#[derive(Clone, Debug, Serialize, Deserialize)]
pub enum RangeSel {
    None,
    AtPeer(u16),
    Frac(u16),
    Zero,
    Max,
}

#[derive(Clone, Debug, Serialize, Deserialize)]
pub struct CandCase {
    pub peers: Vec<u16>,
    pub target: Addr,
    pub range: RangeSel,
}

fn cand_strategy() -> BoxedStrategy<CandCase> {
    (
        prop_oneof![3 => proptest::collection::vec(0u16..60, 0..30), 1 => proptest::collection::vec(0u16..400, 24..48)],
        prop_oneof![1 => Just(Addr::Peer(9999)), 3 => addr_strategy()],
        prop_oneof![2 => Just(RangeSel::None), 4 => any::<u16>().prop_map(RangeSel::AtPeer), 3 => any::<u16>().prop_map(RangeSel::Frac), 1 => Just(RangeSel::Zero), 1 => Just(RangeSel::Max)],
    )
        .prop_map(|(peers, target, range)| CandCase { peers, target, range })
        .boxed()
}

fn check_cand(c: &CandCase, ctx: &mut Ctx) {
    // a fresh node driver per case: routing-table content is part of the case
    let dir = new_tempdir();
    let mut sim = DriverSim::new_node(dir.path(), keypair_from_seed(0xC11), None);
    let me = sim.peer_id();
    let mut inserted: Vec<PeerId> = vec![];
    let mut seen = std::collections::BTreeSet::new();
    for p in &c.peers {
        if !seen.insert(*p) {
            continue;
        }
        let id = fix::peer(*p as u64);
        let addr: libp2p::Multiaddr = format!("/ip4/127.0.0.1/udp/{}/quic-v1", 10000 + *p).parse().unwrap();
        if sim.with_driver(|d| d.verif_add_peer(id, addr)) {
            inserted.push(id);
        }
    }
    let target = if c.target == Addr::Peer(9999) { NetworkAddress::from_peer(me) } else { build(&c.target) };
    let tb = target.as_bytes();
    let mut sorted: Vec<(U256, PeerId)> = inserted.iter().map(|p| (ref_distance(&tb, &p.to_bytes()), *p)).collect();
    sorted.sort_by(|a, b| a.0.cmp(&b.0));
    let range = match &c.range {
        RangeSel::None => None,
        RangeSel::AtPeer(i) if !sorted.is_empty() => Some(sorted[pick_idx(*i, sorted.len())].0),
        RangeSel::AtPeer(_) => Some(U256::ZERO),
        RangeSel::Frac(f) => Some((U256::MAX >> 16) * U256::from(*f)),
        RangeSel::Zero => Some(U256::ZERO),
        RangeSel::Max => Some(U256::MAX),
    };
    if let Some(r) = range {
        sim.with_driver(|d| d.verif_set_distance_range(r));
    }
    let got = sim.with_driver(|d| d.verif_get_replicate_candidates(&target));
    let all: Vec<PeerId> = sorted.iter().map(|x| x.1).collect();
    let in_range: Vec<PeerId> = match range {
        Some(r) => sorted.iter().filter(|x| x.0 <= r).map(|x| x.1).collect(),
        None => vec![],
    };
    let want: Vec<PeerId> = if range.is_some() && in_range.len() >= 5 { in_range.clone() } else { all.iter().take(5).copied().collect() };
    ctx.label_if(range.is_some() && in_range.len() >= 5, "range_selects");
    ctx.label_if(range.is_some() && in_range.len() < 5, "range_too_narrow_fallback");
    ctx.label_if(matches!(c.range, RangeSel::AtPeer(_)), "bound_equals_an_element");
    ctx.nontrivial_if(inserted.len() >= 5 && range.is_some());
    if got != want {
        ctx.fail("replicate_candidates_differ_from_reference", format!("{} peers in the routing table, range {:?}: got {} candidates, reference {} (in range {})", inserted.len(), range.map(|r| r.to_string()), got.len(), want.len(), in_range.len()));
    }
    // closest-K view: self first, then ascending by distance to self, at most 20
    let k_view = sim.with_driver(|d| d.verif_closest_k_local_peers());
    let sb = me.to_bytes();
    let mut by_self: Vec<(U256, PeerId)> = inserted.iter().map(|p| (ref_distance(&sb, &p.to_bytes()), *p)).collect();
    by_self.sort_by(|a, b| a.0.cmp(&b.0));
    // the K closest known peers in ascending distance (whether the node lists itself in front is
    // not part of the statement: compare the other entries, K = 20 with or without self)
    let others: Vec<PeerId> = k_view.iter().copied().filter(|p| *p != me).collect();
    let want_others: Vec<PeerId> = by_self.iter().map(|x| x.1).take(others.len()).collect();
    let full = by_self.len().min(19);
    if others != want_others || others.len() < full || others.len() > 20 {
        ctx.fail("closest_k_local_peers_differ_from_reference", format!("got {} peers (besides self), {} known; not the nearest in ascending order", others.len(), by_self.len()));
    }
    // "the K closest" is a list of at most K = 20 entries, whether or not the node lists itself in it
    // (driver.rs: "Limit ourselves to K_VALUE (20) peers"): self + 20 others is one too many
    if k_view.len() > 20 {
        ctx.fail("closest_k_local_peers_longer_than_k", format!("the K-closest view has {} entries (self listed: {}), K = 20; {} peers known", k_view.len(), k_view.contains(&me), by_self.len()));
    }
    ctx.label_if(by_self.len() >= 21, "more_peers_known_than_k");
    // GetCloseGroupLocalPeers: the 5 nearest to the key, ascending
    let (tx, mut rx) = oneshot::channel();
    let _ = sim.handle_local(LocalSwarmCmd::GetCloseGroupLocalPeers { key: target.clone(), sender: tx });
    if let Ok(cg) = rx.try_recv() {
        let want_cg: Vec<PeerId> = all.iter().take(5).copied().collect();
        if cg != want_cg {
            ctx.fail("close_group_local_peers_differ_from_reference", format!("got {cg:?}, reference {want_cg:?}"));
        }
    }
}


// ------------------------------------------------------------------------------------------------
// section replication_sender: whose replication lists a node acts on is a closeness decision
// ------------------------------------------------------------------------------------------------

#[derive(Clone, Debug, Serialize, Deserialize)]
pub struct SenderCase {
    pub peers: Vec<u16>,
    /// closeness rank (to the node itself) of the peer that presents a replication list
    pub sender_rank: u16,
    pub keys: u8,
}

pub fn sender_strategy() -> BoxedStrategy<SenderCase> {
    (proptest::collection::vec(0u16..400, 22..vh_core::depth(46, 70)), any::<u16>(), 1u8..3)
        .prop_map(|(peers, sender_rank, keys)| SenderCase { peers, sender_rank, keys })
        .boxed()
}

pub fn check_sender(c: &SenderCase, ctx: &mut Ctx) {
    let dir = new_tempdir();
    let mut sim = DriverSim::new_node(dir.path(), keypair_from_seed(0xC11), None);
    let me = sim.peer_id();
    let mut inserted: Vec<PeerId> = vec![];
    let mut seen = std::collections::BTreeSet::new();
    for p in &c.peers {
        if !seen.insert(*p) {
            continue;
        }
        let id = fix::peer(1000 + *p as u64);
        let addr: libp2p::Multiaddr = format!("/ip4/127.0.0.1/udp/{}/quic-v1", 10000 + *p).parse().unwrap();
        if sim.with_driver(|d| d.verif_add_peer(id, addr)) {
            inserted.push(id);
        }
    }
    if inserted.is_empty() {
        return;
    }
    let sb = me.to_bytes();
    let mut by_self: Vec<(U256, PeerId)> = inserted.iter().map(|p| (ref_distance(&sb, &p.to_bytes()), *p)).collect();
    by_self.sort_by(|a, b| a.0.cmp(&b.0));
    // ranks around the boundary of the K = 20 closest are drawn as often as all others together
    let rank = if c.sender_rank & 1 == 0 { pick_idx(c.sender_rank, by_self.len()) } else { (16 + (c.sender_rank >> 1) as usize % 8).min(by_self.len() - 1) };
    let holder = by_self[rank].1;
    let list: Vec<(NetworkAddress, ant_protocol::storage::RecordType)> = (0..c.keys)
        .map(|i| (NetworkAddress::from_record_key(&RecordKey::new(&fix::h32("c11-sender-key", &[i as u64, rank as u64]))), ant_protocol::storage::RecordType::Chunk))
        .collect();
    sim.with_driver(|d| d.verif_on_replicate(NetworkAddress::from_peer(holder), list));
    sim.run_tasks(1);
    let acted = sim.with_driver(|d| d.verif_fetcher_to_be_fetched().len() + d.verif_fetcher_on_going().len()) > 0
        || sim.seen_events.iter().any(|e| matches!(e, ant_networking::NetworkEvent::KeysToFetchForReplication(_)));
    ctx.label(format!("rank_{}", match rank { 0..=15 => "0_15", 16..=18 => "16_18", 19 => "19", 20..=23 => "20_23", _ => "24_up" }));
    ctx.label_if(acted, "list_acted_upon");
    ctx.nontrivial_if(by_self.len() > 20);
    // the K = 20 closest (the node counts itself in): the 19 nearest others certainly, the 20th either way
    if rank <= 18 && !acted {
        ctx.fail("replication_list_from_one_of_the_closest_peers_ignored", format!("{} peers known; the sender is the {}-nearest to the node, its list was ignored", by_self.len(), rank + 1));
    }
    if rank >= 20 && acted {
        ctx.fail("replication_list_from_a_peer_beyond_the_closest_acted_upon", format!("{} peers known; the sender is only the {}-nearest to the node (K = 20), yet its list of {} key(s) was acted upon", by_self.len(), rank + 1, c.keys));
    }
}


// ------------------------------------------------------------------------------------------------
// the node's answer to GetClosestPeers (ant-node, through the VerifNode pass-through)
// ------------------------------------------------------------------------------------------------

#[derive(Clone, Debug, Serialize, Deserialize)]
pub struct ClosestCase {
    pub peers: Vec<u16>,
    pub target: Addr,
    pub count: Option<u8>,
    pub range: RangeSel,
}

fn closest_strategy() -> BoxedStrategy<ClosestCase> {
    (
        proptest::collection::vec(0u16..60, 0..40),
        addr_strategy(),
        proptest::option::weighted(0.7, 0u8..45),
        prop_oneof![3 => Just(RangeSel::None), 3 => any::<u16>().prop_map(RangeSel::AtPeer), 2 => any::<u16>().prop_map(RangeSel::Frac), 1 => Just(RangeSel::Zero), 1 => Just(RangeSel::Max)],
    )
        .prop_map(|(peers, target, count, range)| ClosestCase { peers, target, count, range })
        .boxed()
}

fn check_closest(c: &ClosestCase, ctx: &mut Ctx) {
    use ant_node::verif_hooks::VerifNode;
    let mut seen = std::collections::BTreeSet::new();
    let ids: Vec<u16> = c.peers.iter().copied().filter(|p| seen.insert(*p)).collect();
    let peers: Vec<(PeerId, Vec<libp2p::Multiaddr>)> = ids
        .iter()
        .map(|i| (fix::peer(*i as u64), vec![format!("/ip4/10.0.0.1/udp/{}/quic-v1", 1000 + *i).parse().unwrap()]))
        .collect();
    let target = build(&c.target);
    let tb = target.as_bytes();
    let mut sorted: Vec<(U256, PeerId)> = peers.iter().map(|(p, _)| (ref_distance(&tb, &p.to_bytes()), *p)).collect();
    sorted.sort_by(|a, b| a.0.cmp(&b.0));
    let range = match &c.range {
        RangeSel::None => None,
        RangeSel::AtPeer(i) if !sorted.is_empty() => Some(sorted[pick_idx(*i, sorted.len())].0),
        RangeSel::AtPeer(_) => Some(U256::ZERO),
        RangeSel::Frac(f) => Some((U256::MAX >> 16) * U256::from(*f)),
        RangeSel::Zero => Some(U256::ZERO),
        RangeSel::Max => Some(U256::MAX),
    };
    let got = VerifNode::calculate_get_closest_peers(peers.clone(), target.clone(), c.count.map(|n| n as usize), range.map(|r| r.to_be_bytes()));
    let got_ids: Vec<PeerId> = got.iter().filter_map(|(a, _)| a.as_peer_id()).collect();
    if got_ids.len() != got.len() {
        ctx.fail("closest_peers_returns_non_peer_address", String::new());
    }
    for (a, addrs) in &got {
        let p = a.as_peer_id();
        if !peers.iter().any(|(q, m)| Some(*q) == p && m == addrs) {
            ctx.fail("closest_peers_returns_wrong_multiaddrs", format!("{a:?}"));
        }
    }
    ctx.label_if(range.is_some(), "range_form");
    ctx.label_if(range.is_none() && c.count.is_some(), "count_form");
    ctx.label_if(matches!(c.range, RangeSel::AtPeer(_)), "bound_equals_an_element");
    ctx.nontrivial_if(peers.len() >= 2 && (range.is_some() || c.count.is_some()));
    match (range, c.count) {
        (Some(r), _) => {
            // every peer within the range, none outside (order not specified for this form)
            let want: std::collections::BTreeSet<PeerId> = sorted.iter().filter(|x| x.0 <= r).map(|x| x.1).collect();
            let have: std::collections::BTreeSet<PeerId> = got_ids.iter().copied().collect();
            if want != have || have.len() != got_ids.len() {
                ctx.fail("peers_in_range_differ_from_reference", format!("{} peers, range {r}: got {} reference {}", peers.len(), got_ids.len(), want.len()));
            }
        }
        (None, Some(n)) => {
            let want: Vec<PeerId> = sorted.iter().take(n as usize).map(|x| x.1).collect();
            if got_ids != want {
                ctx.fail("n_closest_peers_differ_from_reference", format!("{} peers, n={n}: got {} reference {}", peers.len(), got_ids.len(), want.len()));
            }
        }
        (None, None) => {
            if !got.is_empty() {
                ctx.fail("closest_peers_without_bound_not_empty", format!("{}", got.len()));
            }
        }
    }
}


// ------------------------------------------------------------------------------------------------
// section fetch_order: the replication fetcher's "closest first" is a closeness decision too
// ------------------------------------------------------------------------------------------------

#[derive(Clone, Debug, Serialize, Deserialize)]
pub struct FetchCase {
    pub node: u8,
    /// keys (by closeness rank 0..40) the first holder advertises
    pub first: Vec<bool>,
    /// keys further holders advertise (holder index 1.., rank mask)
    pub more: Vec<Vec<bool>>,
    /// which in-flight fetch completes next
    pub completes: Vec<u16>,
    /// Some(r): after the first advertisement the node reports itself full with the record of
    /// closeness rank r as its farthest held one; later advertisements are filtered by that bound
    #[serde(default)]
    pub full_at_rank: Option<u8>,
}

pub fn fetch_strategy() -> BoxedStrategy<FetchCase> {
    let mask = |p_true: u32| proptest::collection::vec(proptest::bool::weighted(p_true as f64 / 100.0), 40);
    (0u8..8, mask(90), proptest::collection::vec(mask(50), 1..3), proptest::collection::vec(any::<u16>(), 1..vh_core::depth(40, 80)), proptest::option::weighted(0.4, 0u8..40))
        .prop_map(|(node, first, more, completes, full_at_rank)| FetchCase { node, first, more, completes, full_at_rank })
        .boxed()
}

pub fn check_fetch_order(case: &FetchCase, ctx: &mut Ctx) {
    use ant_protocol::storage::RecordType;
    use std::collections::{HashMap, HashSet};
    let mut w = crate::c08::World::new(case.node);
    let none_local: HashMap<RecordKey, (NetworkAddress, RecordType)> = HashMap::new();
    let advert = |w: &crate::c08::World, mask: &Vec<bool>| -> Vec<(NetworkAddress, RecordType)> {
        mask.iter().enumerate().filter(|(_, b)| **b).filter_map(|(i, _)| w.keys.get(i).map(|k| (k.1.clone(), RecordType::Chunk))).collect()
    };
    let mut dup_in_flight_when_freed = false;
    let mut boundary_advertised = false;
    // judge one scheduling step: `new` = (key rank) just scheduled
    let mut judge = |w: &crate::c08::World, new: &[usize], at: &str, ctx: &mut Ctx| {
        let ongoing: HashSet<usize> = w.ongoing().into_iter().map(|(i, _, _)| i).collect();
        let eligible_left: Vec<usize> = w.pending().into_iter().map(|(i, _, _)| i).filter(|i| !ongoing.contains(i)).collect();
        // keys are sorted by increasing reference distance: the rank IS the closeness order
        if let (Some(far_new), Some(close_left)) = (new.iter().max(), eligible_left.iter().min()) {
            if far_new > close_left {
                ctx.fail("fetch_scheduled_beyond_a_closer_eligible_record", format!("{at}: scheduled the record of closeness rank {far_new} while rank {close_left} was queued and not in flight"));
            }
        }
    };
    let h0 = w.holders[0];
    let a0 = advert(&w, &case.first);
    if a0.len() < 2 {
        return;
    }
    let r = w.rt.block_on(async { w.f.add_keys(h0, a0, &none_local) });
    let new: Vec<usize> = r.iter().map(|(_, k)| w.idx(k)).collect();
    judge(&w, &new, "first advertisement", ctx);
    if let Some(r) = case.full_at_rank {
        let r = r as usize % w.keys.len();
        let k = w.keys[r].0.clone();
        w.rt.block_on(async { w.f.set_farthest_on_full(Some(k)) });
        // nothing farther than rank r stays queued or in flight; everything up to r (inclusive) stays
        let beyond: Vec<usize> = w.pending().into_iter().chain(w.ongoing()).map(|(i, _, _)| i).filter(|i| *i > r).collect();
        if !beyond.is_empty() {
            ctx.fail("record_farther_than_the_farthest_held_kept_after_full", format!("full at rank {r}: ranks {beyond:?} still queued / in flight"));
        }
    }
    for (hi, m) in case.more.iter().enumerate() {
        let h = w.holders[(hi + 1) % w.holders.len()];
        let a = advert(&w, m);
        if a.len() < 2 {
            continue;
        }
        let advertised: Vec<usize> = m.iter().enumerate().filter(|(_, b)| **b).map(|(i, _)| i).filter(|i| *i < w.keys.len()).collect();
        let r = w.rt.block_on(async { w.f.add_keys(h, a, &none_local) });
        let new: Vec<usize> = r.iter().map(|(_, k)| w.idx(k)).collect();
        judge(&w, &new, &format!("advertisement of holder {}", hi + 1), ctx);
        if let Some(limit) = case.full_at_rank {
            let limit = limit as usize % w.keys.len();
            // the bound is "not farther than the farthest held record": rank <= limit is taken (queued
            // for this holder or in flight from anyone), rank > limit is not
            let hidx = (hi + 1) % w.holders.len();
            let ongoing: HashSet<usize> = w.ongoing().into_iter().map(|(i, _, _)| i).collect();
            let queued_here: HashSet<usize> = w.pending().into_iter().filter(|(_, _, h)| *h == hidx).map(|(i, _, _)| i).collect();
            for i in advertised {
                let taken = ongoing.contains(&i) || queued_here.contains(&i);
                if i <= limit && !taken {
                    ctx.fail(
                        if i == limit { "record_at_the_farthest_acceptable_distance_dropped" } else { "record_within_the_farthest_acceptable_distance_dropped" },
                        format!("full at rank {limit}: advertised rank {i} from holder {hidx} is neither queued for it nor in flight"),
                    );
                }
                if i > limit && queued_here.contains(&i) {
                    ctx.fail("record_farther_than_the_farthest_held_accepted", format!("full at rank {limit}: advertised rank {i} was queued"));
                }
            }
            boundary_advertised |= m.get(limit).copied().unwrap_or(false);
        }
    }
    let mut done = 0;
    for (step, c) in case.completes.iter().enumerate() {
        let mut flying: Vec<usize> = w.ongoing().into_iter().map(|(i, _, _)| i).collect();
        flying.sort();
        if flying.is_empty() {
            break;
        }
        let fset: HashSet<usize> = flying.iter().copied().collect();
        if w.pending().into_iter().any(|(i, _, _)| fset.contains(&i)) {
            dup_in_flight_when_freed = true;
        }
        let k = flying[pick_idx(*c, flying.len())];
        let key = w.keys[k].0.clone();
        let r = w.rt.block_on(async { w.f.notify_about_new_put(key, RecordType::Chunk) });
        done += 1;
        let new: Vec<usize> = r.iter().map(|(_, k)| w.idx(k)).collect();
        judge(&w, &new, &format!("completion {step} (rank {k})"), ctx);
    }
    ctx.label_if(dup_in_flight_when_freed, "queued_duplicate_of_in_flight_key_when_a_slot_freed");
    ctx.label_if(done >= 20, "whole_first_batch_completed");
    ctx.label_if(case.full_at_rank.is_some(), "node_reported_full");
    ctx.label_if(boundary_advertised, "record_at_exactly_the_farthest_held_distance_advertised");
    ctx.nontrivial_if(dup_in_flight_when_freed && done > 0);
}


// ------------------------------------------------------------------------------------------------
// section store_distance_order: the record store's distance decisions (which record is the farthest,
// which is evicted, what lies within the responsible range) under C10's store histories, restarts
// included. Only the findings that are about ORDERING BY DISTANCE are taken over; capacity accounting
// and quoting figures stay C10's.
// ------------------------------------------------------------------------------------------------

const DISTANCE_ORDER_SIGNATURES: &[&str] = &[
    "farthest_view_wrong",
    "eviction_wrong_victim",
    "farther_record_accepted_at_capacity",
    "cleanup_removed_in_range_record",
    "cleanup_kept_out_of_range_record",
    "views_disagree_distance_index",
    "distance_index_wrong_distance",
    "distance_index_unknown_key",
];

fn check_store_distance_order(case: &crate::c10::Case, ctx: &mut Ctx) {
    let mut inner = Ctx::default();
    crate::c10::check(case, &mut inner);
    ctx.nontrivial = inner.nontrivial;
    ctx.canon = inner.canon;
    ctx.sample = inner.sample;
    for l in inner.labels {
        if !l.starts_with("inconclusive") {
            ctx.labels.push(l);
        }
    }
    for f in inner.failures {
        if DISTANCE_ORDER_SIGNATURES.contains(&f.sig.as_str()) {
            ctx.fail(f.sig, f.detail);
        }
    }
}

pub fn run(cfg: RunCfg) {
    let mut rep = Report::new(cfg, "exploration");
    rep.rule = "C11: addresses of every kind (peer, chunk, register, scratchpad, transaction, raw keys of 0-64 bytes, constructed near-collisions of the hash prefix); reference = SHA-256/XOR/big-endian in the harness.".into();
    rep.assumptions = vec![
        "the store's in-range count and the fetcher's range filter are cross-checked against the same reference metric inside C10 and C08".into(),
        "exact distance ties between different peers (hash collisions) are not generated".into(),
    ];
    vh_core::section!(
        rep, "metric", (60_000, 4_000_000), 16,
        "non-trivial: the two hashes share >= 8 leading bits (small distance); distinct by pair",
        pair_strategy, check_pair
    );
    vh_core::section!(
        rep, "sort", (40_000, 3_000_000), 16,
        "non-trivial: >= 5 peers and n >= 1; distinct by (peer set, target, n)",
        sort_strategy, check_sort
    );
    vh_core::section!(
        rep, "candidates", (5_000, 100_000), 16,
        "real node driver with a generated routing table and responsible range; non-trivial: >= 5 peers inserted and a range set",
        cand_strategy, check_cand
    );
    vh_core::section!(
        rep, "replication_sender", (2_500, 60_000), 16,
        "real node driver with 22-70 routing-table peers; a replication list of 1-2 unknown keys from the peer of a generated closeness rank (boundary ranks 16-23 drawn half of the time): acted upon iff the sender is among the K = 20 closest (rank 19 either way); non-trivial: > 20 peers known",
        sender_strategy, check_sender
    );
    vh_core::section!(
        rep, "node_closest_peers", (40_000, 2_000_000), 16,
        "ant-node's GetClosestPeers answer (range form and count form) vs the reference filter / sort; non-trivial: >= 2 peers and a bound given",
        closest_strategy, check_closest
    );
    vh_core::section!(
        rep, "fetch_order", (40_000, 1_000_000), 16,
        "real ReplicationFetcher with a backlog larger than its parallel limit (40 keys, two to three holders advertising overlapping subsets): after every scheduling step the records scheduled must be no farther (reference metric) than any queued record that is not in flight. non-trivial: a key queued from a second holder was in flight when a slot freed",
        fetch_strategy, check_fetch_order
    );
    vh_core::section!(
        rep, "store_distance_order", (3_000, 60_000), 16,
        "C10's store histories (puts at arbitrary distances at small capacities, acknowledgements, ranges, clean-ups, restarts) judged only for ordering by distance: farthest record, eviction victim, in-range sets, distance index. non-trivial as in C10",
        crate::c10::case_strategy, check_store_distance_order
    );
    vh_core::fuzz_section!(rep, "fetch_order", fetch_strategy, check_fetch_order, "sec_store", "store", 200_000, 180, 8);
    vh_core::fuzz_section!(rep, "sort", sort_strategy, check_sort, "sec_store", "store", 200_000, 120, 4);
    rep.finish();
}
