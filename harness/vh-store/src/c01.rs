//! C01 — validated records read back byte-exact from a node's store.
//!
//! Generated: histories of put / overwrite / remove / get / list over 6 keys, with the store's
//! completion notifications buffered by the harness and delivered in a generated order and delay,
//! plus (rare) injected write failures. Oracle: per-key reference model written from the statement.

use crate::sim::*;
use ant_networking::verif_hooks::LocalSwarmCmd;
use ant_protocol::NetworkAddress;
use libp2p::kad::RecordKey;
use proptest::prelude::*;
use serde::{Deserialize, Serialize};
use sha2::{Digest, Sha256};
use vh_core::{pick_idx, Ctx, Report, RunCfg};

pub const NKEYS: usize = 6;

#[derive(Clone, Debug, Serialize, Deserialize)]
pub enum Op {
    Put { k: u8, kind: u8, len: u16, seed: u8 },
    /// hand in again the value most recently handed in for k (what a replication retry does)
    PutAgain { k: u8 },
    /// a chunk record `delta` (1..=17) bytes below the store's size limit (5 MiB): the largest values the
    /// store admits; on disk they are 16 bytes longer than in memory
    PutNearLimit { k: u8, delta: u8 },
    Get { k: u8 },
    List,
    Remove { k: u8 },
    /// let the store's spawned tasks run once
    Run,
    /// deliver the i-th buffered completion notification
    Ack { i: u16 },
    /// make the next writes of k fail (a directory sits where the record file goes)
    Block { k: u8 },
    Unblock { k: u8 },
}

#[derive(Clone, Debug, Serialize, Deserialize)]
pub struct Case {
    pub node: u8,
    pub cache: u8,
    pub ops: Vec<Op>,
    pub settle_order: Vec<u16>,
    /// store capacity (0 = 4096, never reached): with 2..5 the store prunes its farthest record to
    /// admit a closer one, which is a removal like any other
    #[serde(default)]
    pub cap: u8,
    /// capacity of the driver's local command channel (0 = the shipped 10 000): with 1..4 slots a burst of
    /// unacknowledged writes finds the channel full when their completion notices are due
    #[serde(default)]
    pub chan: u8,
}

pub fn key_of(node: u8, k: u8) -> RecordKey {
    let mut h = Sha256::new();
    h.update(b"c01-key");
    h.update([node, k % NKEYS as u8]);
    let mut bytes: [u8; 32] = h.finalize().into();
    if k % NKEYS as u8 == 5 {
        // shares its first 8 bytes with key 4: same encryption nonce, different file
        let mut h4 = Sha256::new();
        h4.update(b"c01-key");
        h4.update([node, 4u8]);
        let b4: [u8; 32] = h4.finalize().into();
        bytes[..8].copy_from_slice(&b4[..8]);
    }
    RecordKey::new(&bytes)
}

fn op_strategy() -> impl Strategy<Value = Op> {
    let k = 0u8..NKEYS as u8;
    prop_oneof![
        30 => (k.clone(), 0u8..4, prop_oneof![8 => 1u16..64, 3 => 64u16..2048, 1 => Just(60000u16)], 0u8..4)
            .prop_map(|(k, kind, len, seed)| Op::Put { k, kind, len, seed }),
        6 => k.clone().prop_map(|k| Op::PutAgain { k }),
        15 => k.clone().prop_map(|k| Op::Get { k }),
        3 => Just(Op::List),
        12 => k.clone().prop_map(|k| Op::Remove { k }),
        15 => Just(Op::Run),
        18 => any::<u16>().prop_map(|i| Op::Ack { i }),
        3 => k.clone().prop_map(|k| Op::Block { k }),
        3 => k.prop_map(|k| Op::Unblock { k }),
    ]
}

/// Mostly single ops; sometimes a whole write-fault episode for one key (the write fails, the failure
/// is reported and handled, the path becomes free, the value is handed in again), with random ops of
/// other kinds free to land in between through the surrounding segments.
fn segment_strategy() -> impl Strategy<Value = Vec<Op>> {
    prop_oneof![
        480 => op_strategy().prop_map(|o| vec![o]),
        20 => (0u8..NKEYS as u8, 0u8..4, 1u16..64, 0u8..4, any::<bool>(), 0usize..4).prop_map(|(k, kind, len, seed, same, acks)| {
            let mut v = vec![Op::Block { k }, Op::Put { k, kind, len, seed }, Op::Run, Op::Run];
            v.extend(std::iter::repeat(Op::Ack { i: 0 }).take(acks + 1));
            v.push(Op::Unblock { k });
            v.push(if same { Op::PutAgain { k } } else { Op::Put { k, kind, len: len + 1, seed } });
            v
        }),
        // a record just below the size limit, pushed out of the read cache by later puts, then read from disk
        1 => (0u8..NKEYS as u8, prop_oneof![Just(1u8), Just(15), Just(16), Just(17), 1u8..18], 1usize..5).prop_map(|(k, delta, others)| {
            let mut v = vec![Op::PutNearLimit { k, delta }, Op::Run, Op::Ack { i: 0 }];
            for j in 0..others {
                v.push(Op::Put { k: (k + 1 + j as u8) % NKEYS as u8, kind: 0, len: 9, seed: j as u8 });
                v.push(Op::Run);
                v.push(Op::Ack { i: 0 });
            }
            v.push(Op::Get { k });
            v
        }),
        // the same for a key that is already held and acknowledged: its update fails on disk
        20 => (0u8..NKEYS as u8, 0u8..4, 1u16..64, 0u8..4, 0usize..3, any::<bool>()).prop_map(|(k, kind, len, seed, acks, unblock)| {
            let mut v = vec![Op::Put { k, kind, len, seed }, Op::Run, Op::Ack { i: 0 }, Op::Ack { i: 0 }, Op::Block { k }, Op::Put { k, kind, len: len + 1, seed }, Op::Run, Op::Run];
            v.extend(std::iter::repeat(Op::Ack { i: 0 }).take(acks + 1));
            if unblock {
                v.push(Op::Unblock { k });
            }
            v.push(Op::Get { k });
            v
        }),
    ]
}

pub fn case_strategy() -> BoxedStrategy<Case> {
    (
        0u8..4,
        prop_oneof![Just(1u8), Just(2u8), Just(3u8), Just(25u8)],
        proptest::collection::vec(segment_strategy(), 0..vh_core::depth(40, 140)),
        proptest::collection::vec(any::<u16>(), 0..8),
        prop_oneof![3 => Just(0u8), 1 => 2u8..6],
        prop_oneof![3 => Just(0u8), 1 => 1u8..5],
    )
        .prop_map(|(node, cache, segs, settle_order, cap, chan)| Case { node, cache, ops: segs.into_iter().flatten().collect(), settle_order, cap, chan })
        .boxed()
}

#[derive(Clone, Debug, PartialEq)]
enum Last {
    Nothing,
    PutOk(Vec<u8>),
    Removed,
}

/// Notifications of one key stay in issue order (the statement only quantifies over completion
/// orders of tasks for *different* keys): picking entry j delivers the earliest entry of j's key.
pub fn fifo_per_key(notifs: &[LocalSwarmCmd], j: usize) -> usize {
    let Some(k) = notifs.get(j).and_then(notif_key) else { return j };
    notifs
        .iter()
        .position(|c| notif_key(c).as_ref() == Some(&k))
        .unwrap_or(j)
}

pub fn notif_key(c: &LocalSwarmCmd) -> Option<RecordKey> {
    match c {
        LocalSwarmCmd::AddLocalRecordAsStored { key, .. } => Some(key.clone()),
        LocalSwarmCmd::RemoveFailedLocalRecord { key } => Some(key.clone()),
        _ => None,
    }
}

pub fn check(case: &Case, ctx: &mut Ctx) {
    let dir = new_tempdir();
    let mut sim = DriverSim::new_node_chan(
        dir.path(),
        keypair_from_seed(case.node as u64),
        Some((if case.cap == 0 { 4096 } else { case.cap as usize }, case.cache.max(1) as usize)),
        (case.chan > 0).then_some(case.chan as usize),
    );
    ctx.label_if(case.chan > 0, "small_command_channel");
    let cap = if case.cap == 0 { 4096 } else { case.cap as usize };
    let (mut evictions, mut refusals_at_capacity) = (0, 0);
    let keys: Vec<RecordKey> = (0..NKEYS as u8).map(|k| key_of(case.node, k)).collect();
    let mut handed: Vec<Vec<Vec<u8>>> = vec![vec![]; NKEYS];
    let mut last: Vec<Last> = vec![Last::Nothing; NKEYS];
    let mut tainted = vec![false; NKEYS];
    let mut blocked = vec![false; NKEYS];
    // the harness itself destroyed the record file of a held key (a directory now sits there, which is
    // how a failing disk is simulated hook-free; `fs::write` would have truncated the old version as
    // well): until a write issued AFTER that has reported, "listed but unreadable" is the harness' doing
    let mut destroyed_at: Vec<Option<u32>> = vec![None; NKEYS];
    let (mut issued, mut reported) = (vec![0u32; NKEYS], vec![0u32; NKEYS]);
    let mut held_key_fault = false;
    // the store's own failed-write handler (RemoveFailedLocalRecord -> remove) ran while a NEWER write of
    // the same key was still unreported: same mechanism as a remove with a write in flight
    let mut failed_removal_over_newer_write = vec![false; NKEYS];
    // op index at which each buffered notification became visible
    let mut notif_seen_at: Vec<usize> = vec![];
    let (mut overwrite, mut remove_acked, mut ack_reordered, mut ack_delayed, mut disk_read) =
        (false, false, false, false, false);
    let mut inflight_remove = false;
    let (mut put_again, mut fault_resolved) = (false, false);
    let mut near_limit = false;
    // accepted puts of a key whose completion notification has not been delivered yet
    let mut unacked = vec![0i32; NKEYS];
    // the key was removed while a write of the same key was still in flight
    let mut removed_inflight = vec![false; NKEYS];

    let sync_notifs = |sim: &DriverSim, seen: &mut Vec<usize>, at: usize| {
        while seen.len() < sim.notifications.len() {
            seen.push(at);
        }
    };

    for (idx, op) in case.ops.iter().enumerate() {
        match op {
            Op::Put { .. } | Op::PutAgain { .. } | Op::PutNearLimit { .. } => {
                let (ki, v) = match op {
                    Op::PutNearLimit { k, delta } => {
                        near_limit = true;
                        (*k as usize % NKEYS, chunk_value_of_total_len(ant_networking::MAX_PACKET_SIZE - (*delta as usize).clamp(1, 17), 0xA11 + *k as u32))
                    }
                    Op::Put { k, kind, len, seed } => (*k as usize % NKEYS, make_value(*kind, *len as usize, (*seed as u32) << 8 | *k as u32)),
                    Op::PutAgain { k } => {
                        let ki = *k as usize % NKEYS;
                        match handed[ki].last() {
                            Some(v) => (ki, v.clone()),
                            None => continue,
                        }
                    }
                    _ => unreachable!(),
                };
                if matches!(op, Op::PutAgain { .. }) {
                    put_again = true;
                }
                handed[ki].push(v.clone());
                // an injected write fault is over once the path is free again and every earlier write of
                // the key has reported (stored or failed+removed): a write ACCEPTED from here on is
                // judged in full
                if last[ki] != Last::Nothing {
                    overwrite = true;
                }
                if blocked[ki] {
                    tainted[ki] = true;
                }
                // the store skips the write when its cache already holds exactly this value
                let cached_same = sim
                    .driver
                    .verif_node_store()
                    .map(|s| s.verif_cache_keys().contains(&keys[ki]))
                    .unwrap_or(false)
                    && sim.get_local(&keys[ki]).map(|r| r.value == v).unwrap_or(false);
                // (when the harness itself destroyed the file of a held key, only a put that really writes
                // ends the fault: a put answered from the cache leaves the file missing)
                let destroyed_pending = destroyed_at[ki].map(|mark| reported[ki] <= mark).unwrap_or(false);
                let fault_over = tainted[ki] && !blocked[ki] && unacked[ki] == 0 && (!destroyed_pending || !cached_same);
                let listed_before: Vec<usize> = {
                    let l = sim.list();
                    (0..NKEYS).filter(|i| l.contains_key(&NetworkAddress::from_record_key(&keys[*i]))).collect()
                };
                match sim.put_local(record(&keys[ki], v.clone())) {
                    Ok(()) => {
                        if fault_over {
                            tainted[ki] = false;
                            fault_resolved = true;
                        }
                        if !cached_same {
                            unacked[ki] += 1;
                            issued[ki] += 1;
                        }
                        removed_inflight[ki] = false;
                        last[ki] = Last::PutOk(v);
                        // a full store admits a closer record by pruning its farthest one: the victim
                        // (whichever the store chose; C10 judges the choice) has been removed
                        let l = sim.list();
                        for e in listed_before.iter().filter(|i| **i != ki && !l.contains_key(&NetworkAddress::from_record_key(&keys[**i]))) {
                            evictions += 1;
                            if unacked[*e] > 0 {
                                inflight_remove = true;
                                removed_inflight[*e] = true;
                            }
                            last[*e] = Last::Removed;
                        }
                    }
                    Err(e) => {
                        if listed_before.len() >= cap {
                            refusals_at_capacity += 1;
                        } else {
                            ctx.precondition_failed("put_rejected_unexpectedly", format!("op {idx}: put of key {ki} below capacity returned {e}"));
                        }
                    }
                }
            }
            Op::Get { k } => {
                let ki = *k as usize % NKEYS;
                let cached = sim
                    .driver
                    .verif_node_store()
                    .map(|s| s.verif_cache_keys().contains(&keys[ki]))
                    .unwrap_or(false);
                if let Some(r) = sim.get_local(&keys[ki]) {
                    if !cached {
                        disk_read = true;
                    }
                    if r.key != keys[ki] {
                        ctx.fail("read_under_other_key", format!("op {idx}: get(key {ki}) returned a record keyed {:?}", r.key));
                    }
                    if !handed[ki].iter().any(|v| *v == r.value) {
                        ctx.fail(
                            "read_bytes_never_handed_in",
                            format!("op {idx}: get(key {ki}) returned {} bytes that were never put for this key", r.value.len()),
                        );
                    }
                }
            }
            Op::List => {
                for (addr, _t) in sim.list() {
                    let rk = addr.to_record_key();
                    if !keys.contains(&rk) {
                        ctx.fail("listed_unknown_key", format!("op {idx}: listed {addr:?}"));
                    }
                }
            }
            Op::Remove { k } => {
                let ki = *k as usize % NKEYS;
                // removes are issued for keys the store lists or has a write in flight for (prune and
                // clean-up remove listed keys, the failed-write path removes an in-flight one)
                if sim.has_key(&keys[ki]) || unacked[ki] > 0 {
                    if unacked[ki] > 0 {
                        inflight_remove = true;
                        removed_inflight[ki] = true;
                    }
                    remove_acked = true;
                    sim.remove(&keys[ki]);
                    last[ki] = Last::Removed;
                }
            }
            Op::Run => {
                sim.run_tasks(1);
            }
            Op::Ack { i } => {
                let n = sim.notifications.len();
                if n > 0 {
                    let j = fifo_per_key(&sim.notifications, pick_idx(*i, n));
                    if j > 0 {
                        ack_reordered = true;
                    }
                    if notif_seen_at.get(j).map(|at| *at + 1 < idx).unwrap_or(false) {
                        ack_delayed = true;
                    }
                    if j < notif_seen_at.len() {
                        notif_seen_at.remove(j);
                    }
                    if let Some(LocalSwarmCmd::RemoveFailedLocalRecord { key }) = sim.notifications.get(j) {
                        if let Some(ki) = keys.iter().position(|x| x == key) {
                            tainted[ki] = true;
                        }
                    }
                    if let Some(ki) = sim.notifications.get(j).and_then(notif_key).and_then(|k| keys.iter().position(|x| *x == k)) {
                        unacked[ki] -= 1;
                        reported[ki] += 1;
                        if matches!(sim.notifications.get(j), Some(LocalSwarmCmd::RemoveFailedLocalRecord { .. })) && unacked[ki] > 0 {
                            failed_removal_over_newer_write[ki] = true;
                        }
                    }
                    sim.deliver_notification(j);
                }
            }
            Op::Block { k } => {
                let ki = *k as usize % NKEYS;
                let p = sim.storage_dir().join(hex::encode(keys[ki].as_ref()));
                if !p.exists() && std::fs::create_dir(&p).is_ok() {
                    blocked[ki] = true;
                    tainted[ki] = true;
                } else if p.is_file() && sim.has_key(&keys[ki]) && unacked[ki] == 0 && std::fs::remove_file(&p).is_ok() && std::fs::create_dir(&p).is_ok() {
                    // a held, acknowledged record: its next update fails on disk
                    blocked[ki] = true;
                    tainted[ki] = true;
                    destroyed_at[ki] = Some(issued[ki]);
                    held_key_fault = true;
                }
            }
            Op::Unblock { k } => {
                let ki = *k as usize % NKEYS;
                if blocked[ki] {
                    let p = sim.storage_dir().join(hex::encode(keys[ki].as_ref()));
                    let _ = std::fs::remove_dir(&p);
                    blocked[ki] = false;
                }
            }
        }
        sim.drain();
        if std::env::var_os("VERIF_DEBUG").is_some() {
            let l = sim.list();
            let listed: Vec<usize> = (0..NKEYS).filter(|i| l.contains_key(&NetworkAddress::from_record_key(&keys[*i]))).collect();
            eprintln!("after op {idx} {op:?}: listed {listed:?} unacked {unacked:?} notifs {:?} last {:?}", sim.notifications.iter().map(|n| format!("{n:?}").chars().take(40).collect::<String>()).collect::<Vec<_>>(), last.iter().map(|l| match l { Last::Nothing => "-", Last::PutOk(_) => "P", Last::Removed => "R" }).collect::<String>());
        }
        sync_notifs(&sim, &mut notif_seen_at, idx);
    }

    // ---- settle: run everything, deliver remaining notifications in the generated order --------
    let order = case.settle_order.clone();
    let mut j = 0usize;
    // a failed write is reported through RemoveFailedLocalRecord: taint before delivering
    loop {
        sim.quiesce_tasks();
        if sim.notifications.is_empty() {
            break;
        }
        let n = sim.notifications.len();
        let i = fifo_per_key(&sim.notifications, pick_idx(order.get(j).copied().unwrap_or(0), n));
        j += 1;
        if i > 0 {
            ack_reordered = true;
        }
        if let Some(LocalSwarmCmd::RemoveFailedLocalRecord { key }) = sim.notifications.get(i) {
            if let Some(ki) = keys.iter().position(|x| x == key) {
                tainted[ki] = true;
            }
        }
        if let Some(ki) = sim.notifications.get(i).and_then(notif_key).and_then(|k| keys.iter().position(|x| *x == k)) {
            reported[ki] += 1;
            unacked[ki] -= 1;
            if matches!(sim.notifications.get(i), Some(LocalSwarmCmd::RemoveFailedLocalRecord { .. })) && unacked[ki] > 0 {
                failed_removal_over_newer_write[ki] = true;
            }
        }
        sim.deliver_notification(i);
    }

    // ---- final state against the model ----------------------------------------------------------
    let listed = sim.list();
    for ki in 0..NKEYS {
        let key = &keys[ki];
        let got = sim.get_local(key);
        let has = sim.has_key(key);
        let addr = NetworkAddress::from_record_key(key);
        let in_list = listed.get(&addr).cloned();
        if let Some(r) = &got {
            if !handed[ki].iter().any(|v| *v == r.value) {
                ctx.fail("read_bytes_never_handed_in", format!("settled: get(key {ki}) returned bytes never put for this key"));
            }
        }
        if tainted[ki] {
            // Whatever an injected write fault did to the key, the settled store must be consistent about
            // it: either the key is held (listed and readable) or it is gone (neither). Exempt only while
            // the harness' own destruction of the file is the cause (no later write has reported yet).
            let harness_did_it = destroyed_at[ki].map(|mark| reported[ki] <= mark).unwrap_or(false);
            if (has || in_list.is_some()) && got.is_none() && !harness_did_it {
                let sig = if removed_inflight[ki] {
                    "removed_while_write_in_flight_relisted_without_file"
                } else if failed_removal_over_newer_write[ki] {
                    "failed_write_cleanup_over_newer_write_relisted_without_file"
                } else {
                    "settled_listed_key_unreadable"
                };
                ctx.fail(sig, format!("key {ki}: listed after settling (has_key={has}, in list={}) but a read returns nothing; its last write failed on disk (injected fault) and the failure was reported", in_list.is_some()));
            }
            continue;
        }
        match &last[ki] {
            Last::PutOk(v) => {
                match &got {
                    Some(r) if r.value == *v => {}
                    Some(r) => ctx.fail(
                        "settled_value_not_latest",
                        format!("key {ki}: latest accepted write has {} bytes (seed {:02x?}), store returns {} bytes ({:02x?}..)", v.len(), &v[..v.len().min(6)], r.value.len(), &r.value[..r.value.len().min(6)]),
                    ),
                    None => ctx.fail("settled_accepted_write_unreadable", format!("key {ki}: accepted write of {} bytes is not readable after settling (listed={has})", v.len())),
                }
                if !has || in_list.is_none() {
                    ctx.fail("settled_accepted_write_unlisted", format!("key {ki}: accepted write not listed (has_key={has}, in list={})", in_list.is_some()));
                }
                // (which RecordType the listing carries and how the store lays its files out are not
                // part of the statement: measured as labels only)
                if let (Some(t), Some(exp)) = (&in_list, expected_record_type(v)) {
                    ctx.label_if(*t != exp, "listed_type_differs_from_cmd_rs_derivation");
                }
                ctx.label_if(!sim.storage_dir().join(hex::encode(key.as_ref())).is_file(), "no_hex_named_file_for_held_key");
            }
            Last::Removed => {
                if got.is_some() {
                    ctx.fail("removed_key_readable", format!("key {ki}: readable after remove"));
                }
                if has || in_list.is_some() {
                    let sig = if removed_inflight[ki] && got.is_none() {
                        "removed_while_write_in_flight_relisted_without_file"
                    } else {
                        "removed_key_listed"
                    };
                    ctx.fail(sig, format!("key {ki}: removed (write of the same key in flight: {}) but listed after settling; readable={}", removed_inflight[ki], got.is_some()));
                }
            }
            Last::Nothing => {
                if got.is_some() || has || in_list.is_some() {
                    ctx.fail("never_put_key_present", format!("key {ki}: never put but present"));
                }
            }
        }
    }
    // files: layout is the store's business; only count what a hex-per-key layout would leave behind
    let stray = sim.files().iter().filter(|f| {
        match keys.iter().position(|k| hex::encode(k.as_ref()) == **f) {
            None => true,
            Some(ki) => !tainted[ki] && !matches!(last[ki], Last::PutOk(_)),
        }
    }).count();
    ctx.label_if(stray > 0, "file_left_for_absent_key(observation)");

    ctx.label_if(overwrite, "overwrite");
    ctx.label_if(remove_acked, "remove_of_listed_key");
    ctx.label_if(inflight_remove, "remove_with_write_in_flight");
    ctx.label_if(ack_reordered, "ack_reordered");
    ctx.label_if(ack_delayed, "ack_delayed");
    ctx.label_if(disk_read, "cache_miss_disk_read");
    ctx.label_if(tainted.iter().any(|t| *t), "write_fault_injected");
    ctx.label_if(fault_resolved, "write_after_resolved_fault");
    ctx.label_if(held_key_fault, "write_fault_on_held_key");
    ctx.label_if(put_again, "same_value_handed_in_again");
    ctx.label_if(near_limit, "record_just_below_the_size_limit");
    ctx.label_if(evictions > 0, "record_pruned_at_capacity");
    ctx.label_if(refusals_at_capacity > 0, "put_refused_at_capacity");
    ctx.nontrivial_if((overwrite || remove_acked) && (ack_reordered || ack_delayed));
    drop(sim);
}

pub fn run(cfg: RunCfg) {
    let mut rep = Report::new(cfg, "exploration");
    rep.rule = "C01: histories of put/overwrite/remove/get/list over 6 keys against the real SwarmDriver+NodeRecordStore (cmd.rs arms), completion notifications buffered and delivered in generated order/delay.".into();
    rep.assumptions = vec![
        "single-threaded stepping: same-key background tasks run FIFO (the statement excludes same-key reordering); different-key completion order is permuted through the notification order".into(),
        "keys whose write was made to fail by the harness (directory in place of the file) are only checked for 'reads return bytes handed in for that key' until the fault is over (path free again, every earlier write of the key reported); writes accepted after that are judged in full".into(),
        "remove is only issued for keys the store currently lists or has an unacknowledged write for (as prune / clean-up / the failed-write path do)".into(),
    ];
    vh_core::section!(
        rep, "history", (18_000, 300_000), 16,
        "non-trivial: (overwrite or remove of a listed key) and (an ack delivered out of issue order or delayed past a later op); distinct by whole history",
        case_strategy, check
    );
    vh_core::fuzz_section!(rep, "history", case_strategy, check, "sec_store", "store", 6_000, 240, 8);
    rep.finish();
}
