//! vh-fix: deterministic fixtures shared by the node / client / store sims: BLS and ed25519 keys
//! derived from small integers, and records of every kind with full control over each field
//! (private fields are set through serde mirror structs).

use ant_protocol::storage::{
    try_serialize_record, Chunk, RecordKind, Scratchpad, ScratchpadAddress, Transaction,
};
use ant_protocol::NetworkAddress;
use ant_registers::{Permissions, Register, RegisterAddress, RegisterCrdt, RegisterOp, SignedRegister};
use bls::{PublicKey, SecretKey, Signature};
use bytes::Bytes;
use libp2p::identity::Keypair;
use libp2p::kad::{Record, RecordKey};
use libp2p::PeerId;
use rand::SeedableRng;
use serde::Serialize;
use sha2::{Digest, Sha256};
use std::cell::RefCell;
use std::collections::{BTreeSet, HashMap};
use xor_name::XorName;

pub fn h32(tag: &str, parts: &[u64]) -> [u8; 32] {
    let mut h = Sha256::new();
    h.update(tag.as_bytes());
    for p in parts {
        h.update(p.to_le_bytes());
    }
    h.finalize().into()
}

thread_local! {
    static SKS: RefCell<HashMap<u64, SecretKey>> = RefCell::new(HashMap::new());
}

/// Deterministic BLS secret key number `i`.
pub fn sk(i: u64) -> SecretKey {
    SKS.with(|c| {
        c.borrow_mut()
            .entry(i)
            .or_insert_with(|| {
                let mut b = h32("vh-fix-bls", &[i]);
                b[0] &= 0x3f; // below the field modulus
                SecretKey::from_bytes(b).expect("valid scalar")
            })
            .clone()
    })
}

pub fn pk(i: u64) -> PublicKey {
    sk(i).public_key()
}

pub fn ed_keypair(i: u64) -> Keypair {
    Keypair::ed25519_from_bytes(h32("vh-fix-ed25519", &[i])).expect("ed25519")
}

pub fn peer(i: u64) -> PeerId {
    PeerId::from(ed_keypair(i).public())
}

/// SHA3-256, the content hash behind `XorName::from_content` (independent of xor_name).
pub fn sha3(bytes: &[u8]) -> [u8; 32] {
    use tiny_keccak::{Hasher, Sha3};
    let mut h = Sha3::v256();
    let mut out = [0u8; 32];
    h.update(bytes);
    h.finalize(&mut out);
    out
}

pub fn pseudo_bytes(seed: u64, len: usize) -> Vec<u8> {
    let mut x = seed.wrapping_mul(0x9e37_79b9_7f4a_7c15) | 1;
    (0..len)
        .map(|_| {
            x ^= x << 13;
            x ^= x >> 7;
            x ^= x << 17;
            (x >> 24) as u8
        })
        .collect()
}

pub fn record(key: RecordKey, value: Vec<u8>) -> Record {
    Record { key, value, publisher: None, expires: None }
}

// ---- chunks --------------------------------------------------------------------------------------

pub fn chunk(seed: u64, len: usize) -> Chunk {
    Chunk::new(Bytes::from(pseudo_bytes(seed, len.max(1))))
}

pub fn chunk_record(c: &Chunk) -> Record {
    record(
        NetworkAddress::from_chunk_address(*c.address()).to_record_key(),
        try_serialize_record(c, RecordKind::Chunk).expect("serialise").to_vec(),
    )
}

// ---- scratchpads ---------------------------------------------------------------------------------

#[derive(Clone, Copy, Debug, PartialEq, Eq, serde::Serialize, serde::Deserialize)]
pub enum Sig {
    /// signed by the owner over (counter, hash of data)
    Valid,
    /// no signature at all
    Missing,
    /// a genuine signature by another key over the right bytes
    OtherKey,
    /// the owner's signature over a different counter
    OtherCounter,
}

#[derive(Serialize)]
struct ScratchpadMirror {
    address: ScratchpadAddress,
    data_encoding: u64,
    encrypted_data: Bytes,
    counter: u64,
    signature: Option<Signature>,
}

/// A scratchpad with every field chosen by the caller. `data` is stored as given (for vault tests
/// pass real ciphertext from `encrypt_for`).
pub fn scratchpad(owner: u64, encoding: u64, data: Vec<u8>, counter: u64, sig: Sig) -> Scratchpad {
    let data = Bytes::from(data);
    let mut to_sign = counter.to_be_bytes().to_vec();
    to_sign.extend(XorName::from_content(&data).to_vec());
    let signature = match sig {
        Sig::Valid => Some(sk(owner).sign(&to_sign)),
        Sig::Missing => None,
        Sig::OtherKey => Some(sk(owner + 1000).sign(&to_sign)),
        Sig::OtherCounter => {
            let mut other = (counter + 1).to_be_bytes().to_vec();
            other.extend(XorName::from_content(&data).to_vec());
            Some(sk(owner).sign(&other))
        }
    };
    let m = ScratchpadMirror {
        address: ScratchpadAddress::new(pk(owner)),
        data_encoding: encoding,
        encrypted_data: data,
        counter,
        signature,
    };
    let bytes = rmp_serde::to_vec(&m).expect("mirror serialises");
    rmp_serde::from_slice(&bytes).expect("mirror decodes as Scratchpad")
}

/// Real ciphertext for `owner` with a deterministic RNG.
pub fn encrypt_for(owner: u64, plain: &[u8], seed: u64) -> Vec<u8> {
    let mut rng = rand_chacha::ChaCha8Rng::seed_from_u64(seed);
    pk(owner).encrypt_with_rng(&mut rng, plain).to_bytes()
}

/// Independent re-computation of scratchpad validity (BLS verify over counter ‖ SHA3(data)).
pub fn scratchpad_is_authentic(s: &Scratchpad, owner: &PublicKey) -> bool {
    if s.owner() != owner {
        return false;
    }
    let ser = rmp_serde::to_vec(s).expect("ser");
    #[derive(serde::Deserialize)]
    struct M {
        _address: ScratchpadAddress,
        _data_encoding: u64,
        encrypted_data: Bytes,
        counter: u64,
        signature: Option<Signature>,
    }
    let m: M = rmp_serde::from_slice(&ser).expect("mirror");
    let Some(sig) = m.signature else { return false };
    let mut bytes = m.counter.to_be_bytes().to_vec();
    bytes.extend(sha3(&m.encrypted_data));
    owner.verify(&sig, bytes)
}

pub fn scratchpad_key(owner: u64) -> RecordKey {
    NetworkAddress::ScratchpadAddress(ScratchpadAddress::new(pk(owner))).to_record_key()
}

pub fn scratchpad_record(s: &Scratchpad) -> Record {
    record(
        s.network_address().to_record_key(),
        try_serialize_record(s, RecordKind::Scratchpad).expect("serialise").to_vec(),
    )
}

// ---- transactions --------------------------------------------------------------------------------

/// Transaction number `n` of `owner`; `valid == false` gives one signed by another key.
pub fn transaction(owner: u64, n: u64, valid: bool) -> Transaction {
    let content = h32("vh-fix-tx-content", &[owner, n]);
    let parents = if n % 2 == 0 { vec![] } else { vec![pk(owner + 500)] };
    let outputs = vec![(pk(owner + 600 + n % 3), h32("vh-fix-tx-out", &[n]))];
    let signer = if valid { sk(owner) } else { sk(owner + 1000) };
    Transaction::new(pk(owner), parents, content, outputs, &signer)
}

pub fn transaction_key(owner: u64) -> RecordKey {
    NetworkAddress::from_transaction_address(ant_protocol::storage::TransactionAddress::from_owner(pk(owner))).to_record_key()
}

pub fn transactions_record(key: RecordKey, txs: &Vec<Transaction>) -> Record {
    record(key, try_serialize_record(txs, RecordKind::Transaction).expect("serialise").to_vec())
}

// ---- registers -----------------------------------------------------------------------------------

pub fn register_base(owner: u64, meta: u64, writers: Option<Vec<u64>>) -> Register {
    let perms = match writers {
        None => Permissions::new_anyone_can_write(),
        Some(w) => Permissions::new_with(w.into_iter().map(pk)),
    };
    Register::new(pk(owner), XorName(h32("vh-fix-reg-meta", &[meta])), perms)
}

pub fn register_address(owner: u64, meta: u64) -> RegisterAddress {
    RegisterAddress::new(XorName(h32("vh-fix-reg-meta", &[meta])), pk(owner))
}

/// A pool of `n` chained / concurrent ops on the register, op `j` signed by `signers[j % len]`.
pub fn register_ops(owner: u64, meta: u64, n: usize, signers: &[u64]) -> Vec<RegisterOp> {
    let addr = register_address(owner, meta);
    let mut crdt = RegisterCrdt::new(addr);
    let mut out = vec![];
    let mut prev: BTreeSet<ant_registers::EntryHash> = BTreeSet::new();
    for j in 0..n {
        let entry = pseudo_bytes(owner * 1000 + meta * 100 + j as u64, 8 + j % 5);
        // every third op is concurrent with its predecessor (no children)
        let children = if j % 3 == 2 { BTreeSet::new() } else { prev.clone() };
        let (hash, a, op) = crdt.write(entry, &children).expect("crdt write");
        prev = [hash].into_iter().collect();
        out.push(RegisterOp::new(a, op, &sk(signers[j % signers.len()])));
    }
    out
}

pub fn signed_register(base: &Register, owner_signer: u64, ops: impl IntoIterator<Item = RegisterOp>) -> SignedRegister {
    let sig = sk(owner_signer).sign(base.bytes().expect("register bytes"));
    SignedRegister::new(base.clone(), sig, ops.into_iter().collect())
}

pub fn register_key(owner: u64, meta: u64) -> RecordKey {
    NetworkAddress::from_register_address(register_address(owner, meta)).to_record_key()
}

pub fn register_record(key: RecordKey, r: &SignedRegister) -> Record {
    record(key, try_serialize_record(r, RecordKind::Register).expect("serialise").to_vec())
}
