//! vh-parsers: property C17 — parsers of untrusted text and bytes never crash, and
//! `parse(format(v)) == v` wherever a formatter exists.
//!
//! The library part holds every check so that the cargo-fuzz targets in `/verif/fuzz`
//! (`parsers_*`) drive exactly the same code as the proptest sections (see `fuzz_entry`).

/// `ant-cli` is a binary crate, so its wallet key (de)cryption module cannot be linked; the two
/// source files are compiled unchanged into this crate under the path they expect
/// (`crate::wallet::error`, `crate::wallet::encryption`).
#[allow(dead_code)]
pub mod wallet {
    #[path = "/repo/ant-cli/src/wallet/error.rs"]
    pub mod error;
    #[path = "/repo/ant-cli/src/wallet/encryption.rs"]
    pub mod encryption;
}

pub mod c17;
pub mod cachefile;
pub mod common;
pub mod exhaustive;
pub mod fuzzrun;
pub mod hexaddr;
pub mod maddr;
pub mod ports;
pub mod record;
pub mod registry;
pub mod walletkey;

pub use c17::{fuzz_entry, FUZZ_TARGETS};
