//! C17 — parsers of untrusted text and bytes never crash; parse∘format = id.

use crate::common::{Raw, Text};
use crate::{cachefile, exhaustive, fuzzrun, hexaddr, maddr, ports, record, registry, walletkey};
use vh_core::{Ctx, Failure, Report, RunCfg};

pub const FUZZ_TARGETS: &[&str] = &["parsers_hex", "parsers_text", "parsers_files", "parsers_record"];

/// Byte-driven entry point shared with the cargo-fuzz targets (`/verif/fuzz/fuzz_targets/parsers_*.rs`):
/// runs the same checks as the proptest sections on a case decoded from `data` and returns the
/// failures (panics are caught and classified, so a target can skip known signatures).
pub fn fuzz_entry(target: &str, data: &[u8]) -> Vec<Failure> {
    let mut ctx = Ctx::default();
    let text = |b: &[u8]| String::from_utf8_lossy(b).into_owned();
    match target {
        "parsers_hex" => {
            let s = text(data);
            hexaddr::check_text(&Text { s: s.clone() }, &mut ctx);
            if walletkey::is_cheap(&s) {
                walletkey::check_cheap(&walletkey::Cheap { data: s, password: "pw".into() }, &mut ctx);
            }
        }
        "parsers_text" => {
            let (sel, rest) = data.split_first().map(|(a, b)| (*a, b)).unwrap_or((0, &[][..]));
            match sel % 4 {
                0 => {
                    let (cnt, rest) = if rest.len() >= 2 { (u16::from_le_bytes([rest[0], rest[1]]), &rest[2..]) } else { (1, rest) };
                    let used = if sel & 4 != 0 { vec![(Some(cnt), Some(65535), 0)] } else { vec![] };
                    ports::check(&ports::PortCase { text: text(rest), count: cnt, used }, &mut ctx);
                }
                1 => maddr::check_amount(&maddr::AmountCase::Text(Text { s: text(rest) }), &mut ctx),
                2 => maddr::check(&maddr::MaddrCase::Text { s: text(rest), ignore_peer_id: sel & 4 != 0 }, &mut ctx),
                _ => maddr::check(&maddr::MaddrCase::Binary { bytes: Raw::of(rest), ignore_peer_id: sel & 4 != 0 }, &mut ctx),
            }
        }
        "parsers_files" => {
            let (sel, rest) = data.split_first().map(|(a, b)| (*a, b)).unwrap_or((0, &[][..]));
            if sel & 1 == 0 {
                registry::check(&registry::RegCase::Bytes { content: Raw::of(rest) }, &mut ctx);
            } else {
                let cfg = cachefile::Cfg {
                    max_addrs_per_peer: 1 + (sel >> 1) % 6,
                    max_peers: if sel & 0x10 != 0 { 1500 } else { 1 },
                    expiry: 1,
                };
                cachefile::check(&cachefile::CacheCase::Bytes { content: Raw::of(rest), cfg }, &mut ctx);
            }
        }
        "parsers_record" => record::check(&record::RecCase::Bytes { value: Raw::of(data) }, &mut ctx),
        other => ctx.fail("harness:unknown_fuzz_target", other.to_string()),
    }
    ctx.failures
}

pub fn run(cfg: RunCfg) {
    let mut rep = Report::new(cfg, "exploration");
    rep.rule = "C17: every parser call runs under catch_unwind in a build with overflow-checks on; one \
generator family (empty, 1-3 chars, exact length +-2 around each parser's fixed offsets, very long, odd \
hex length, non-hex, non-UTF-8 via from_utf8_lossy / raw where bytes are taken, boundary numbers \
0/1/65534/65535/65536) per parser; round trips over generated well-formed values. evaluations = cases; \
each case makes several parser calls."
        .into();
    rep.assumptions = vec![
        "oracle = no unwind (slice index, unwrap/expect, arithmetic overflow) + parse(format(v)) == v; accept/reject decisions are not judged except for canonical spellings that a formatter of the tool itself produces".into(),
        "overflow-checks are ON in the harness profile (as in the repository's test profile): an addition that would wrap silently in a shipped release build is reported as a panic".into(),
        "PortRange has no Display; 'p' and 'start-end' (canonical decimals, start < end) are taken as its text form".into(),
        "PortRange::validate / increment_port_option are driven only with values PortRange::parse returned, in the order add_node uses them (start port, one increment after every added node, only after validate accepted the count)".into(),
        "load_cache_data: files carrying fixed old timestamps are read with addr_expiry_duration = 100 years (a public config option) so the verdict does not depend on the wall clock; files written by the real store during the case are also read with the default 24 h".into(),
        "cache round trip tolerates exactly the removals the documented clean-up makes (failures > successes, per-peer / peer-count limits, expiry)".into(),
        "decrypt_private_key: inputs that reach PBKDF2 are limited to the wallet_key_kdf section; encrypt_private_key draws its own salt/nonce from the OS RNG (code under test), the verdict does not depend on them".into(),
        "libp2p's own Multiaddr text form and serde/rmp/serde_json are dependencies: their panics would be reported (they are reachable from the parsers), their accept/reject decisions are not judged".into(),
        "thorough: libFuzzer is run with -seed=(VERIF_SEED mod 2^32 - 1)+1 because libFuzzer treats seed 0 as 'pick a random seed'".into(),
    ];

    let fuzz_replay = rep
        .cfg
        .replay
        .as_ref()
        .and_then(|p| std::fs::read_to_string(p).ok())
        .and_then(|t| serde_json::from_str::<serde_json::Value>(&t).ok())
        .map(|d| d["section"].as_str().unwrap_or("").starts_with("fuzz:"))
        .unwrap_or(false);
    if fuzz_replay {
        fuzzrun::replay_file(&mut rep);
        rep.finish();
    }

    vh_core::section!(
        rep, "hex_text", (60_000, 3_000_000), 16,
        "text -> RegisterAddress::from_hex, ScratchpadAddress::from_hex, str_to_addr, DataMapChunk::from_hex (+ round trip of whatever is accepted). non-trivial: anything but well-formed hex of exactly 32/48/80 bytes (shorter than a fixed offset, odd length, non-hex, non-UTF-8); distinct by string",
        hexaddr::text_strategy, hexaddr::check_text
    );
    vh_core::section!(
        rep, "hex_valid", (4_000, 200_000), 16,
        "generated owner keys / names / data maps: from_hex(to_hex(v)) == v for RegisterAddress (also via Display), ScratchpadAddress, ChunkAddress and TransactionAddress (through str_to_addr), DataMapChunk; every case counts, distinct by value",
        hexaddr::valid_strategy, hexaddr::check_valid
    );
    vh_core::section!(
        rep, "wallet_key_cheap", (60_000, 3_000_000), 16,
        "decrypt_private_key on text that ends before the KDF (undecodable hex or < 20 decoded bytes). non-trivial: decoded length below the salt (8) or salt+nonce (20) offset, empty, odd length; distinct by string",
        walletkey::cheap_strategy, walletkey::check_cheap
    );
    vh_core::section!(
        rep, "wallet_key_kdf", (200, 8_000), 16,
        "inputs that pay for PBKDF2: garbage >= 20 bytes, decrypt(encrypt(k,p),p) == k, other password, truncated stored text, stored text sealed by the harness around arbitrary (also non-UTF-8) plaintext. non-trivial: truncated / non-UTF-8 or empty plaintext / empty or non-ASCII key / garbage up to 38 bytes",
        walletkey::kdf_strategy, walletkey::check_kdf
    );
    vh_core::section!(
        rep, "ports", (60_000, 3_000_000), 16,
        "port argument text x count x recorded ports -> PortRange::parse, validate(count), check_port_availability, start port + one increment_port_option per node. non-trivial: parsed range touches port 0 or 65534/65535; distinct by (text,count)",
        ports::strategy, ports::check
    );
    vh_core::section!(
        rep, "amount", (40_000, 2_000_000), 16,
        "AttoTokens::from_str on the text family and from_str(to_string(v)) == v on 256-bit values. non-trivial: <= 3 chars, >= 60 digits, non-ASCII, several dots, or a generated value",
        maddr::amount_strategy, maddr::check_amount
    );
    vh_core::section!(
        rep, "multiaddr", (60_000, 3_000_000), 16,
        "peer address text (typical shapes, free compositions of protocol segments with boundary ports/ips/peer ids, mutations, garbage) -> craft_valid_multiaddr_from_str; binary multiaddrs -> craft_valid_multiaddr; craft(format(crafted)) == crafted. non-trivial: rejected by the multiaddr grammar, boundary port/ip, dangling segment, non-ASCII, <= 3 chars",
        maddr::strategy, maddr::check
    );
    vh_core::section!(
        rep, "cache_file", (8_000, 400_000), 16,
        "bootstrap cache file contents (raw bytes; harness-rendered on-disk layout with free-text counters/timestamps; files written by the real store with counters edited / cut) x reader limits -> load_cache_data; untouched real file: loaded == written minus documented clean-up. non-trivial: short raw file, peer over the per-peer limit, counters summing above u32::MAX, over peer limit, edited or cut file, non-empty round trip",
        cachefile::strategy, cachefile::check
    );
    vh_core::section!(
        rep, "registry_file", (8_000, 400_000), 16,
        "node registry file contents (raw bytes, JSON fragments, deep nesting; registries written by the real save() with 1-2 scalars replaced by boundary values / wrong types, or cut) -> NodeRegistry::load + from_json (+ to_status_summary); untouched: load(save(r)) == r as JSON. non-trivial: short raw file, edited leaf, cut, non-empty round trip",
        registry::strategy, registry::check
    );
    vh_core::section!(
        rep, "record_bytes", (40_000, 2_000_000), 16,
        "record values (raw around the 2/3-byte header offsets, msgpack-shaped prefixes with oversized length fields, serialised chunk/scratchpad records cut or with a flipped byte) -> RecordHeader::from_record / try_deserialize / is_record_of_type_chunk and try_deserialize_record for all 8 payload types; untouched: header kind and payload round trip. non-trivial: <= 16 bytes, cut or flipped",
        record::strategy, record::check
    );

    exhaustive::run(&mut rep);
    fuzzrun::replay_regressions(&mut rep);
    if rep.tier() == vh_core::Tier::Thorough {
        fuzzrun::campaigns(&mut rep);
    }
    // record files in a node's storage directory are untrusted bytes too; that loader needs the
    // swarm-driver simulator of vh-store and runs there as a child (built by harness/pre-C17.sh)
    let exe = rep.cfg.root.join("harness/target/release/vh-store");
    vh_core::run_child(&mut rep, &exe, "record files of the node store (vh-store child)");
    rep.finish();
}
