//! Small finite sub-spaces enumerated completely (every tier, about a second):
//!  * every u16 as a single port: parse(text) == Single(p), validate(1), the add_node increment;
//!  * every text length 0..=400 (so every decoded length 0..=200, even and odd) in three fills for
//!    the hex address parsers and, below 20 decoded bytes, for `decrypt_private_key`;
//!  * every record value of 0, 1 and 2 bytes, and every 3-byte value starting with 0x91 (the msgpack
//!    marker every serialised header starts with), for the record header / payload parsers.

use crate::common::Text;
use crate::{hexaddr, ports, record, walletkey};
use crate::common::Raw;
use std::time::Instant;
use vh_core::{Ctx, Failure, Report, SectionStats};

pub const NAME: &str = "exhaustive_small";

fn absorb(rep: &mut Report, stats: &mut SectionStats, ctx: Ctx, case: serde_json::Value, section_of_sig: &str) {
    stats.evaluations += 1;
    if ctx.nontrivial {
        stats.nontrivial_hashes.insert(vh_core::stable_hash(&case.to_string()));
    }
    for f in ctx.failures {
        // a known finding of the generated section with the same root cause is the same finding here
        if rep.is_known(section_of_sig, &f.sig) || rep.is_known(NAME, &f.sig) {
            stats.excluded_known += 1;
            rep.known_seen.lock().unwrap().insert(f.sig.clone());
            continue;
        }
        let f: Failure = f;
        if rep.violations.iter().any(|v| v.section == NAME && v.failure.sig == f.sig) {
            continue; // one replay file per signature
        }
        rep.manual_violation(NAME, f, &case);
    }
}

pub fn run(rep: &mut Report) {
    if rep.cfg.replay.is_some() {
        return;
    }
    if let Some(o) = &rep.cfg.only {
        if !NAME.contains(o.as_str()) {
            return;
        }
    }
    let t0 = Instant::now();
    let mut stats = SectionStats {
        name: NAME.into(),
        exhaustive: true,
        rule: "complete enumeration of: all 65536 single ports (parse, validate(1), increment after the node); all text lengths 0..=400 x fills {0,f,a} for the hex parsers (+ decrypt_private_key below 20 bytes); all record values of length 0..=2 and all 3-byte values starting with 0x91 (header marker). non-trivial: every case".into(),
        ..Default::default()
    };
    for p in 0..=u16::MAX {
        let case = ports::PortCase { text: p.to_string(), count: 1, used: vec![] };
        let mut ctx = Ctx::default();
        ports::check(&case, &mut ctx);
        ctx.nontrivial = true;
        absorb(rep, &mut stats, ctx, serde_json::to_value(&case).unwrap(), "ports");
    }
    for len in 0..=400usize {
        for fill in ['0', 'f', 'a'] {
            let s: String = std::iter::repeat(fill).take(len).collect();
            let mut ctx = Ctx::default();
            hexaddr::check_text(&Text { s: s.clone() }, &mut ctx);
            ctx.nontrivial = true;
            absorb(rep, &mut stats, ctx, serde_json::json!({ "s": s }), "hex_text");
            if walletkey::is_cheap(&s) {
                let c = walletkey::Cheap { data: s, password: "pw".into() };
                let mut ctx = Ctx::default();
                walletkey::check_cheap(&c, &mut ctx);
                ctx.nontrivial = true;
                absorb(rep, &mut stats, ctx, serde_json::to_value(&c).unwrap(), "wallet_key_cheap");
            }
        }
    }
    let mut values: Vec<Vec<u8>> = vec![vec![]];
    values.extend((0..=255u8).map(|a| vec![a]));
    values.extend((0..=u16::MAX).map(|x| x.to_be_bytes().to_vec()));
    for a in [0x91u8] {
        values.extend((0..=u16::MAX).map(|x| {
            let b = x.to_be_bytes();
            vec![a, b[0], b[1]]
        }));
    }
    for v in values {
        let case = record::RecCase::Bytes { value: Raw::of(&v) };
        let mut ctx = Ctx::default();
        record::check(&case, &mut ctx);
        ctx.nontrivial = true;
        absorb(rep, &mut stats, ctx, serde_json::to_value(&case).unwrap(), "record_bytes");
    }
    stats.wall_s = t0.elapsed().as_secs_f64();
    rep.add_manual(stats);
}
