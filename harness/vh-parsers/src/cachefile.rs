//! `BootstrapCacheStore::load_cache_data` on arbitrary file contents, and
//! `load(write(store))` = the store's addresses (minus what the documented clean-up removes).

use crate::common::{re, guarded, raw_bytes, Raw};
use crate::registry::peer_id;
use ant_bootstrap::{BootstrapCacheConfig, BootstrapCacheStore};
use libp2p::Multiaddr;
use proptest::prelude::*;
use serde::{Deserialize, Serialize};
use std::collections::BTreeMap;
use std::time::Duration;
use vh_core::Ctx;

/// The reader's configuration (all three are public builder options of `BootstrapCacheConfig`).
#[derive(Clone, Debug, Serialize, Deserialize)]
pub struct Cfg {
    pub max_addrs_per_peer: u8,
    pub max_peers: u16,
    /// 0 = the default 24 h, 1 = 100 years (so files with old, fixed timestamps stay "fresh"
    /// without the harness reading the clock), 2 = zero
    pub expiry: u8,
}

fn cfg() -> BoxedStrategy<Cfg> {
    (
        prop_oneof![3 => Just(6u8), 3 => 1u8..=6, 1 => Just(0u8)],
        prop_oneof![3 => Just(1500u16), 2 => 0u16..4],
        prop_oneof![3 => Just(0u8), 5 => Just(1u8), 1 => Just(2u8), 1 => Just(3u8)],
    )
        .prop_map(|(max_addrs_per_peer, max_peers, expiry)| Cfg { max_addrs_per_peer, max_peers, expiry })
        .boxed()
}

fn reader_cfg(c: &Cfg, path: &std::path::Path) -> BootstrapCacheConfig {
    let cfg = BootstrapCacheConfig::empty()
        .with_cache_path(path)
        .with_addrs_per_peer(c.max_addrs_per_peer as usize)
        .with_max_peers(c.max_peers as usize);
    match c.expiry {
        0 => cfg,
        1 => cfg.with_addr_expiry_duration(Duration::from_secs(100 * 365 * 24 * 3600)),
        2 => cfg.with_addr_expiry_duration(Duration::ZERO),
        // "never expire"
        _ => cfg.with_addr_expiry_duration(Duration::MAX),
    }
}

#[derive(Clone, Debug, Serialize, Deserialize)]
pub struct SynthAddr {
    pub addr: String,
    /// number fields are free JSON text ("4294967295", "-1", "1.5", "null", "\"7\"")
    pub success: String,
    pub failure: String,
    pub secs: String,
    pub nanos: String,
}

#[derive(Clone, Debug, Serialize, Deserialize)]
pub struct SynthPeer {
    pub key: String,
    pub addrs: Vec<SynthAddr>,
}

#[derive(Clone, Debug, Serialize, Deserialize)]
pub struct CounterEdit {
    /// which occurrence of the field in the file (monotone index)
    pub nth: u16,
    /// false: "success_count", true: "failure_count"
    pub failure: bool,
    pub with: String,
}

#[derive(Clone, Debug, Serialize, Deserialize)]
pub enum CacheCase {
    Bytes { content: Raw, cfg: Cfg },
    /// a file in the on-disk layout rendered by the harness (foreign writer / other version)
    Synth { peers: Vec<SynthPeer>, updated_secs: String, version: String, cut: Option<u16>, cfg: Cfg },
    /// a file written by the real store, then (optionally) counters edited / file cut
    Real {
        /// (peer, port, 0 = udp/quic-v1, 1 = tcp, 2 = tcp/ws)
        addrs: Vec<(u8, u16, u8)>,
        /// `update_addr_status(addrs[i], ok)` repeated `times`
        status: Vec<(u16, bool, u8)>,
        edits: Vec<CounterEdit>,
        cut: Option<u16>,
        cfg: Cfg,
    },
}

/// well-formed u32 counters only (so that the whole file still parses)
fn counter_valid() -> BoxedStrategy<String> {
    const C: &[&str] = &["0", "1", "2", "5", "2147483647", "2147483648", "4294967294", "4294967295"];
    prop_oneof![
        8 => (0..C.len()).prop_map(|i| C[i].to_string()),
        2 => any::<u32>().prop_map(|v| v.to_string()),
    ]
    .boxed()
}

fn counter() -> BoxedStrategy<String> {
    const C: &[&str] = &[
        "0", "1", "2", "5", "2147483647", "2147483648", "4294967294", "4294967295", "4294967296",
        "18446744073709551615", "-1", "1.5", "1e9", "null", "\"1\"", "",
    ];
    prop_oneof![
        8 => (0..C.len()).prop_map(|i| C[i].to_string()),
        2 => any::<u32>().prop_map(|v| v.to_string()),
    ]
    .boxed()
}

fn secs() -> BoxedStrategy<String> {
    const S: &[&str] = &[
        "1700000000", "1700000000", "1700000000", "0", "1", "4102444800", "253402300800",
        "9223372036854775807", "9223372036854775808", "18446744073709551615", "18446744073709551616",
        "-1", "1.5", "null",
    ];
    (0..S.len()).prop_map(|i| S[i].to_string()).boxed()
}

fn nanos() -> BoxedStrategy<String> {
    const N: &[&str] = &["0", "0", "0", "999999999", "1000000000", "4294967295", "4294967296", "-1"];
    (0..N.len()).prop_map(|i| N[i].to_string()).boxed()
}

fn addr_text(peer: u8, port: u16, proto: u8, with_p2p: bool) -> String {
    let base = match proto % 3 {
        0 => format!("/ip4/10.0.{}.{}/udp/{port}/quic-v1", peer, port % 250),
        1 => format!("/ip4/10.0.{}.{}/tcp/{port}", peer, port % 250),
        _ => format!("/ip4/10.0.{}.{}/tcp/{port}/ws", peer, port % 250),
    };
    if with_p2p {
        format!("{base}/p2p/{}", peer_id(peer))
    } else {
        base
    }
}

fn synth_peer(strict: bool) -> BoxedStrategy<SynthPeer> {
    let (cnt, sec, nan) = if strict {
        (
            counter_valid(),
            // every one of these is a value serde turns into a SystemTime: the usual ones, the epoch, far
            // futures and the last representable seconds (i64::MAX and the day / the century before it)
            prop_oneof![
                6 => Just("1700000000".to_string()),
                1 => Just("0".to_string()),
                1 => Just("4102444800".to_string()),
                1 => Just("253402300800".to_string()),
                1 => Just("9223372036854775807".to_string()),
                1 => Just("9223372036854775806".to_string()),
                1 => Just("9223372036854689407".to_string()),
                1 => Just("9223372036854689408".to_string()),
                1 => Just("9223372033701175807".to_string()),
            ].boxed(),
            prop_oneof![3 => Just("0".to_string()), 1 => Just("999999999".to_string())].boxed(),
        )
    } else {
        (counter(), secs(), nanos())
    };
    let addr = (0u8..4, prop_oneof![Just(0u16), Just(65535), 1u16..2000], 0u8..3, 0u8..10).prop_map(move |(p, port, proto, odd)| match if strict && (1..=3).contains(&odd) { 9 } else { odd } {
        0 => addr_text(p, port, proto, false),
        1 => String::new(),
        2 => "/dns/example.com/udp/1/quic-v1".to_string(),
        3 => format!("/ip4/10.0.0.1/udp/{}/quic-v1", port as u32 + 65000),
        _ => addr_text(p, port, proto, true),
    });
    let a = (addr, cnt.clone(), cnt, sec, nan).prop_map(|(addr, success, failure, secs, nanos)| SynthAddr {
        addr,
        success,
        failure,
        secs,
        nanos,
    });
    (
        if strict {
            (0u8..4).prop_map(|i| peer_id(i).to_string()).boxed()
        } else {
            prop_oneof![8 => (0u8..4).prop_map(|i| peer_id(i).to_string()), 1 => Just(String::new()), 1 => Just("12D3KooW".to_string())].boxed()
        },
        proptest::collection::vec(a, 0..9),
    )
        .prop_map(|(key, addrs)| SynthPeer { key, addrs })
        .boxed()
}

pub fn strategy() -> BoxedStrategy<CacheCase> {
    let bytes = (
        prop_oneof![
            3 => raw_bytes(&[1, 2]),
            2 => prop_oneof![
                Just("{}"), Just("[]"), Just("null"), Just("{\"peers\":{}}"), Just("{\"peers\":[]}"), Just("\"\""), Just("{"),
                Just("{\"peers\":{},\"last_updated\":{\"secs_since_epoch\":0,\"nanos_since_epoch\":0},\"network_version\":\"\"}"),
                Just("{\"peers\":{\"x\":[]},\"last_updated\":{\"secs_since_epoch\":0,\"nanos_since_epoch\":0},\"network_version\":\"\"}"),
                Just("{\"peers\":{},\"last_updated\":{\"secs_since_epoch\":18446744073709551615,\"nanos_since_epoch\":4294967295},\"network_version\":\"\"}"),
            ].prop_map(|s| s.as_bytes().to_vec()),
            1 => (1usize..3000).prop_map(|n| format!("{{\"peers\":{}", "[".repeat(n)).into_bytes()),
        ],
        cfg(),
    )
        .prop_map(|(b, cfg)| CacheCase::Bytes { content: Raw::of(&b), cfg });
    let synth = (
        prop_oneof![
            3 => proptest::collection::vec(synth_peer(true), 0..4),
            2 => proptest::collection::vec(synth_peer(false), 0..4),
        ],
        secs(),
        prop_oneof![Just(String::new()), Just("1_1.0".to_string()), re("\\PC{0,6}")],
        proptest::option::weighted(0.15, any::<u16>()),
        cfg(),
    )
        .prop_map(|(peers, updated_secs, version, cut, cfg)| CacheCase::Synth { peers, updated_secs, version, cut, cfg });
    let edit = (any::<u16>(), any::<bool>(), counter()).prop_map(|(nth, failure, with)| CounterEdit { nth, failure, with });
    let real = (
        proptest::collection::vec((0u8..3, prop_oneof![Just(0u16), Just(65535), 1u16..12], 0u8..3), 0..12),
        proptest::collection::vec((any::<u16>(), any::<bool>(), 1u8..4), 0..6),
        prop_oneof![2 => Just(vec![]), 5 => proptest::collection::vec(edit, 1..4)],
        proptest::option::weighted(0.15, any::<u16>()),
        cfg(),
    )
        .prop_map(|(addrs, status, edits, cut, cfg)| CacheCase::Real { addrs, status, edits, cut, cfg });
    prop_oneof![2 => bytes, 5 => synth, 5 => real].boxed()
}

fn render(peers: &[SynthPeer], updated_secs: &str, version: &str) -> String {
    let q = |s: &str| serde_json::to_string(s).expect("json string");
    let mut out = String::from("{\"peers\":{");
    for (i, p) in peers.iter().enumerate() {
        if i > 0 {
            out.push(',');
        }
        out.push_str(&q(&p.key));
        out.push_str(":[");
        for (j, a) in p.addrs.iter().enumerate() {
            if j > 0 {
                out.push(',');
            }
            out.push_str(&format!(
                "{{\"addr\":{},\"success_count\":{},\"failure_count\":{},\"last_seen\":{{\"secs_since_epoch\":{},\"nanos_since_epoch\":{}}}}}",
                q(&a.addr), a.success, a.failure, a.secs, a.nanos
            ));
        }
        out.push(']');
    }
    out.push_str(&format!(
        "}},\"last_updated\":{{\"secs_since_epoch\":{updated_secs},\"nanos_since_epoch\":0}},\"network_version\":{}}}",
        q(version)
    ));
    out
}

fn cut_text(s: String, cut: Option<u16>, ctx: &mut Ctx) -> String {
    match cut {
        None => s,
        Some(k) => {
            ctx.label("truncated");
            ctx.nontrivial();
            let chars: Vec<char> = s.chars().collect();
            chars[..vh_core::pick_idx(k, chars.len() + 1)].iter().collect()
        }
    }
}

/// replace the number after the `nth` occurrence of `"<field>": `
fn edit_counter(text: &str, e: &CounterEdit) -> String {
    let field = if e.failure { "\"failure_count\":" } else { "\"success_count\":" };
    let hits: Vec<usize> = text.match_indices(field).map(|(i, _)| i).collect();
    if hits.is_empty() {
        return text.to_string();
    }
    let at = hits[vh_core::pick_idx(e.nth, hits.len())] + field.len();
    let rest = &text[at..];
    let ws = rest.len() - rest.trim_start().len();
    let num_len = rest[ws..].find(|c: char| !(c.is_ascii_digit())).unwrap_or(rest.len() - ws);
    format!("{}{}{}", &text[..at + ws], e.with, &text[at + ws + num_len..])
}

type Entry = (String, u32, u32);

fn loaded_entries<'a>(peers: impl Iterator<Item = &'a ant_bootstrap::BootstrapAddresses>) -> Vec<Entry> {
    let mut v: Vec<Entry> = peers
        .flat_map(|a| a.0.iter())
        .map(|a| (a.addr.to_string(), a.success_count, a.failure_count))
        .collect();
    v.sort();
    v
}

pub fn check(c: &CacheCase, ctx: &mut Ctx) {
    let dir = tempfile::tempdir().expect("tempdir");
    let path = dir.path().join("bootstrap_cache.json");
    match c {
        CacheCase::Bytes { content, cfg } => {
            let b = content.bytes();
            ctx.label(if b.is_empty() { "bytes_empty" } else if std::str::from_utf8(&b).is_err() { "bytes_non_utf8" } else { "bytes_utf8" });
            ctx.nontrivial_if(b.len() < 64);
            ctx.canon = Some(content.hex.clone());
            ctx.sample = Some(serde_json::json!({ "file": String::from_utf8_lossy(&b), "cfg": cfg }));
            std::fs::write(&path, &b).expect("write");
            let rc = reader_cfg(cfg, &path);
            if let Some(r) = guarded(ctx, "load_cache_data", || BootstrapCacheStore::load_cache_data(&rc)) {
                ctx.label(if r.is_ok() { "load_ok" } else { "load_err" });
            }
        }
        CacheCase::Synth { peers, updated_secs, version, cut, cfg } => {
            let text = render(peers, updated_secs, version);
            let over = peers.iter().any(|p| p.addrs.len() > cfg.max_addrs_per_peer as usize);
            let big = peers.iter().flat_map(|p| p.addrs.iter()).any(|a| {
                let n = |s: &str| s.parse::<u64>().unwrap_or(0);
                n(&a.success).saturating_add(n(&a.failure)) > u32::MAX as u64
            });
            ctx.label_if(over, "peer_over_addr_limit");
            ctx.label_if(big, "counters_sum_above_u32_max");
            ctx.label_if(over && big, "over_limit_and_big_counters");
            ctx.label_if(peers.len() > cfg.max_peers as usize, "over_peer_limit");
            ctx.nontrivial_if(over || big || peers.len() > cfg.max_peers as usize);
            let text = cut_text(text, *cut, ctx);
            ctx.sample = Some(serde_json::json!({ "file": text, "cfg": cfg }));
            std::fs::write(&path, text.as_bytes()).expect("write");
            let rc = reader_cfg(cfg, &path);
            if let Some(r) = guarded(ctx, "load_cache_data", || BootstrapCacheStore::load_cache_data(&rc)) {
                ctx.label(if r.is_ok() { "load_ok" } else { "load_err" });
                if let Ok(data) = r {
                    let n: usize = data.peers.values().map(|a| a.0.len()).sum();
                    ctx.label_if(n > 0, "load_kept_addrs");
                }
            }
        }
        CacheCase::Real { addrs, status, edits, cut, cfg } => {
            // the writer: the real store with roomy limits so that nothing is dropped while writing
            let wcfg = BootstrapCacheConfig::empty()
                .with_cache_path(&path)
                .with_addrs_per_peer(64)
                .with_max_peers(1500);
            let Some(Ok(mut store)) = guarded(ctx, "BootstrapCacheStore::new", || BootstrapCacheStore::new(wcfg)) else {
                return;
            };
            let maddrs: Vec<Multiaddr> = addrs
                .iter()
                .map(|(p, port, proto)| addr_text(*p, *port, *proto, true).parse().expect("multiaddr"))
                .collect();
            for m in &maddrs {
                guarded(ctx, "BootstrapCacheStore::add_addr", || store.add_addr(m.clone()));
            }
            for (i, ok, times) in status {
                if maddrs.is_empty() {
                    break;
                }
                let m = &maddrs[vh_core::pick_idx(*i, maddrs.len())];
                for _ in 0..*times {
                    guarded(ctx, "BootstrapCacheStore::update_addr_status", || store.update_addr_status(m, *ok));
                }
            }
            let mut written: Vec<Entry> = store
                .get_all_addrs()
                .map(|a| (a.addr.to_string(), a.success_count, a.failure_count))
                .collect();
            written.sort();
            match guarded(ctx, "BootstrapCacheStore::write", || store.write()) {
                Some(Ok(())) => {}
                Some(Err(e)) => {
                    ctx.fail("roundtrip:cache_write_failed", format!("{e}"));
                    return;
                }
                None => return,
            }
            let text = std::fs::read_to_string(&path).expect("read back");
            let intact = edits.is_empty() && cut.is_none();
            let mut edited = text.clone();
            for e in edits {
                edited = edit_counter(&edited, e);
            }
            ctx.label_if(!edits.is_empty() && edited != text, "counters_edited");
            ctx.nontrivial_if(edited != text);
            let edited = cut_text(edited, *cut, ctx);
            if !intact {
                std::fs::write(&path, edited.as_bytes()).expect("write");
            }
            // per-peer address counts in the file (harness view, labels only)
            let mut per_peer: BTreeMap<u8, usize> = BTreeMap::new();
            let mut seen = std::collections::BTreeSet::new();
            for a in addrs {
                if seen.insert(*a) {
                    *per_peer.entry(a.0).or_default() += 1;
                }
            }
            let over = per_peer.values().any(|n| *n > cfg.max_addrs_per_peer as usize);
            ctx.label_if(over, "peer_over_addr_limit");
            ctx.label_if(over && edited != text, "over_limit_and_counters_edited");
            ctx.sample = Some(serde_json::json!({ "addrs": addrs.len(), "edits": edits, "cut": cut, "cfg": cfg }));
            let rc = reader_cfg(cfg, &path);
            let Some(r) = guarded(ctx, "load_cache_data", || BootstrapCacheStore::load_cache_data(&rc)) else {
                return;
            };
            ctx.label(if r.is_ok() { "load_ok" } else { "load_err" });
            if !intact {
                return;
            }
            // ---- round trip of an untouched file ----
            ctx.label("roundtrip");
            ctx.nontrivial_if(!written.is_empty());
            let data = match r {
                Ok(d) => d,
                Err(e) => {
                    ctx.fail("roundtrip:cache_rejected", format!("file written by the store was rejected: {e}; file: {text}"));
                    return;
                }
            };
            let loaded = loaded_entries(data.peers.values());
            // nothing invented, nothing altered
            for l in &loaded {
                if !written.contains(l) {
                    ctx.fail("roundtrip:cache_entry_not_written", format!("loaded {l:?}, written {written:?}"));
                }
            }
            // everything that the documented clean-up has no reason to drop comes back:
            // reliable (successes >= failures), fresh (just written; expiry != zero), and no
            // per-peer / peer-count limit exceeded
            let limits_ok = !over && per_peer.len() <= cfg.max_peers as usize && cfg.expiry != 2;
            if limits_ok {
                for w in written.iter().filter(|w| w.1 >= w.2) {
                    if !loaded.contains(w) {
                        ctx.fail("roundtrip:cache_entry_lost", format!("written {w:?} missing after load; loaded {loaded:?}"));
                    }
                }
            }
        }
    }
}
