//! Shared pieces: panic classification (root-cause specific signatures) and the one generator family
//! used for every parser (empty, 1–3 chars, exact-length ±2 around fixed offsets, very long, odd hex
//! length, non-hex, non-UTF-8 through `from_utf8_lossy`, boundary numbers).

use proptest::prelude::*;
use serde::{Deserialize, Serialize};
use vh_core::Ctx;

// ------------------------------------------------------------------------------------------------
// panic classification
// ------------------------------------------------------------------------------------------------

/// `"<file>:<line>: <message>"` (format of `vh_core::catch_panic`) → (`file`, `message`)
fn split_panic(msg: &str) -> (String, String) {
    let (loc, message) = match msg.split_once(": ") {
        Some((l, m)) => (l, m),
        None => (msg, ""),
    };
    let file = loc.rsplitn(2, ':').last().unwrap_or(loc);
    // make the file stable across checkouts / scratch worktrees / registry hashes
    let file = if let Some(i) = file.find("/registry/src/") {
        let rest = &file[i + "/registry/src/".len()..];
        rest.split_once('/').map(|(_, r)| r).unwrap_or(rest)
    } else if let Some(i) = file.find("/rustc/") {
        let rest = &file[i + "/rustc/".len()..];
        rest.split_once('/').map(|(_, r)| r).unwrap_or(rest)
    } else {
        let mut f = file;
        for marker in [
            "/ant-registers/",
            "/ant-protocol/",
            "/autonomi/",
            "/ant-cli/",
            "/ant-node-manager/",
            "/ant-evm/",
            "/evmlib/",
            "/ant-bootstrap/",
            "/ant-service-management/",
            "/ant-networking/",
            "/ant-logging/",
        ] {
            if let Some(i) = file.find(marker) {
                f = &file[i + 1..];
                break;
            }
        }
        f
    };
    (file.to_string(), message.to_string())
}

/// Root-cause class of a panic message.
fn panic_class(message: &str) -> String {
    let m = message;
    if m.contains("out of range for slice")
        || m.contains("index out of bounds")
        || m.contains("slice index starts at")
        || m.contains("out of range for `")
    {
        "slice_index".into()
    } else if m.contains("is not a char boundary") || m.contains("byte index") {
        "char_boundary".into()
    } else if m.contains("divide by zero") || m.contains("remainder with a divisor of zero") {
        "div_by_zero".into()
    } else if m.starts_with("attempt to ") && m.contains("overflow") {
        "arith_overflow".into()
    } else if m.contains("called `Option::unwrap()` on a `None` value") {
        "unwrap_none".into()
    } else if m.contains("called `Result::unwrap()` on an `Err` value") {
        "unwrap_err".into()
    } else if m.contains("capacity overflow") || m.contains("memory allocation") {
        "alloc".into()
    } else {
        let head = m.split(':').next().unwrap_or(m);
        let s: String = head
            .chars()
            .take(40)
            .map(|c| if c.is_ascii_alphanumeric() { c.to_ascii_lowercase() } else { '_' })
            .collect();
        format!("msg_{}", s.trim_matches('_'))
    }
}

/// Signature of a panic inside parser `parser`: `panic:<parser>/<class>@<file>`.
pub fn panic_sig(parser: &str, msg: &str) -> String {
    let (file, message) = split_panic(msg);
    format!("panic:{parser}/{}@{file}", panic_class(&message))
}

/// Run `f` (one call into the code under test); any unwind is a violation whose signature names the
/// parser, the class of panic and the source file that raised it.
pub fn guarded<R>(ctx: &mut Ctx, parser: &str, f: impl FnOnce() -> R) -> Option<R> {
    match vh_core::catch_panic(f) {
        Ok(r) => Some(r),
        Err(msg) => {
            ctx.fail(panic_sig(parser, &msg), msg);
            None
        }
    }
}

// ------------------------------------------------------------------------------------------------
// case types
// ------------------------------------------------------------------------------------------------

/// Text handed to an API that takes `&str`. Non-UTF-8 byte strings were passed through
/// `String::from_utf8_lossy` by the generator (as a caller holding bytes would have to).
#[derive(Clone, Debug, Serialize, Deserialize)]
pub struct Text {
    pub s: String,
}

/// Raw bytes handed to an API that takes bytes (file contents, record values); hex in replay files.
#[derive(Clone, Debug, Serialize, Deserialize)]
pub struct Raw {
    pub hex: String,
}
impl Raw {
    pub fn of(b: &[u8]) -> Raw {
        Raw { hex: hex::encode(b) }
    }
    pub fn bytes(&self) -> Vec<u8> {
        hex::decode(&self.hex).unwrap_or_default()
    }
}

// ------------------------------------------------------------------------------------------------
// generator family
// ------------------------------------------------------------------------------------------------

fn fill(len: usize, kind: u8, seed: Vec<u8>) -> Vec<u8> {
    match kind {
        0 => vec![0u8; len],
        1 => vec![0xffu8; len],
        2 => (0..len).map(|i| b'a' + (i % 26) as u8).collect(),
        _ => (0..len)
            .map(|i| {
                let s = seed[i % seed.len().max(1)];
                s.wrapping_mul(31).wrapping_add((i / seed.len().max(1)) as u8 ^ (i as u8).rotate_left(3))
            })
            .collect(),
    }
}

/// Byte strings biased to the boundary classes of a parser with fixed offsets `offsets`
/// (decoded-byte positions where the parser slices / expects an exact length).
pub fn raw_bytes(offsets: &'static [usize]) -> BoxedStrategy<Vec<u8>> {
    let seed = || proptest::collection::vec(any::<u8>(), 8..40);
    let around = if offsets.is_empty() {
        Just(Vec::<u8>::new()).boxed()
    } else {
        (0..offsets.len(), -2i64..=2, 0u8..6, seed())
            .prop_map(move |(i, d, k, s)| {
                let len = (offsets[i] as i64 + d).max(0) as usize;
                fill(len, k, s)
            })
            .boxed()
    };
    let max_off = offsets.iter().copied().max().unwrap_or(0);
    prop_oneof![
        2 => Just(Vec::<u8>::new()),
        4 => proptest::collection::vec(any::<u8>(), 1..=3),
        12 => around,
        // anywhere below / just above the largest offset
        5 => (0..=max_off + 8, 0u8..6, seed()).prop_map(|(l, k, s)| fill(l, k, s)),
        4 => proptest::collection::vec(any::<u8>(), 0..80),
        // very long
        1 => (1usize..=16, 0usize..3, 0u8..6, seed()).prop_map(|(k, d, f, s)| fill(k * 4096 + d, f, s)),
    ]
    .boxed()
}

const JUNK: &[&str] = &[
    "g", "z", "G", "x", " ", "\n", "\t", "\0", "-", "+", "_", ".", ",", "/", ":", "é", "٣", "０",
    "\u{FFFD}", "0x", "😀", "%", "\"", "\\",
];

pub fn junk() -> BoxedStrategy<&'static str> {
    (0..JUNK.len()).prop_map(|i| JUNK[i]).boxed()
}

/// Character-level mutations of a base string (positions are char positions, never byte offsets).
pub fn mutate_text(base: BoxedStrategy<String>) -> BoxedStrategy<String> {
    (base, 0u8..14, any::<u16>(), junk(), 0u8..16)
        .prop_map(|(s, mode, pos, j, hexd)| {
            let chars: Vec<char> = s.chars().collect();
            let at = vh_core::pick_idx(pos, chars.len() + 1);
            let hexc = char::from_digit(hexd as u32, 16).unwrap();
            let rebuild = |a: &[char], mid: &str, b: &[char]| {
                let mut o: String = a.iter().collect();
                o.push_str(mid);
                o.extend(b.iter());
                o
            };
            match mode {
                // unchanged
                0..=2 => s,
                // odd length: drop the last char / append one hex digit
                3 => chars[..chars.len().saturating_sub(1)].iter().collect(),
                4 => format!("{s}{hexc}"),
                // truncate / cut out the tail at an arbitrary position
                5 => chars[..at].iter().collect(),
                // non-hex / foreign character inserted or substituted
                6 => rebuild(&chars[..at], j, &chars[at..]),
                7 => {
                    let b = (at + 1).min(chars.len());
                    rebuild(&chars[..at], j, &chars[b..])
                }
                // wrappers a user or a file may add
                8 => format!("0x{s}"),
                9 => format!("{s}\n"),
                10 => format!(" {s} "),
                11 => s.to_uppercase(),
                // doubled
                12 => format!("{s}{s}"),
                _ => format!("{j}{s}"),
            }
        })
        .boxed()
}

/// Hex-looking text whose *decoded* length sits around `offsets`, plus the rest of the family.
pub fn hex_text(offsets: &'static [usize], valid_bases: Option<BoxedStrategy<String>>) -> BoxedStrategy<Text> {
    let cased = (raw_bytes(offsets), 0u8..4, any::<u64>()).prop_map(|(b, mode, mask)| {
        let h = hex::encode(b);
        match mode {
            0 | 1 => h,
            2 => h.to_uppercase(),
            _ => h
                .chars()
                .enumerate()
                .map(|(i, c)| if (mask >> (i % 64)) & 1 == 1 { c.to_ascii_uppercase() } else { c })
                .collect(),
        }
    });
    let hexish = mutate_text(cased.boxed());
    let non_utf8 = raw_bytes(offsets).prop_map(|b| String::from_utf8_lossy(&b).into_owned());
    let printable = prop_oneof![re("[ -~]{0,12}"), re("[0-9a-fA-F]{0,8}"), re("\\PC{0,8}")];
    let valid = match valid_bases {
        Some(v) => mutate_text(v),
        None => mutate_text(re("[0-9a-f]{0,6}")),
    };
    prop_oneof![
        10 => hexish,
        5 => valid,
        3 => non_utf8,
        2 => printable,
    ]
    .prop_map(|s| Text { s })
    .boxed()
}

/// Decimal renderings of boundary numbers (u16 / u32 / u64 edges), plus a few spellings that integer
/// parsers treat differently.
pub fn boundary_number() -> BoxedStrategy<String> {
    const EDGE: &[&str] = &[
        "0", "1", "2", "79", "80", "1023", "1024", "32767", "32768", "65534", "65535", "65536", "65537",
        "99999", "4294967295", "4294967296", "18446744073709551615", "18446744073709551616", "-1", "-0",
        "+1", "+65535", "00000", "00080", "065535", "0065536", "1e3", "0x50", "٨٠", "",
    ];
    prop_oneof![
        6 => (0..EDGE.len()).prop_map(|i| EDGE[i].to_string()),
        3 => any::<u16>().prop_map(|v| v.to_string()),
        1 => (65530u32..65545).prop_map(|v| v.to_string()),
        1 => (0u32..12).prop_map(|v| v.to_string()),
    ]
    .boxed()
}

/// Length class of a hex string relative to decoded-byte `offsets` (harness's own view, labels only).
pub fn hex_class(s: &str, offsets: &[usize]) -> String {
    if s.is_empty() {
        return "empty".into();
    }
    if !s.is_ascii() {
        return "non_ascii".into();
    }
    if !s.bytes().all(|b| b.is_ascii_hexdigit()) {
        return "non_hex_char".into();
    }
    if s.len() % 2 == 1 {
        return "odd_hex_length".into();
    }
    let n = s.len() / 2;
    let mut prev = 0usize;
    for &o in offsets {
        if n < o {
            return format!("decoded_len_in_[{prev},{o})");
        }
        if n == o {
            return format!("decoded_len_eq_{o}");
        }
        prev = o + 1;
    }
    format!("decoded_len_ge_{prev}")
}

/// A regex string strategy compiled once (a bare `&str` strategy re-parses its regex for every
/// generated case, which costs milliseconds for Unicode classes).
pub fn re(pattern: &str) -> BoxedStrategy<String> {
    proptest::string::string_regex(pattern).expect("regex").boxed()
}
