//! `RecordHeader::from_record` / `try_deserialize` / `is_record_of_type_chunk` and
//! `try_deserialize_record::<T>` (for every payload type the node and client ask for) on arbitrary
//! record bytes; header and chunk payload round trip through `try_serialize_record`.

use crate::common::{guarded, raw_bytes, Raw};
use crate::hexaddr::secret_key;
use ant_evm::ProofOfPayment;
use ant_protocol::storage::{
    try_deserialize_record, try_serialize_record, Chunk, RecordHeader, RecordKind, Scratchpad, Transaction,
};
use ant_registers::{Permissions, Register, SignedRegister};
use bytes::Bytes;
use libp2p::kad::{Record, RecordKey};
use proptest::prelude::*;
use serde::{Deserialize, Serialize};
use vh_core::Ctx;

#[derive(Clone, Debug, Serialize, Deserialize)]
pub enum RecCase {
    /// arbitrary record value
    Bytes { value: Raw },
    /// a well-formed record (header `kind` 0..8; `payload_type` 0 chunk, 1 scratchpad, 2 signed
    /// register, 3 transactions, 4 (empty proof of payment, chunk)), then cut / corrupted
    Built { kind: u8, payload_type: u8, payload: Raw, key_seed: u64, cut: Option<u16>, flip: Option<(u16, u8)> },
}

const KINDS: [RecordKind; 8] = [
    RecordKind::Chunk,
    RecordKind::ChunkWithPayment,
    RecordKind::Transaction,
    RecordKind::TransactionWithPayment,
    RecordKind::Register,
    RecordKind::RegisterWithPayment,
    RecordKind::Scratchpad,
    RecordKind::ScratchpadWithPayment,
];

pub fn strategy() -> BoxedStrategy<RecCase> {
    // header is 2 bytes, from_record looks at 3
    let bytes = prop_oneof![
        4 => raw_bytes(&[2, 3, 4]),
        // msgpack-looking prefixes: fixarray(1) + small / u8 / u16 / u32 / u64 / wrong-type kinds
        4 => (
            prop_oneof![Just(vec![0x91u8]), Just(vec![0x92]), Just(vec![0x90]), Just(vec![0x81]), Just(vec![0xdc, 0x00, 0x01]), Just(vec![])],
            prop_oneof![
                (0u8..=0x7f).prop_map(|k| vec![k]),
                any::<u8>().prop_map(|k| vec![0xcc, k]),
                any::<u16>().prop_map(|k| { let mut v = vec![0xcd]; v.extend(k.to_be_bytes()); v }),
                any::<u32>().prop_map(|k| { let mut v = vec![0xce]; v.extend(k.to_be_bytes()); v }),
                any::<u64>().prop_map(|k| { let mut v = vec![0xcf]; v.extend(k.to_be_bytes()); v }),
                Just(vec![0xc0]), Just(vec![0xff]), Just(vec![0xa1, b'x']), Just(vec![0xd0, 0x80]),
            ],
            // payload: length-prefixed containers that promise more than there is
            prop_oneof![
                Just(vec![]),
                Just(vec![0xc6, 0xff, 0xff, 0xff, 0xff]),
                Just(vec![0xdd, 0xff, 0xff, 0xff, 0xff]),
                Just(vec![0xdf, 0xff, 0xff, 0xff, 0xff]),
                Just(vec![0xdb, 0xff, 0xff, 0xff, 0xff]),
                Just(vec![0xc4, 0x05, 1, 2]),
                (1usize..2000).prop_map(|n| vec![0x91; n]),
                proptest::collection::vec(any::<u8>(), 0..64),
            ],
        ).prop_map(|(a, b, c)| [a, b, c].concat()),
    ]
    .prop_map(|b| RecCase::Bytes { value: Raw::of(&b) });
    let built = (
        0u8..8,
        0u8..5,
        prop_oneof![Just(vec![]), proptest::collection::vec(any::<u8>(), 0..120)],
        0u64..16,
        proptest::option::weighted(0.4, any::<u16>()),
        proptest::option::weighted(0.4, (any::<u16>(), any::<u8>())),
    )
        .prop_map(|(kind, payload_type, p, key_seed, cut, flip)| RecCase::Built { kind, payload_type, payload: Raw::of(&p), key_seed, cut, flip });
    prop_oneof![1 => bytes, 1 => built].boxed()
}

fn parse_all(value: Vec<u8>, ctx: &mut Ctx) {
    let record = Record {
        key: RecordKey::new(&[7u8; 32]),
        value,
        publisher: None,
        expires: None,
    };
    let r = &record;
    if let Some(h) = guarded(ctx, "RecordHeader::from_record", || RecordHeader::from_record(r)) {
        ctx.label(match &h {
            Ok(_) => "header_ok",
            Err(_) => "header_err",
        });
    }
    guarded(ctx, "RecordHeader::try_deserialize", || RecordHeader::try_deserialize(&r.value).is_ok());
    guarded(ctx, "RecordHeader::is_record_of_type_chunk", || RecordHeader::is_record_of_type_chunk(r).is_ok());
    if let Some(Ok(c)) = guarded(ctx, "try_deserialize_record<Chunk>", || try_deserialize_record::<Chunk>(r)) {
        ctx.label("payload_parses_as_chunk");
        guarded(ctx, "Chunk::accessors", || (c.payload_size(), *c.name(), c.serialised_size()));
    }
    if let Some(Ok(s)) = guarded(ctx, "try_deserialize_record<Scratchpad>", || try_deserialize_record::<Scratchpad>(r)) {
        ctx.label("payload_parses_as_scratchpad");
        guarded(ctx, "Scratchpad::is_valid", || (s.is_valid(), s.name(), s.payload_size()));
    }
    if let Some(Ok(s)) = guarded(ctx, "try_deserialize_record<SignedRegister>", || try_deserialize_record::<SignedRegister>(r)) {
        ctx.label("payload_parses_as_register");
        guarded(ctx, "SignedRegister::verify", || s.verify().is_ok());
    }
    if let Some(Ok(t)) = guarded(ctx, "try_deserialize_record<Vec<Transaction>>", || try_deserialize_record::<Vec<Transaction>>(r)) {
        ctx.label("payload_parses_as_transactions");
        guarded(ctx, "Transaction::verify", || t.iter().map(|t| t.verify()).filter(|b| *b).count());
    }
    guarded(ctx, "try_deserialize_record<(ProofOfPayment,Chunk)>", || try_deserialize_record::<(ProofOfPayment, Chunk)>(r).is_ok());
    guarded(ctx, "try_deserialize_record<(ProofOfPayment,Scratchpad)>", || try_deserialize_record::<(ProofOfPayment, Scratchpad)>(r).is_ok());
    guarded(ctx, "try_deserialize_record<(ProofOfPayment,SignedRegister)>", || try_deserialize_record::<(ProofOfPayment, SignedRegister)>(r).is_ok());
    guarded(ctx, "try_deserialize_record<(ProofOfPayment,Transaction)>", || try_deserialize_record::<(ProofOfPayment, Transaction)>(r).is_ok());
}

pub fn check(c: &RecCase, ctx: &mut Ctx) {
    match c {
        RecCase::Bytes { value } => {
            let b = value.bytes();
            ctx.label(match b.len() {
                0 => "len_0",
                1 => "len_1",
                2 => "len_2_header_only",
                3 => "len_3",
                4..=16 => "len_4_16",
                _ => "len_over_16",
            });
            ctx.nontrivial_if(b.len() <= 16);
            ctx.canon = Some(value.hex.clone());
            ctx.sample = Some(serde_json::json!({ "record_value_hex": value.hex }));
            parse_all(b, ctx);
        }
        RecCase::Built { kind, payload_type, payload, key_seed, cut, flip } => {
            let kind = KINDS[(*kind % 8) as usize];
            let payload = payload.bytes();
            let sk = secret_key(*key_seed);
            let pk = sk.public_key();
            let chunk = Chunk::new(Bytes::from(payload.clone()));
            // unsigned, empty scratchpad: `update_and_sign` encrypts with the OS RNG, which would
            // make the record bytes (and so the cut/flip cases) differ from run to run
            let sp = Scratchpad::new(pk, payload.len() as u64);
            let mut meta = [0u8; 32];
            for (i, b) in payload.iter().take(32).enumerate() {
                meta[i] = *b;
            }
            let ptype = *payload_type % 5;
            // BLS signing costs ~1 ms: only for the payload type of this case
            let reg = (ptype == 2).then(|| {
                let writers = (0..payload.len() % 3).map(|i| secret_key(*key_seed + 100 + i as u64).public_key());
                let r = Register::new(pk, xor_name::XorName(meta), Permissions::new_with(writers));
                let sig = sk.sign(r.bytes().unwrap_or_default());
                SignedRegister::new(r, sig, Default::default())
            });
            let txs: Vec<Transaction> = (0..if ptype == 3 { payload.len() % 3 } else { 0 })
                .map(|i| Transaction::new(pk, vec![secret_key(i as u64).public_key()], meta, vec![(pk, meta)], &sk))
                .collect();
            let paid = (ProofOfPayment { peer_quotes: vec![] }, chunk.clone());
            let bytes = guarded(ctx, "try_serialize_record", || match ptype {
                0 => try_serialize_record(&chunk, kind),
                1 => try_serialize_record(&sp, kind),
                2 => try_serialize_record(reg.as_ref().expect("built"), kind),
                3 => try_serialize_record(&txs, kind),
                _ => try_serialize_record(&paid, kind),
            });
            let bytes = match bytes {
                Some(Ok(b)) => b.to_vec(),
                Some(Err(e)) => {
                    ctx.fail("roundtrip:try_serialize_record_failed", format!("{e:?}"));
                    return;
                }
                None => return,
            };
            ctx.label(["built_chunk", "built_scratchpad", "built_register", "built_transactions", "built_paid_chunk"][ptype as usize]);
            ctx.sample = Some(serde_json::json!({ "kind": format!("{kind:?}"), "payload_type": ptype, "payload_len": payload.len(), "cut": cut, "flip": flip }));
            if cut.is_none() && flip.is_none() {
                ctx.label("roundtrip");
                ctx.nontrivial_if(payload.is_empty());
                let record = Record { key: RecordKey::new(&[7u8; 32]), value: bytes.clone(), publisher: None, expires: None };
                match guarded(ctx, "RecordHeader::from_record", || RecordHeader::from_record(&record)) {
                    Some(Ok(h)) if h.kind == kind => {}
                    Some(o) => ctx.fail("roundtrip:RecordHeader", format!("{kind:?} -> {} -> {o:?}", hex::encode(&bytes[..bytes.len().min(4)]))),
                    None => {}
                }
                let ok = match ptype {
                    0 => guarded(ctx, "try_deserialize_record<Chunk>", || try_deserialize_record::<Chunk>(&record)).map(|r| r.ok() == Some(chunk.clone())),
                    1 => guarded(ctx, "try_deserialize_record<Scratchpad>", || try_deserialize_record::<Scratchpad>(&record)).map(|r| {
                        r.map(|s| s.count() == 0 && s.data_encoding() == payload.len() as u64 && *s.owner() == pk).unwrap_or(false)
                    }),
                    2 => guarded(ctx, "try_deserialize_record<SignedRegister>", || try_deserialize_record::<SignedRegister>(&record))
                        .map(|r| r.map(|s| Some(&s) == reg.as_ref() && s.verify().is_ok()).unwrap_or(false)),
                    3 => guarded(ctx, "try_deserialize_record<Vec<Transaction>>", || try_deserialize_record::<Vec<Transaction>>(&record))
                        .map(|r| r.map(|t| t == txs && t.iter().all(|t| t.verify())).unwrap_or(false)),
                    _ => guarded(ctx, "try_deserialize_record<(ProofOfPayment,Chunk)>", || try_deserialize_record::<(ProofOfPayment, Chunk)>(&record))
                        .map(|r| r.map(|p| p == paid).unwrap_or(false)),
                };
                if ok == Some(false) {
                    ctx.fail(
                        format!("roundtrip:record_payload_type_{ptype}"),
                        format!("payload type {ptype}, {} payload bytes, record {} did not come back equal", payload.len(), hex::encode(&bytes)),
                    );
                }
                return;
            }
            let mut b = bytes;
            if let Some((pos, x)) = flip {
                if !b.is_empty() {
                    let at = vh_core::pick_idx(*pos, b.len());
                    b[at] ^= x | 1;
                }
                ctx.label("byte_flipped");
            }
            if let Some(k) = cut {
                let at = vh_core::pick_idx(*k, b.len() + 1);
                b.truncate(at);
                ctx.label("truncated");
                ctx.label_if(at <= 3, "truncated_inside_header");
            }
            ctx.nontrivial();
            parse_all(b, ctx);
        }
    }
}
