//! Thorough tier: libFuzzer campaigns over the `parsers_*` targets of `/verif/fuzz`, plus replay of
//! saved fuzz inputs (`/verif/regress/C17/*.json` with section `fuzz:<target>`) in every tier.
//!
//! A campaign that cannot be built or run (no nightly, no cargo-fuzz, build error) or that hits its
//! wall-clock cap is *not* a violation: it is listed under `inconclusive` in the evidence.

use crate::c17::{fuzz_entry, FUZZ_TARGETS};
use serde_json::{json, Value};
use std::path::{Path, PathBuf};
use std::process::Command;
use std::time::Instant;
use vh_core::{Failure, Report, SectionStats};

fn wanted(rep: &Report, name: &str) -> bool {
    match &rep.cfg.only {
        Some(o) => name.contains(o.as_str()),
        None => true,
    }
}

/// run one stored input through the in-process entry point; returns (unknown failures, known sigs)
fn judge(rep: &Report, section: &str, target: &str, input: &[u8]) -> (Vec<Failure>, Vec<String>) {
    let mut unknown = vec![];
    let mut known = vec![];
    for f in fuzz_entry(target, input) {
        if rep.is_known(section, &f.sig) {
            known.push(f.sig);
        } else {
            unknown.push(f);
        }
    }
    (unknown, known)
}

fn case_json(target: &str, input: &[u8]) -> Value {
    json!({ "target": target, "input_hex": hex::encode(input), "input_lossy": String::from_utf8_lossy(input) })
}

/// `--replay <file>` of a case whose section is `fuzz:<target>`
pub fn replay_file(rep: &mut Report) {
    let path = rep.cfg.replay.clone().expect("replay path");
    let doc: Value = serde_json::from_str(&std::fs::read_to_string(&path).expect("replay file")).expect("replay json");
    let section = doc["section"].as_str().unwrap_or("").to_string();
    let target = doc["case"]["target"].as_str().unwrap_or("").to_string();
    let input = hex::decode(doc["case"]["input_hex"].as_str().unwrap_or("")).unwrap_or_default();
    let (unknown, known) = judge(rep, &section, &target, &input);
    for sig in known {
        println!("KNOWN-FINDING: property={} section={} sig={}", rep.cfg.prop, section, sig);
    }
    for f in unknown {
        rep.manual_violation(&section, f, &doc["case"]);
    }
    rep.add_manual(SectionStats { name: section, evaluations: 1, rule: format!("replay of {}", path.display()), ..Default::default() });
}

/// every saved fuzz input must pass on the current tree (seconds)
pub fn replay_regressions(rep: &mut Report) {
    if rep.cfg.replay.is_some() {
        return;
    }
    let dir = rep.cfg.root.join("regress").join(&rep.cfg.prop);
    let Ok(rd) = std::fs::read_dir(&dir) else { return };
    let mut files: Vec<PathBuf> = rd.filter_map(|e| e.ok().map(|e| e.path())).collect();
    files.sort();
    let mut n = 0u64;
    let t0 = Instant::now();
    for p in files {
        let Ok(txt) = std::fs::read_to_string(&p) else { continue };
        let Ok(doc) = serde_json::from_str::<Value>(&txt) else { continue };
        let section = doc["section"].as_str().unwrap_or("").to_string();
        if !section.starts_with("fuzz:") || !wanted(rep, &section) {
            continue;
        }
        let target = doc["case"]["target"].as_str().unwrap_or("").to_string();
        let input = hex::decode(doc["case"]["input_hex"].as_str().unwrap_or("")).unwrap_or_default();
        n += 1;
        let (unknown, _) = judge(rep, &section, &target, &input);
        for f in unknown {
            rep.manual_violation(&section, f, &doc["case"]);
        }
    }
    if n > 0 {
        rep.add_manual(SectionStats {
            name: "fuzz_regressions".into(),
            evaluations: n,
            wall_s: t0.elapsed().as_secs_f64(),
            rule: "saved fuzz inputs under regress/C17 re-run through the in-process entry point".into(),
            ..Default::default()
        });
    }
}

fn seeds(target: &str) -> Vec<Vec<u8>> {
    let s = |x: &str| x.as_bytes().to_vec();
    let sel = |b: u8, x: &str| {
        let mut v = vec![b];
        v.extend_from_slice(x.as_bytes());
        v
    };
    match target {
        "parsers_hex" => vec![
            s(""),
            s("00"),
            s(&"ab".repeat(32)),
            s(&"ab".repeat(48)),
            s(&"ab".repeat(80)),
            s(&crate::hexaddr::secret_key(1).public_key().to_hex()),
            s(&format!("{}{}", "11".repeat(32), crate::hexaddr::secret_key(2).public_key().to_hex())),
        ],
        "parsers_text" => vec![
            sel(0, "\x01\x0080"),
            sel(0, "\x02\x0065534-65535"),
            sel(4, "\x0a\x001-10"),
            sel(1, "1.000000000000000001"),
            sel(1, "115792089237316195423570985008687907853269984665640564039457.584007913129639935"),
            sel(2, &format!("/ip4/127.0.0.1/udp/65535/quic-v1/p2p/{}", crate::registry::peer_id(1))),
            sel(6, "/ip4/1.2.3.4/tcp/80/ws"),
            {
                let mut v = vec![3u8];
                v.extend("/ip4/1.2.3.4/udp/9/quic-v1".parse::<libp2p::Multiaddr>().map(|m| m.to_vec()).unwrap_or_default());
                v
            },
        ],
        "parsers_files" => {
            let dir = tempfile::tempdir().expect("tempdir");
            let reg = crate::registry::build_registry(
                &[crate::registry::spec_with_ports(1, Some(65535), Some(0), 12000)],
                &None,
                Some(1),
                true,
                dir.path().join("r.json"),
            );
            let reg_json = serde_json::to_string(&reg).unwrap_or_default();
            let cache = format!(
                "{{\"peers\":{{\"{id}\":[{{\"addr\":\"/ip4/10.0.0.1/udp/1/quic-v1/p2p/{id}\",\"success_count\":1,\"failure_count\":0,\"last_seen\":{{\"secs_since_epoch\":1700000000,\"nanos_since_epoch\":0}}}}]}},\"last_updated\":{{\"secs_since_epoch\":1700000000,\"nanos_since_epoch\":0}},\"network_version\":\"1_1.0\"}}",
                id = crate::registry::peer_id(1)
            );
            vec![sel(0, ""), sel(0, "{}"), sel(0, &reg_json), sel(1, "{}"), sel(0x13, &cache), sel(0x11, &cache)]
        }
        _ => {
            let chunk = ant_protocol::storage::Chunk::new(bytes::Bytes::from_static(b"hello"));
            let mut v = vec![vec![], vec![0x91], vec![0x91, 0x01], vec![0x91, 0x01, 0x90]];
            for k in [
                ant_protocol::storage::RecordKind::Chunk,
                ant_protocol::storage::RecordKind::ChunkWithPayment,
                ant_protocol::storage::RecordKind::Scratchpad,
            ] {
                if let Ok(b) = ant_protocol::storage::try_serialize_record(&chunk, k) {
                    v.push(b.to_vec());
                }
            }
            v
        }
    }
}

fn final_stat(out: &str, key: &str) -> Option<u64> {
    out.lines()
        .rev()
        .find_map(|l| l.trim().strip_prefix(key).and_then(|r| r.trim().trim_start_matches(':').trim().parse().ok()))
}

/// One libFuzzer campaign per target; fixed number of runs, wall-clock cap = stop, not fail.
pub fn campaigns(rep: &mut Report) {
    if rep.cfg.replay.is_some() {
        return;
    }
    let fuzz_dir = rep.cfg.root.join("fuzz");
    if !fuzz_dir.join("Cargo.toml").exists() {
        rep.inconclusive.push(format!("fuzz campaigns skipped: {} not found", fuzz_dir.display()));
        return;
    }
    let runs = ((2_000_000f64) * rep.cfg.scale).ceil().max(1000.0) as u64;
    let cap_s = ((150f64) * rep.cfg.scale.max(0.2)).ceil() as u64;
    let seed = (rep.cfg.seed % (u32::MAX as u64)) + 1;
    for target in FUZZ_TARGETS {
        let section = format!("fuzz:{target}");
        if !wanted(rep, &section) {
            continue;
        }
        if rep.budget_left().as_secs() < cap_s + 120 {
            rep.inconclusive.push(format!("{section}: skipped, time budget exhausted"));
            continue;
        }
        let work = tempfile::tempdir().expect("tempdir");
        let corpus = work.path().join("corpus");
        let artifacts = work.path().join("artifacts");
        std::fs::create_dir_all(&corpus).ok();
        std::fs::create_dir_all(&artifacts).ok();
        for (i, s) in seeds(target).into_iter().enumerate() {
            std::fs::write(corpus.join(format!("seed{i:02}")), s).ok();
        }
        // build (no-op when up to date), then run the binary directly
        let build = Command::new("cargo")
            .current_dir(&fuzz_dir)
            .env("CARGO_NET_OFFLINE", "true")
            .args(["+nightly", "fuzz", "build", "--release", "--fuzz-dir", ".", "--features", "parsers"])
            .arg(target)
            .output();
        match build {
            Ok(o) if o.status.success() => {}
            Ok(o) => {
                let err = String::from_utf8_lossy(&o.stderr).into_owned();
                let tail: Vec<&str> = err.lines().filter(|l| l.contains("error")).take(6).collect();
                rep.inconclusive.push(format!("{section}: cargo fuzz build failed (not a violation): {}", tail.join(" | ")));
                continue;
            }
            Err(e) => {
                rep.inconclusive.push(format!("{section}: cannot start cargo fuzz: {e}"));
                continue;
            }
        }
        let bin = std::fs::read_dir(fuzz_dir.join("target"))
            .ok()
            .into_iter()
            .flatten()
            .filter_map(|e| e.ok())
            .map(|e| e.path().join("release").join(target))
            .find(|p| p.is_file());
        let Some(bin) = bin else {
            rep.inconclusive.push(format!("{section}: built fuzz binary not found under {}/target", fuzz_dir.display()));
            continue;
        };
        let t0 = Instant::now();
        let out = Command::new(&bin)
            .current_dir(work.path())
            .env("VERIF_ROOT", &rep.cfg.root)
            .arg(&corpus)
            .arg(format!("-runs={runs}"))
            .arg(format!("-seed={seed}"))
            .arg(format!("-max_total_time={cap_s}"))
            .arg(format!("-artifact_prefix={}/", artifacts.display()))
            .args(["-len_control=0", "-max_len=4096", "-timeout=60", "-rss_limit_mb=4096", "-print_final_stats=1", "-verbosity=0"])
            .output();
        let out = match out {
            Ok(o) => o,
            Err(e) => {
                rep.inconclusive.push(format!("{section}: cannot start {}: {e}", bin.display()));
                continue;
            }
        };
        let log = format!("{}\n{}", String::from_utf8_lossy(&out.stdout), String::from_utf8_lossy(&out.stderr));
        let executed = final_stat(&log, "stat::number_of_executed_units").unwrap_or(0);
        let mut stats = SectionStats {
            name: section.clone(),
            evaluations: executed,
            wall_s: t0.elapsed().as_secs_f64(),
            rule: format!(
                "libFuzzer (coverage-guided) on target {target}: -runs={runs} -seed={seed} -max_len=4096 -len_control=0, cap {cap_s}s; inputs go through the same check functions as the generated sections; known signatures are skipped inside the target; distinct non-trivial cases are not counted for fuzz sections (see new_units_added)"
            ),
            ..Default::default()
        };
        stats.extra.insert("new_units_added".into(), json!(final_stat(&log, "stat::new_units_added")));
        stats.extra.insert("peak_rss_mb".into(), json!(final_stat(&log, "stat::peak_rss_mb")));
        stats.stopped_by_budget = executed > 0 && executed < runs && out.status.success();
        let mut crashes: Vec<PathBuf> = std::fs::read_dir(&artifacts)
            .map(|rd| rd.filter_map(|e| e.ok().map(|e| e.path())).collect())
            .unwrap_or_default();
        crashes.sort();
        if out.status.success() {
            if stats.stopped_by_budget {
                rep.inconclusive.push(format!("{section}: stopped by its {cap_s}s cap after {executed} of {runs} runs (not a failure)"));
            }
        } else if crashes.is_empty() {
            // build error, missing toolchain, ...: never a violation
            let tail: Vec<&str> = log.lines().rev().take(12).collect();
            rep.inconclusive.push(format!(
                "{section}: fuzz binary exited with {:?} without an artifact: {}",
                out.status.code(),
                tail.into_iter().rev().collect::<Vec<_>>().join(" | ")
            ));
        }
        for c in &crashes {
            let input = std::fs::read(c).unwrap_or_default();
            let fname = c.file_name().and_then(|f| f.to_str()).unwrap_or("");
            let (unknown, _known) = judge(rep, &section, target, &input);
            if unknown.is_empty() {
                // timeout-/oom-/leak- artifacts, or a crash that does not reproduce in process
                rep.inconclusive.push(format!("{section}: artifact {fname} ({} bytes) does not reproduce in process", input.len()));
                keep_artifact(&rep.cfg.root, target, c);
                continue;
            }
            for f in unknown {
                rep.manual_violation(&section, f, &case_json(target, &input));
            }
        }
        rep.add_manual(stats);
    }
}

fn keep_artifact(root: &Path, target: &str, artifact: &Path) {
    let dir = root.join("replays");
    let _ = std::fs::create_dir_all(&dir);
    if let Some(name) = artifact.file_name().and_then(|f| f.to_str()) {
        let _ = std::fs::copy(artifact, dir.join(format!("C17-fuzz-{target}-{name}")));
    }
}
