//! `ant_bootstrap::craft_valid_multiaddr_from_str` / `craft_valid_multiaddr`, and
//! `AttoTokens::from_str` (no-panic + round trip only; its semantics are property C16).

use crate::common::{boundary_number, guarded, hex_text, mutate_text, raw_bytes, Raw, Text};
use crate::registry::peer_id;
use ant_bootstrap::{craft_valid_multiaddr, craft_valid_multiaddr_from_str};
use ant_evm::{Amount, AttoTokens};
use libp2p::Multiaddr;
use proptest::prelude::*;
use serde::{Deserialize, Serialize};
use std::str::FromStr;
use vh_core::Ctx;

#[derive(Clone, Debug, Serialize, Deserialize)]
pub enum MaddrCase {
    /// a peer address as typed (`--peer`, `ANT_PEERS`, a line of a contacts file)
    Text { s: String, ignore_peer_id: bool },
    /// binary multiaddr (as carried in identify / kad messages) given to `craft_valid_multiaddr`
    Binary { bytes: Raw, ignore_peer_id: bool },
}

fn segment() -> BoxedStrategy<String> {
    let ip4 = prop_oneof![
        Just("127.0.0.1".to_string()), Just("0.0.0.0".to_string()), Just("255.255.255.255".to_string()),
        Just("256.0.0.1".to_string()), Just("1.2.3".to_string()), Just("".to_string()), Just("01.2.3.4".to_string()),
        any::<[u8; 4]>().prop_map(|b| format!("{}.{}.{}.{}", b[0], b[1], b[2], b[3])),
    ];
    let peer = prop_oneof![
        5 => (0u8..6).prop_map(|i| peer_id(i).to_string()),
        1 => (0u8..6, any::<u16>()).prop_map(|(i, k)| { let s = peer_id(i).to_string(); s[..vh_core::pick_idx(k, s.len() + 1)].to_string() }),
        1 => Just("12D3KooW".to_string()),
        1 => Just("QmYyQSo1c1Ym7orWxLYvCrM2EmxFTANf8wXmmE7DWjhx5N".to_string()),
        1 => Just("".to_string()),
    ];
    prop_oneof![
        6 => ip4.prop_map(|v| format!("/ip4/{v}")),
        1 => Just("/ip6/::1".to_string()),
        1 => Just("/dns/example.com".to_string()),
        1 => Just("/dns4/".to_string()),
        5 => boundary_number().prop_map(|p| format!("/udp/{p}")),
        3 => boundary_number().prop_map(|p| format!("/tcp/{p}")),
        4 => Just("/quic-v1".to_string()),
        1 => Just("/quic".to_string()),
        2 => Just("/ws".to_string()),
        1 => Just("/wss".to_string()),
        1 => Just("/x-parity-ws/%2Fa%2Fb".to_string()),
        1 => Just("/tls".to_string()),
        1 => Just("/http".to_string()),
        1 => Just("/p2p-circuit".to_string()),
        1 => Just("/webrtc-direct".to_string()),
        1 => Just("/certhash/uEiDDq4_xNyDorZBH3TlGazyJdOWSwvo4PUo5YHFMrvDE8g".to_string()),
        1 => Just("/memory/18446744073709551615".to_string()),
        1 => Just("/memory/18446744073709551616".to_string()),
        1 => Just("/unix/a/b".to_string()),
        1 => Just("/onion3/vww6ybal4bd7szmgncyruucpgfkqahzddi37ktceo3ah7ngmcopnpyyd:1234".to_string()),
        1 => Just("/garlic64/".to_string()),
        6 => peer.prop_map(|p| format!("/p2p/{p}")),
        1 => Just("/ipfs/".to_string()),
        1 => Just("/".to_string()),
        1 => Just("//".to_string()),
    ]
    .boxed()
}

fn maddr_text() -> BoxedStrategy<String> {
    let typical = (any::<[u8; 4]>(), boundary_number(), 0u8..6, 0u8..6).prop_map(|(ip, port, peer, shape)| {
        let ip = format!("{}.{}.{}.{}", ip[0], ip[1], ip[2], ip[3]);
        let id = peer_id(peer);
        match shape {
            0 => format!("/ip4/{ip}/udp/{port}/quic-v1/p2p/{id}"),
            1 => format!("/ip4/{ip}/udp/{port}/quic-v1"),
            2 => format!("/ip4/{ip}/tcp/{port}/ws/p2p/{id}"),
            3 => format!("/ip4/{ip}/tcp/{port}/p2p/{id}"),
            4 => format!("/ip4/{ip}/udp/{port}/quic-v1/p2p/{id}/p2p-circuit/p2p/{}", peer_id(peer + 1)),
            _ => format!("/p2p/{id}/ip4/{ip}/udp/{port}/quic-v1"),
        }
    });
    let composed = proptest::collection::vec(segment(), 0..7).prop_map(|v| v.concat());
    prop_oneof![
        4 => typical.clone(),
        6 => composed.clone(),
        4 => mutate_text(typical.boxed()),
        2 => mutate_text(composed.boxed()),
        2 => hex_text(&[4, 38], None).prop_map(|t| t.s),
    ]
    .boxed()
}

pub fn strategy() -> BoxedStrategy<MaddrCase> {
    let text = (maddr_text(), any::<bool>()).prop_map(|(s, ignore_peer_id)| MaddrCase::Text { s, ignore_peer_id });
    // binary form: valid encodings (of generated text), cut / extended / corrupted, and raw bytes
    let binary_valid = (maddr_text(), any::<u16>(), 0u8..4, any::<u8>()).prop_map(|(s, pos, mode, b)| {
        let mut bytes = s.parse::<Multiaddr>().map(|m| m.to_vec()).unwrap_or_default();
        let at = vh_core::pick_idx(pos, bytes.len() + 1);
        match mode {
            0 => {}
            1 => bytes.truncate(at),
            2 => bytes.insert(at, b),
            _ => {
                if at < bytes.len() {
                    bytes[at] = b
                }
            }
        }
        bytes
    });
    let binary = (prop_oneof![3 => binary_valid, 1 => raw_bytes(&[1, 7, 38])], any::<bool>())
        .prop_map(|(b, ignore_peer_id)| MaddrCase::Binary { bytes: Raw::of(&b), ignore_peer_id });
    prop_oneof![4 => text, 1 => binary].boxed()
}

fn check_crafted(out: &Multiaddr, ignore: bool, ctx: &mut Ctx) {
    // parse(format(v)) == v for what the function itself hands out (this is what gets written to
    // the cache file and read back)
    let text = out.to_string();
    match guarded(ctx, "craft_valid_multiaddr_from_str", || craft_valid_multiaddr_from_str(&text, ignore)) {
        Some(Some(again)) if &again == out => {}
        Some(other) => ctx.fail("roundtrip:craft_valid_multiaddr", format!("{out} -> {text:?} -> {other:?}")),
        None => {}
    }
}

pub fn check(c: &MaddrCase, ctx: &mut Ctx) {
    match c {
        MaddrCase::Text { s, ignore_peer_id } => {
            ctx.canon = Some(format!("{s}|{ignore_peer_id}"));
            ctx.sample = Some(serde_json::json!({ "text": s, "ignore_peer_id": ignore_peer_id }));
            let parsed = guarded(ctx, "Multiaddr::from_str", || s.parse::<Multiaddr>()).and_then(|r| r.ok());
            ctx.label(if parsed.is_some() { "multiaddr_parses" } else { "multiaddr_rejected" });
            let boundary = s.is_empty()
                || s.chars().count() <= 3
                || ["/udp/0", "/udp/6553", "/tcp/0", "/tcp/6553", "/256.", "/p2p/12D3KooW/", "//"].iter().any(|p| s.contains(p))
                || s.ends_with("/p2p/")
                || s.ends_with("/udp/")
                || !s.is_ascii();
            ctx.nontrivial_if(boundary || parsed.is_none());
            let r = guarded(ctx, "craft_valid_multiaddr_from_str", || craft_valid_multiaddr_from_str(s, *ignore_peer_id));
            if let Some(Some(out)) = &r {
                ctx.label("crafted_some");
                check_crafted(out, *ignore_peer_id, ctx);
            }
            if let Some(m) = parsed {
                // libp2p's own text form (a dependency, outside the property): measured, not judged
                let text = m.to_string();
                match guarded(ctx, "Multiaddr::from_str", || text.parse::<Multiaddr>()) {
                    Some(Ok(b)) if b == m => {}
                    Some(_) => ctx.label("libp2p_text_form_does_not_roundtrip"),
                    None => {}
                }
                if let Some(Some(out)) = guarded(ctx, "craft_valid_multiaddr", || craft_valid_multiaddr(&m, *ignore_peer_id)) {
                    check_crafted(&out, *ignore_peer_id, ctx);
                }
            }
        }
        MaddrCase::Binary { bytes, ignore_peer_id } => {
            let b = bytes.bytes();
            ctx.canon = Some(format!("{}|{ignore_peer_id}", bytes.hex));
            ctx.sample = Some(serde_json::json!({ "multiaddr_bytes": bytes.hex }));
            ctx.nontrivial_if(b.len() < 8);
            let parsed = guarded(ctx, "Multiaddr::try_from(bytes)", || Multiaddr::try_from(b.clone())).and_then(|r| r.ok());
            ctx.label(if parsed.is_some() { "binary_multiaddr_parses" } else { "binary_multiaddr_rejected" });
            if let Some(m) = parsed {
                if let Some(Some(out)) = guarded(ctx, "craft_valid_multiaddr", || craft_valid_multiaddr(&m, *ignore_peer_id)) {
                    ctx.label("crafted_some");
                    check_crafted(&out, *ignore_peer_id, ctx);
                }
                guarded(ctx, "Multiaddr::fmt", || m.to_string());
            }
        }
    }
}

// ------------------------------------------------------------------------------------------------
// token amounts
// ------------------------------------------------------------------------------------------------

#[derive(Clone, Debug, Serialize, Deserialize)]
pub enum AmountCase {
    Text(Text),
    /// amount as 32 big-endian bytes (hex): `from_str(to_string(v)) == v`
    Value { be_hex: String },
}

pub fn amount_strategy() -> BoxedStrategy<AmountCase> {
    let digits = |n: usize| proptest::collection::vec(0u8..10, 0..=n).prop_map(|v| v.into_iter().map(|d| (b'0' + d) as char).collect::<String>());
    let decimal = (digits(80), proptest::option::of(digits(30))).prop_map(|(i, f)| match f {
        Some(f) => format!("{i}.{f}"),
        None => i,
    });
    let near_max = (0u8..3, proptest::option::of(digits(19))).prop_map(|(d, f)| {
        // 2^256-1 = 115792089237316195423570985008687907853269984665640564039457.584007913129639935 tokens
        let i = ["115792089237316195423570985008687907853269984665640564039456", "115792089237316195423570985008687907853269984665640564039457", "115792089237316195423570985008687907853269984665640564039458"][d as usize];
        match f {
            Some(f) => format!("{i}.{f}"),
            None => i.to_string(),
        }
    });
    let text = prop_oneof![
        4 => decimal.clone(),
        2 => near_max,
        3 => mutate_text(decimal.boxed()),
        2 => boundary_number(),
        3 => hex_text(&[8, 32], None).prop_map(|t| t.s),
    ]
    .prop_map(|s| AmountCase::Text(Text { s }));
    let value = prop_oneof![
        3 => proptest::collection::vec(any::<u8>(), 32),
        1 => Just(vec![0u8; 32]),
        1 => Just(vec![0xffu8; 32]),
        2 => (0usize..32, any::<u8>()).prop_map(|(i, b)| { let mut v = vec![0u8; 32]; v[i] = b; v }),
        2 => any::<u64>().prop_map(|x| { let mut v = vec![0u8; 32]; v[24..].copy_from_slice(&x.to_be_bytes()); v }),
    ]
    .prop_map(|b| AmountCase::Value { be_hex: hex::encode(b) });
    prop_oneof![3 => text, 1 => value].boxed()
}

pub fn check_amount(c: &AmountCase, ctx: &mut Ctx) {
    match c {
        AmountCase::Text(t) => {
            let s = t.s.as_str();
            ctx.canon = Some(s.to_string());
            ctx.sample = Some(serde_json::json!({ "text": s }));
            let digits = s.bytes().filter(|b| b.is_ascii_digit()).count();
            ctx.nontrivial_if(s.len() <= 3 || digits >= 60 || !s.is_ascii() || s.matches('.').count() > 1);
            if let Some(r) = guarded(ctx, "AttoTokens::from_str", || AttoTokens::from_str(s)) {
                ctx.label(if r.is_ok() { "amount_accepted" } else { "amount_rejected" });
                if let Ok(v) = r {
                    check_amount_value(v, ctx);
                }
            }
        }
        AmountCase::Value { be_hex } => {
            let raw = hex::decode(be_hex).unwrap_or_default();
            let mut b = [0u8; 32];
            for (i, x) in raw.iter().take(32).enumerate() {
                b[i] = *x;
            }
            ctx.label("amount_value");
            ctx.nontrivial();
            ctx.canon = Some(be_hex.clone());
            ctx.sample = Some(serde_json::json!({ "atto_be_hex": be_hex }));
            check_amount_value(AttoTokens::from_atto(Amount::from_be_bytes(b)), ctx);
        }
    }
}

fn check_amount_value(v: AttoTokens, ctx: &mut Ctx) {
    let Some(text) = guarded(ctx, "AttoTokens::to_string", || v.to_string()) else { return };
    match guarded(ctx, "AttoTokens::from_str", || AttoTokens::from_str(&text)) {
        Some(Ok(b)) if b == v => {}
        Some(o) => ctx.fail("roundtrip:AttoTokens", format!("{:?} -> {text:?} -> {o:?}", v.as_atto())),
        None => {}
    }
}
