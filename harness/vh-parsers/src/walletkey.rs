//! `decrypt_private_key` (ant-cli wallet, stored text `hex(salt[8] | nonce[12] | ciphertext+tag)`).
//!
//! PBKDF2 with 100 000 rounds runs for every input that gets past the length/slicing logic, so the
//! inputs are split into a cheap section (undecodable hex or < 20 decoded bytes: ends before the KDF)
//! and a small section that pays for the KDF (garbage ≥ 20 bytes, genuine encrypt→decrypt round
//! trips, wrong password, truncations, and files sealed by the harness around arbitrary plaintext).

use crate::common::{re, guarded, hex_class, hex_text, junk, raw_bytes, Text};
use crate::wallet::encryption::{decrypt_private_key, encrypt_private_key};
use proptest::prelude::*;
use ring::aead::{BoundKey, Nonce, NonceSequence};
use serde::{Deserialize, Serialize};
use std::num::NonZeroU32;
use vh_core::Ctx;

/// decoded-byte offsets: salt 8, salt+nonce 20, +16-byte tag 36
pub const OFFSETS: &[usize] = &[8, 20, 36];

#[derive(Clone, Debug, Serialize, Deserialize)]
pub struct Cheap {
    pub data: String,
    pub password: String,
}

fn password() -> BoxedStrategy<String> {
    prop_oneof![
        2 => Just(String::new()),
        3 => re("[ -~]{1,12}"),
        1 => re("\\PC{1,6}"),
        1 => Just("p".repeat(300)),
    ]
    .boxed()
}

/// true if the harness expects the call to end before the key derivation (budgeting only)
pub fn is_cheap(data: &str) -> bool {
    match hex::decode(data) {
        Err(_) => true,
        Ok(b) => b.len() < 20,
    }
}

pub fn cheap_strategy() -> BoxedStrategy<Cheap> {
    (hex_text(OFFSETS, None), password())
        .prop_map(|(t, password)| {
            let Text { s } = t;
            // keep the KDF out of this section: cut decodable long inputs to 19 bytes (38 digits)
            let data = if is_cheap(&s) { s } else { s[..38].to_string() };
            Cheap { data, password }
        })
        .boxed()
}

pub fn check_cheap(c: &Cheap, ctx: &mut Ctx) {
    let class = hex_class(&c.data, OFFSETS);
    ctx.nontrivial_if(class.starts_with("decoded_len_in_[0,8)")
        || class.starts_with("decoded_len_eq_8")
        || class.starts_with("decoded_len_in_[9,20)")
        || class == "empty"
        || class == "odd_hex_length");
    ctx.label(class);
    ctx.canon = Some(c.data.clone());
    ctx.sample = Some(serde_json::json!({ "data": c.data, "password": c.password }));
    if !is_cheap(&c.data) {
        // replay files edited by hand: do not burn the KDF here
        ctx.label("skipped_not_cheap");
        return;
    }
    if let Some(r) = guarded(ctx, "decrypt_private_key", || decrypt_private_key(&c.data, &c.password)) {
        ctx.label(if r.is_ok() { "decrypt_ok" } else { "decrypt_err" });
    }
}

// ------------------------------------------------------------------------------------------------
// inputs that reach the KDF
// ------------------------------------------------------------------------------------------------

#[derive(Clone, Debug, Serialize, Deserialize)]
pub enum Kdf {
    /// ≥ 20 decoded bytes that were never sealed
    Garbage { data: String, password: String },
    /// `decrypt(encrypt(key, password), password) == key`; optionally decrypt with another
    /// password, or a prefix of the stored text (`keep` hex digits, monotone index)
    RoundTrip { key: String, password: String, other_password: Option<String>, keep: Option<u16> },
    /// stored text in the real layout, sealed by the harness around arbitrary plaintext bytes
    Sealed { plaintext_hex: String, password: String, salt_nonce_seed: u8 },
}

pub fn kdf_strategy() -> BoxedStrategy<Kdf> {
    let garbage = (raw_bytes(&[20, 36, 52]), password(), any::<bool>()).prop_map(|(mut b, password, upper)| {
        while b.len() < 20 {
            b.push(0x5a);
        }
        b.truncate(600);
        let h = hex::encode(b);
        Kdf::Garbage { data: if upper { h.to_uppercase() } else { h }, password }
    });
    let key = prop_oneof![
        // what `Wallet::random_private_key()` yields: 0x + 64 hex digits
        4 => proptest::collection::vec(any::<u8>(), 32).prop_map(|b| format!("0x{}", hex::encode(b))),
        1 => Just(String::new()),
        1 => re("[ -~]{0,40}"),
        1 => re("\\PC{0,12}"),
        1 => (junk(), 0usize..4).prop_map(|(j, n)| j.repeat(n)),
    ];
    let roundtrip = (key, password(), proptest::option::weighted(0.25, password()), proptest::option::weighted(0.25, any::<u16>()))
        .prop_map(|(key, password, other_password, keep)| Kdf::RoundTrip { key, password, other_password, keep });
    let plaintext = prop_oneof![
        3 => proptest::collection::vec(any::<u8>(), 0..48),
        2 => proptest::collection::vec(prop_oneof![Just(0xffu8), Just(0xc0u8), Just(0x80u8), Just(b'a')], 1..8),
        1 => re("[ -~]{0,40}").prop_map(|s| s.into_bytes()),
        1 => re("\\PC{0,12}").prop_map(|s| s.into_bytes()),
    ];
    let sealed = (plaintext, password(), any::<u8>()).prop_map(|(p, password, salt_nonce_seed)| Kdf::Sealed {
        plaintext_hex: hex::encode(p),
        password,
        salt_nonce_seed,
    });
    prop_oneof![3 => garbage, 4 => roundtrip, 4 => sealed].boxed()
}

struct OneNonce([u8; 12]);
impl NonceSequence for OneNonce {
    fn advance(&mut self) -> Result<Nonce, ring::error::Unspecified> {
        Nonce::try_assume_unique_for_key(&self.0)
    }
}

/// The stored-text layout written by `encrypt_private_key`, produced for arbitrary plaintext bytes:
/// hex(salt | nonce | ChaCha20-Poly1305(PBKDF2-HMAC-SHA512(password, salt, 100000), nonce, plaintext)).
pub fn seal(plaintext: &[u8], password: &str, seed: u8) -> String {
    let salt: [u8; 8] = std::array::from_fn(|i| seed.wrapping_mul(7).wrapping_add(i as u8));
    let nonce: [u8; 12] = std::array::from_fn(|i| seed.wrapping_mul(13).wrapping_add(3 * i as u8));
    let mut key = [0u8; 32];
    ring::pbkdf2::derive(
        ring::pbkdf2::PBKDF2_HMAC_SHA512,
        NonZeroU32::new(100_000).unwrap(),
        &salt,
        password.as_bytes(),
        &mut key,
    );
    let unbound = ring::aead::UnboundKey::new(&ring::aead::CHACHA20_POLY1305, &key).expect("key");
    let mut sealing = ring::aead::SealingKey::new(unbound, OneNonce(nonce));
    let mut buf = plaintext.to_vec();
    sealing
        .seal_in_place_append_tag(ring::aead::Aad::from(&[]), &mut buf)
        .expect("seal");
    let mut out = salt.to_vec();
    out.extend_from_slice(&nonce);
    out.extend_from_slice(&buf);
    hex::encode(out)
}

pub fn check_kdf(c: &Kdf, ctx: &mut Ctx) {
    ctx.sample = Some(serde_json::to_value(c).unwrap_or_default());
    match c {
        Kdf::Garbage { data, password } => {
            ctx.label("garbage_ge_20_bytes");
            ctx.label(hex_class(data, OFFSETS));
            ctx.nontrivial_if(data.len() / 2 <= 38);
            if let Some(r) = guarded(ctx, "decrypt_private_key", || decrypt_private_key(data, password)) {
                ctx.label(if r.is_ok() { "decrypt_ok" } else { "decrypt_err" });
            }
        }
        Kdf::RoundTrip { key, password, other_password, keep } => {
            let Some(enc) = guarded(ctx, "encrypt_private_key", || encrypt_private_key(key, password)) else {
                return;
            };
            let enc = match enc {
                Ok(e) => e,
                Err(e) => {
                    ctx.fail("roundtrip:encrypt_private_key_failed", format!("key {key:?}: {e}"));
                    return;
                }
            };
            let stored = match keep {
                Some(k) => {
                    ctx.label("truncated_stored_text");
                    ctx.nontrivial();
                    enc[..vh_core::pick_idx(*k, enc.len() + 1)].to_string()
                }
                None => enc.clone(),
            };
            let pw = other_password.as_ref().unwrap_or(password);
            let r = guarded(ctx, "decrypt_private_key", || decrypt_private_key(&stored, pw));
            let Some(r) = r else { return };
            let intact = stored.len() == enc.len() && pw == password;
            if intact {
                ctx.label("roundtrip_intact");
                ctx.nontrivial_if(key.is_empty() || !key.is_ascii());
                match r {
                    Ok(k) if &k == key => {}
                    other => ctx.fail(
                        "roundtrip:decrypt_private_key",
                        format!("key {key:?} password {password:?} -> {enc} -> {other:?}"),
                    ),
                }
            } else {
                ctx.label(if r.is_ok() { "tampered_decrypt_ok" } else { "tampered_decrypt_err" });
            }
        }
        Kdf::Sealed { plaintext_hex, password, salt_nonce_seed } => {
            let plain = hex::decode(plaintext_hex).unwrap_or_default();
            let utf8 = std::str::from_utf8(&plain).is_ok();
            ctx.label(if utf8 { "sealed_utf8_plaintext" } else { "sealed_non_utf8_plaintext" });
            ctx.nontrivial_if(!utf8 || plain.is_empty());
            let stored = seal(&plain, password, *salt_nonce_seed);
            if let Some(r) = guarded(ctx, "decrypt_private_key", || decrypt_private_key(&stored, password)) {
                match r {
                    Ok(s) => {
                        ctx.label("sealed_decrypt_ok");
                        // the harness-side sealing must be the real layout, or this class is vacuous
                        if s.as_bytes() != plain.as_slice() {
                            ctx.fail(
                                "roundtrip:sealed_layout",
                                format!("sealed {plaintext_hex} came back as {:?}", hex::encode(s.as_bytes())),
                            );
                        }
                    }
                    Err(_) => ctx.label("sealed_decrypt_err"),
                }
            }
        }
    }
}
