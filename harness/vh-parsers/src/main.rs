//! vh-parsers: runner for property C17 (all checks live in the library so that the cargo-fuzz
//! targets under /verif/fuzz share them).
fn main() {
    let cfg = vh_core::RunCfg::from_args();
    match cfg.prop.as_str() {
        "C17" => vh_parsers::c17::run(cfg),
        other => {
            eprintln!("vh-parsers: unknown property {other}");
            std::process::exit(2);
        }
    }
}
