//! `PortRange::parse`, `PortRange::validate(count)`, `check_port_availability`,
//! `get_start_port_if_applicable` + `increment_port_option` (driven the way `add_node` /
//! `run_network` drive them: start port, then one increment per added node).

use crate::common::{boundary_number, guarded, hex_text, junk};
use crate::registry::node_with_ports;
use ant_node_manager::add_services::config::PortRange;
use ant_node_manager::helpers::{
    check_port_availability, get_start_port_if_applicable, increment_port_option,
};
use proptest::prelude::*;
use serde::{Deserialize, Serialize};
use vh_core::Ctx;

#[derive(Clone, Debug, Serialize, Deserialize)]
pub struct PortCase {
    /// the `--node-port` / `--metrics-port` / `--rpc-port` argument
    pub text: String,
    /// the `--count` argument
    pub count: u16,
    /// ports already recorded in the registry: (node_port, metrics_port, rpc_port) per node
    pub used: Vec<(Option<u16>, Option<u16>, u16)>,
}

fn edge_port() -> BoxedStrategy<u16> {
    prop_oneof![
        5 => prop_oneof![Just(0u16), Just(1), Just(2), Just(1024), Just(32768), Just(65533), Just(65534), Just(65535)],
        2 => any::<u16>(),
    ]
    .boxed()
}

fn text() -> BoxedStrategy<String> {
    let num = boundary_number;
    let well_formed = (edge_port(), 0u32..70000, any::<bool>()).prop_map(|(a, len, single)| {
        if single {
            a.to_string()
        } else {
            format!("{a}-{}", (a as u32 + len).min(65535))
        }
    });
    let pair = (num(), num(), prop_oneof![4 => Just("-"), 1 => Just(" - "), 1 => Just("–"), 1 => Just(".."), 1 => Just(":"), 1 => Just(","), 1 => Just("--")])
        .prop_map(|(a, b, sep)| format!("{a}{sep}{b}"));
    let multi = proptest::collection::vec(num(), 0..5).prop_map(|v| v.join("-"));
    let junked = (pair.clone(), junk(), any::<u16>()).prop_map(|(s, j, pos)| {
        let chars: Vec<char> = s.chars().collect();
        let at = vh_core::pick_idx(pos, chars.len() + 1);
        let mut o: String = chars[..at].iter().collect();
        o.push_str(j);
        o.extend(chars[at..].iter());
        o
    });
    prop_oneof![
        6 => well_formed,
        3 => num(),
        6 => pair,
        2 => multi,
        2 => junked,
        2 => hex_text(&[2, 5], None).prop_map(|t| t.s),
    ]
    .boxed()
}

pub fn strategy() -> BoxedStrategy<PortCase> {
    let used = proptest::collection::vec(
        (proptest::option::of(edge_port()), proptest::option::of(edge_port()), edge_port()),
        0..3,
    );
    (text(), any::<u16>(), 0u8..8, -1i32..=1, used)
        .prop_map(|(text, rnd, mode, d, used)| {
            // counts around the size of the range, and the u16 edges
            let size: Option<i64> = text.split_once('-').and_then(|(a, b)| {
                let (a, b) = (a.parse::<i64>().ok()?, b.parse::<i64>().ok()?);
                Some(b - a + 1)
            });
            let count = match mode {
                0..=3 => size.unwrap_or(1).saturating_add(d as i64).clamp(0, 65535) as u16,
                4 => [0u16, 1, 2, 65534, 65535][(rnd % 5) as usize],
                5 => 1,
                _ => rnd,
            };
            PortCase { text, count, used }
        })
        .boxed()
}

/// canonical decimal spelling of a u16 (no sign, no leading zeros)
fn canonical_u16(s: &str) -> Option<u16> {
    if s.is_empty() || s.len() > 5 || !s.bytes().all(|b| b.is_ascii_digit()) || (s.len() > 1 && s.starts_with('0')) {
        return None;
    }
    s.parse::<u32>().ok().and_then(|v| u16::try_from(v).ok())
}

pub fn check(c: &PortCase, ctx: &mut Ctx) {
    ctx.canon = Some(format!("{}|{}", c.text, c.count));
    ctx.sample = Some(serde_json::json!({ "port_arg": c.text, "count": c.count, "used": c.used }));
    let Some(parsed) = guarded(ctx, "PortRange::parse", || PortRange::parse(&c.text)) else {
        return;
    };

    // parse(format(v)) == v: the canonical spellings "p" and "start-end" (start < end) denote
    // Single(p) and Range(start, end) — these are the only forms the tool's help and its own
    // launchers write
    let canon = match c.text.split_once('-') {
        None => canonical_u16(&c.text).map(|p| (p, None)),
        Some((a, b)) => match (canonical_u16(a), canonical_u16(b)) {
            (Some(a), Some(b)) if a < b => Some((a, Some(b))),
            _ => None,
        },
    };
    if let Some((a, b)) = canon {
        ctx.label("canonical_spelling");
        let ok = match (&parsed, b) {
            (Ok(PortRange::Single(p)), None) => *p == a,
            (Ok(PortRange::Range(s, e)), Some(b)) => *s == a && *e == b,
            _ => false,
        };
        if !ok {
            ctx.fail(
                "roundtrip:PortRange",
                format!("{:?} parsed as {:?}", c.text, parsed.as_ref().map_err(|e| e.to_string())),
            );
        }
    }

    let range = match parsed {
        Ok(r) => r,
        Err(_) => {
            ctx.label("parse_err");
            return;
        }
    };
    let (start, end) = match range {
        PortRange::Single(p) => (p, p),
        PortRange::Range(s, e) => (s, e),
    };
    ctx.label(match range {
        PortRange::Single(_) => "parsed_single",
        PortRange::Range(..) => "parsed_range",
    });
    let touches_edge = start == 0 || end >= 65534;
    ctx.label_if(touches_edge, "touches_0_or_65534_65535");
    ctx.label_if(start == 0 && end == 65535, "full_range_0_65535");
    ctx.nontrivial_if(touches_edge);

    let valid = guarded(ctx, "PortRange::validate", || range.validate(c.count));
    if let Some(v) = &valid {
        ctx.label(if v.is_ok() { "validate_ok" } else { "validate_err" });
    }

    let nodes: Vec<_> = c
        .used
        .iter()
        .enumerate()
        .map(|(i, (n, m, r))| node_with_ports(i as u16 + 1, *n, *m, *r))
        .collect();
    if let Some(r) = guarded(ctx, "check_port_availability", || check_port_availability(&range, &nodes)) {
        ctx.label(if r.is_ok() { "ports_free" } else { "port_in_use" });
    }

    // add_node / run_network: only after validate() accepted the count
    if matches!(valid, Some(Ok(()))) {
        let mut port = guarded(ctx, "get_start_port_if_applicable", || {
            get_start_port_if_applicable(Some(range.clone()))
        })
        .flatten();
        ctx.label_if(end == 65535, "last_node_gets_port_65535");
        for _ in 0..c.count {
            // the loop increments after every node, including the last one
            match guarded(ctx, "increment_port_option", || increment_port_option(port)) {
                Some(p) => port = p,
                None => break,
            }
        }
    }
    guarded(ctx, "increment_port_option", || increment_port_option(None));
}
