//! `NodeRegistry::load` / `NodeRegistry::from_json` on arbitrary file contents, and
//! `load(save(registry)) == registry` (compared as JSON values; `NodeServiceData` has no `PartialEq`).

use crate::common::{re, guarded, raw_bytes, Raw};
use ant_bootstrap::PeersArgs;
use ant_evm::{AttoTokens, EvmNetwork, RewardsAddress};
use ant_logging::LogFormat;
use ant_service_management::{
    DaemonServiceData, NatDetectionStatus, NodeRegistry, NodeServiceData, ServiceStatus,
};
use libp2p::{Multiaddr, PeerId};
use proptest::prelude::*;
use serde::{Deserialize, Serialize};
use serde_json::Value;
use std::net::{Ipv4Addr, SocketAddr, SocketAddrV4};
use std::path::PathBuf;
use vh_core::Ctx;

pub fn peer_id(seed: u8) -> PeerId {
    // ed25519 key derivation costs ~50 us; the 256 possible ids are memoised per thread
    thread_local! {
        static IDS: std::cell::RefCell<Vec<Option<PeerId>>> = std::cell::RefCell::new(vec![None; 256]);
    }
    IDS.with(|ids| {
        *ids.borrow_mut()[seed as usize].get_or_insert_with(|| {
            let mut b = [0u8; 32];
            b[0] = seed;
            b[31] = 0x17;
            libp2p::identity::Keypair::ed25519_from_bytes(b)
                .expect("ed25519 seed")
                .public()
                .to_peer_id()
        })
    })
}

/// A node entry described by small integers (readable in replay files).
#[derive(Clone, Debug, Serialize, Deserialize)]
pub struct NodeSpec {
    pub number: u16,
    pub node_port: Option<u16>,
    pub metrics_port: Option<u16>,
    pub rpc_port: u16,
    pub pid: Option<u32>,
    pub peer: Option<u8>,
    pub connected: Option<Vec<u8>>,
    pub listen_ports: Option<Vec<u16>>,
    /// reward balance as 32 big-endian bytes, hex
    pub balance_hex: Option<String>,
    pub evm: u8,
    pub status: u8,
    pub flags: u8,
    pub owner: Option<String>,
    pub version: String,
    pub network_id: Option<u8>,
    pub max_log_files: Option<u64>,
}

fn port() -> BoxedStrategy<u16> {
    prop_oneof![
        3 => prop_oneof![Just(0u16), Just(1), Just(80), Just(1024), Just(65534), Just(65535)],
        2 => any::<u16>(),
    ]
    .boxed()
}

pub fn node_spec() -> BoxedStrategy<NodeSpec> {
    let a = (
        prop_oneof![Just(0u16), Just(1), Just(65535), 1u16..60],
        proptest::option::of(port()),
        proptest::option::of(port()),
        port(),
        proptest::option::of(prop_oneof![Just(0u32), Just(1), Just(u32::MAX), any::<u32>()]),
        proptest::option::of(0u8..8),
        proptest::option::of(proptest::collection::vec(0u8..8, 0..3)),
        proptest::option::of(proptest::collection::vec(port(), 0..3)),
    );
    let balance = proptest::option::of(prop_oneof![
        Just(vec![0u8; 32]),
        Just(vec![0xffu8; 32]),
        proptest::collection::vec(any::<u8>(), 32),
        (0usize..32).prop_map(|i| { let mut v = vec![0u8; 32]; v[i] = 1; v }),
    ]);
    let b = (
        balance,
        0u8..3,
        0u8..4,
        any::<u8>(),
        proptest::option::of(prop_oneof![Just(String::new()), re("[a-z0-9_.]{1,12}"), re("\\PC{1,6}")]),
        prop_oneof![Just("0.1.0".to_string()), Just(String::new()), re("[0-9]{1,3}\\.[0-9]{1,3}\\.[0-9]{1,3}(-rc\\.[0-9])?")],
        proptest::option::of(prop_oneof![Just(0u8), Just(1), Just(255), any::<u8>()]),
        proptest::option::of(prop_oneof![Just(0u64), Just(1), Just(u32::MAX as u64), Just(u64::MAX >> 11)]),
    );
    (a, b)
        .prop_map(|((number, node_port, metrics_port, rpc_port, pid, peer, connected, listen_ports), (balance, evm, status, flags, owner, version, network_id, max_log_files))| NodeSpec {
            number,
            node_port,
            metrics_port,
            rpc_port,
            pid,
            peer,
            connected,
            listen_ports,
            balance_hex: balance.map(hex::encode),
            evm,
            status,
            flags,
            owner,
            version,
            network_id,
            max_log_files,
        })
        .boxed()
}

pub fn node_data(s: &NodeSpec) -> NodeServiceData {
    let bit = |i: u8| s.flags >> i & 1 == 1;
    let listen = s.listen_ports.as_ref().map(|ps| {
        ps.iter()
            .map(|p| {
                let mut m: Multiaddr = format!("/ip4/127.0.0.1/udp/{p}/quic-v1").parse().expect("multiaddr");
                if let Some(id) = s.peer {
                    m.push(libp2p::multiaddr::Protocol::P2p(peer_id(id)));
                }
                m
            })
            .collect::<Vec<_>>()
    });
    let balance = s.balance_hex.as_ref().map(|h| {
        let raw = hex::decode(h).unwrap_or_default();
        let mut b = [0u8; 32];
        for (i, x) in raw.iter().take(32).enumerate() {
            b[i] = *x;
        }
        AttoTokens::from_atto(ant_evm::Amount::from_be_bytes(b))
    });
    let evm_network = match s.evm {
        0 => EvmNetwork::ArbitrumOne,
        1 => EvmNetwork::ArbitrumSepolia,
        _ => EvmNetwork::new_custom(
            "http://localhost:8545/",
            "0x5FbDB2315678afecb367f032d93F642f64180aa3",
            "0x8464135c8F25Da09e49BC8782676a84730C318bC",
        ),
    };
    let peers_args = PeersArgs {
        first: bit(4),
        addrs: if bit(5) {
            vec![format!("/ip4/10.0.0.{}/udp/{}/quic-v1/p2p/{}", s.number % 250, s.rpc_port, peer_id(7))
                .parse()
                .expect("multiaddr")]
        } else {
            vec![]
        },
        network_contacts_url: if bit(6) { vec!["https://example.com/contacts".into()] } else { vec![] },
        local: bit(7),
        disable_mainnet_contacts: bit(0),
        ignore_cache: bit(1),
        bootstrap_cache_dir: if bit(2) { Some(PathBuf::from("/var/cache dir/x")) } else { None },
    };
    NodeServiceData {
        antnode_path: PathBuf::from(format!("/var/antctl/services/antnode{}/antnode", s.number)),
        auto_restart: bit(0),
        connected_peers: s.connected.as_ref().map(|v| v.iter().map(|i| peer_id(*i)).collect()),
        data_dir_path: PathBuf::from(format!("/var/antctl/services/antnode{}", s.number)),
        evm_network,
        home_network: bit(1),
        listen_addr: listen,
        log_dir_path: PathBuf::from(format!("/var/log/antnode/antnode{}", s.number)),
        log_format: match s.flags % 3 {
            0 => None,
            1 => Some(LogFormat::Default),
            _ => Some(LogFormat::Json),
        },
        max_archived_log_files: s.max_log_files.map(|v| v as usize),
        max_log_files: s.max_log_files.map(|v| (v / 2) as usize),
        metrics_port: s.metrics_port,
        owner: s.owner.clone(),
        network_id: s.network_id,
        node_ip: if bit(3) { Some(Ipv4Addr::new(192, 168, 1, (s.number % 255) as u8)) } else { None },
        node_port: s.node_port,
        number: s.number,
        peer_id: s.peer.map(peer_id),
        peers_args,
        pid: s.pid,
        rewards_address: RewardsAddress::from([s.flags; 20]),
        reward_balance: balance,
        rpc_socket_addr: SocketAddr::V4(SocketAddrV4::new(Ipv4Addr::LOCALHOST, s.rpc_port)),
        service_name: format!("antnode{}", s.number),
        status: match s.status {
            0 => ServiceStatus::Added,
            1 => ServiceStatus::Running,
            2 => ServiceStatus::Stopped,
            _ => ServiceStatus::Removed,
        },
        upnp: bit(2),
        user: if bit(3) { Some("ant".into()) } else { None },
        user_mode: bit(4),
        version: s.version.clone(),
    }
}

/// A node that only matters for the ports it occupies.
pub fn node_with_ports(number: u16, node_port: Option<u16>, metrics_port: Option<u16>, rpc_port: u16) -> NodeServiceData {
    node_data(&spec_with_ports(number, node_port, metrics_port, rpc_port))
}

pub fn spec_with_ports(number: u16, node_port: Option<u16>, metrics_port: Option<u16>, rpc_port: u16) -> NodeSpec {
    NodeSpec {
        number,
        node_port,
        metrics_port,
        rpc_port,
        pid: None,
        peer: None,
        connected: None,
        listen_ports: None,
        balance_hex: None,
        evm: 0,
        status: 0,
        flags: 0,
        owner: None,
        version: "0.1.0".into(),
        network_id: None,
        max_log_files: None,
    }
}

// ------------------------------------------------------------------------------------------------
// cases
// ------------------------------------------------------------------------------------------------

/// Replacement of the `leaf`-th scalar of the saved JSON document (document order) by `with`
/// (any JSON text), e.g. a port by 65536 or a peer id by "".
#[derive(Clone, Debug, Serialize, Deserialize)]
pub struct Edit {
    pub leaf: u16,
    pub with: String,
}

#[derive(Clone, Debug, Serialize, Deserialize)]
pub enum RegCase {
    /// arbitrary bytes as the registry file
    Bytes { content: Raw },
    /// a registry written by the real `save()`, then edited / cut (no edits, no cut: round trip)
    Saved {
        nodes: Vec<NodeSpec>,
        env: Option<Vec<(String, String)>>,
        nat: Option<u8>,
        daemon: bool,
        edits: Vec<Edit>,
        /// keep only this share of the file's characters (monotone index)
        cut: Option<u16>,
    },
}

fn replacement() -> BoxedStrategy<String> {
    const R: &[&str] = &[
        "null", "true", "0", "1", "-1", "65535", "65536", "4294967295", "4294967296",
        "18446744073709551615", "18446744073709551616", "1e400", "-0.0", "1.5", "\"\"", "\"0\"",
        "\"65536\"", "\"x\"", "\"0x\"", "\"0x1\"", "\"0xffffffffffffffffffffffffffffffffffffffffffffffffffffffffffffffffff\"",
        "\"12D3KooW\"", "\"/ip4/1.2.3.4\"", "\"/ip4/256.0.0.1/udp/1\"", "\"127.0.0.1:65536\"", "\"127.0.0.1:\"",
        "\"[::1]:1\"", "\"\\u0000\"", "\"\\ud800\"", "[]", "{}", "[[]]", "{\"Custom\":{}}", "\"Custom\"", "\"Running\"",
        "\"\u{FFFD}\"",
    ];
    prop_oneof![
        6 => (0..R.len()).prop_map(|i| R[i].to_string()),
        1 => any::<i64>().prop_map(|v| v.to_string()),
        1 => re("[ -~]{0,10}").prop_map(|s| serde_json::to_string(&s).unwrap()),
        1 => Just(format!("\"{}\"", "9".repeat(400))),
        1 => Just("9".repeat(400)),
    ]
    .boxed()
}

pub fn strategy() -> BoxedStrategy<RegCase> {
    let bytes = prop_oneof![
        3 => raw_bytes(&[1, 2]),
        2 => prop_oneof![
            Just("{}"), Just("[]"), Just("null"), Just("{\"nodes\":[]}"), Just("{\"nodes\":null}"),
            Just("{\"nodes\":[{}],\"save_path\":\"\"}"), Just("\"\""), Just(" "), Just("\n"), Just("{"),
            Just("{\"auditor\":null,\"daemon\":null,\"environment_variables\":null,\"faucet\":null,\"nat_status\":null,\"nodes\":[],\"save_path\":\"/x\"}"),
            Just("{\"auditor\":null,\"daemon\":null,\"environment_variables\":[[\"a\"]],\"faucet\":null,\"nat_status\":\"UPnP\",\"nodes\":[],\"save_path\":\"/x\"}"),
        ].prop_map(|s| s.as_bytes().to_vec()),
        1 => (1usize..3000).prop_map(|n| "[".repeat(n).into_bytes()),
        1 => (1usize..3000).prop_map(|n| format!("{}{}", "{\"nodes\":".repeat(n), "1").into_bytes()),
    ]
    .prop_map(|b| RegCase::Bytes { content: Raw::of(&b) });
    let env = proptest::option::of(proptest::collection::vec((re("[A-Z_]{0,6}"), re("\\PC{0,6}")), 0..3));
    let saved = (
        proptest::collection::vec(node_spec(), 0..4),
        env,
        proptest::option::of(0u8..3),
        any::<bool>(),
        prop_oneof![
            2 => Just(vec![]),
            5 => proptest::collection::vec((any::<u16>(), replacement()).prop_map(|(leaf, with)| Edit { leaf, with }), 1..3),
        ],
        proptest::option::weighted(0.2, any::<u16>()),
    )
        .prop_map(|(nodes, env, nat, daemon, edits, cut)| RegCase::Saved { nodes, env, nat, daemon, edits, cut });
    prop_oneof![2 => bytes, 5 => saved].boxed()
}

fn count_leaves(v: &Value) -> usize {
    match v {
        Value::Array(a) => a.iter().map(count_leaves).sum::<usize>() + usize::from(a.is_empty()),
        Value::Object(o) => o.values().map(count_leaves).sum::<usize>() + usize::from(o.is_empty()),
        _ => 1,
    }
}

/// replace the `n`-th leaf (document order; empty containers count as one leaf)
fn replace_leaf(v: &mut Value, n: &mut usize, with: &Value) -> bool {
    match v {
        Value::Array(a) if !a.is_empty() => a.iter_mut().any(|x| replace_leaf(x, n, with)),
        Value::Object(o) if !o.is_empty() => o.values_mut().any(|x| replace_leaf(x, n, with)),
        _ => {
            if *n == 0 {
                *v = with.clone();
                true
            } else {
                *n -= 1;
                false
            }
        }
    }
}

pub fn build_registry(nodes: &[NodeSpec], env: &Option<Vec<(String, String)>>, nat: Option<u8>, daemon: bool, path: PathBuf) -> NodeRegistry {
    NodeRegistry {
        auditor: None,
        daemon: daemon.then(|| DaemonServiceData {
            daemon_path: PathBuf::from("/usr/local/bin/antctld"),
            endpoint: Some(SocketAddr::V4(SocketAddrV4::new(Ipv4Addr::LOCALHOST, 12500))),
            pid: Some(1),
            service_name: "antctld".into(),
            status: ServiceStatus::Running,
            version: "0.1.0".into(),
        }),
        environment_variables: env.clone(),
        faucet: None,
        nat_status: nat.map(|n| match n {
            0 => NatDetectionStatus::Public,
            1 => NatDetectionStatus::UPnP,
            _ => NatDetectionStatus::Private,
        }),
        nodes: nodes.iter().map(node_data).collect(),
        save_path: path,
    }
}

fn load_both(ctx: &mut Ctx, path: &std::path::Path, content: &[u8]) {
    if let Some(r) = guarded(ctx, "NodeRegistry::load", || NodeRegistry::load(path)) {
        ctx.label(if r.is_ok() { "load_ok" } else { "load_err" });
        if let Ok(reg) = r {
            // what `status` does next with a loaded registry
            guarded(ctx, "NodeRegistry::to_status_summary", || serde_json::to_string(&reg.to_status_summary()).is_ok());
        }
    }
    let text = String::from_utf8_lossy(content);
    if let Some(r) = guarded(ctx, "NodeRegistry::from_json", || NodeRegistry::from_json(&text)) {
        ctx.label(if r.is_ok() { "from_json_ok" } else { "from_json_err" });
    }
}

pub fn check(c: &RegCase, ctx: &mut Ctx) {
    let dir = tempfile::tempdir().expect("tempdir");
    let path = dir.path().join("node_registry.json");
    match c {
        RegCase::Bytes { content } => {
            let b = content.bytes();
            ctx.label(if b.is_empty() { "bytes_empty" } else if std::str::from_utf8(&b).is_err() { "bytes_non_utf8" } else { "bytes_utf8" });
            ctx.nontrivial_if(b.len() < 64);
            ctx.canon = Some(content.hex.clone());
            ctx.sample = Some(serde_json::json!({ "file": String::from_utf8_lossy(&b) }));
            std::fs::write(&path, &b).expect("write");
            load_both(ctx, &path, &b);
        }
        RegCase::Saved { nodes, env, nat, daemon, edits, cut } => {
            let reg = build_registry(nodes, env, *nat, *daemon, path.clone());
            let before = serde_json::to_value(&reg).expect("registry to json");
            match guarded(ctx, "NodeRegistry::save", || reg.save()) {
                Some(Ok(())) => {}
                Some(Err(e)) => {
                    ctx.fail("roundtrip:NodeRegistry::save_failed", format!("{e}"));
                    return;
                }
                None => return,
            }
            ctx.sample = Some(serde_json::json!({ "nodes": nodes.len(), "edits": edits, "cut": cut }));
            if edits.is_empty() && cut.is_none() {
                ctx.label("roundtrip");
                ctx.nontrivial_if(!nodes.is_empty());
                match guarded(ctx, "NodeRegistry::load", || NodeRegistry::load(&path)) {
                    Some(Ok(back)) => {
                        let after = serde_json::to_value(&back).expect("registry to json");
                        if after != before {
                            ctx.fail("roundtrip:NodeRegistry", format!("saved {before} loaded {after}"));
                        }
                    }
                    Some(Err(e)) => ctx.fail("roundtrip:NodeRegistry_rejected", format!("{e} for {before}")),
                    None => {}
                }
                return;
            }
            let text = std::fs::read_to_string(&path).expect("read back");
            let mut doc: Value = serde_json::from_str(&text).expect("saved registry is json");
            let leaves = count_leaves(&doc);
            for e in edits {
                let Ok(with) = serde_json::from_str::<Value>(&e.with) else {
                    // not JSON (e.g. 1e400 is, "9"*400 is): splice as a string
                    let mut n = vh_core::pick_idx(e.leaf, leaves);
                    replace_leaf(&mut doc, &mut n, &Value::String(e.with.clone()));
                    continue;
                };
                let mut n = vh_core::pick_idx(e.leaf, leaves);
                replace_leaf(&mut doc, &mut n, &with);
            }
            let mut out = serde_json::to_string(&doc).expect("json");
            if !edits.is_empty() {
                ctx.label("edited_leaf");
                ctx.nontrivial();
            }
            if let Some(k) = cut {
                let chars: Vec<char> = out.chars().collect();
                out = chars[..vh_core::pick_idx(*k, chars.len() + 1)].iter().collect();
                ctx.label("truncated");
                ctx.nontrivial();
            }
            std::fs::write(&path, out.as_bytes()).expect("write");
            load_both(ctx, &path, out.as_bytes());
        }
    }
}
