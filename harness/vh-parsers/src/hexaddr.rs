//! Hex address parsers: `RegisterAddress::from_hex`, `ScratchpadAddress::from_hex`,
//! `autonomi::client::address::str_to_addr` (the parser for chunk / transaction / pointer style
//! 32-byte addresses; `ChunkAddress`/`TransactionAddress` only have `to_hex`), `DataMapChunk::from_hex`.

use crate::common::{guarded, hex_class, hex_text, Text};
use ant_protocol::storage::{Chunk, ChunkAddress, ScratchpadAddress, TransactionAddress};
use ant_registers::RegisterAddress;
use autonomi::client::address::{addr_to_str, str_to_addr};
use autonomi::client::data::DataMapChunk;
use bls::SecretKey;
use proptest::prelude::*;
use rand::{Rng, SeedableRng};
use serde::{Deserialize, Serialize};
use vh_core::Ctx;
use xor_name::XorName;

/// fixed decoded-byte offsets of the parsers in this family: XorName 32, BLS public key 48,
/// register address 32+48
pub const OFFSETS: &[usize] = &[32, 48, 80];

pub fn secret_key(seed: u64) -> SecretKey {
    let mut rng = rand_chacha::ChaCha8Rng::seed_from_u64(seed ^ 0x5eed_c17);
    rng.gen()
}

fn xor_from(seed: u64) -> XorName {
    let mut rng = rand_chacha::ChaCha8Rng::seed_from_u64(seed ^ 0xa11ce);
    let mut b = [0u8; 32];
    rng.fill(&mut b);
    XorName(b)
}

/// hex renderings of well-formed addresses (the mutation bases of the text generator)
fn valid_hex() -> BoxedStrategy<String> {
    (0u64..64, 0u8..4)
        .prop_map(|(seed, kind)| {
            let pk = secret_key(seed).public_key();
            match kind {
                0 => RegisterAddress::new(xor_from(seed), pk).to_hex(),
                1 => ScratchpadAddress::new(pk).to_hex(),
                2 => ChunkAddress::new(xor_from(seed)).to_hex(),
                _ => TransactionAddress::from_owner(pk).to_hex(),
            }
        })
        .boxed()
}

pub fn text_strategy() -> BoxedStrategy<Text> {
    hex_text(OFFSETS, Some(valid_hex()))
}

pub fn check_text(t: &Text, ctx: &mut Ctx) {
    let s = t.s.as_str();
    let class = hex_class(s, OFFSETS);
    // boundary class: anything that is not a well-formed string of one of the three exact lengths
    let exact = class.starts_with("decoded_len_eq_");
    let long = class.starts_with("decoded_len_ge_");
    ctx.nontrivial_if(!exact && !(long && s.len() > 400));
    ctx.label(class);
    ctx.canon = Some(s.to_string());
    ctx.sample = Some(serde_json::json!({ "text": s }));

    // RegisterAddress
    if let Some(r) = guarded(ctx, "RegisterAddress::from_hex", || RegisterAddress::from_hex(s)) {
        if let Ok(a) = r {
            ctx.label("register_address_accepted");
            let back = guarded(ctx, "RegisterAddress::to_hex+from_hex", || {
                RegisterAddress::from_hex(&a.to_hex())
            });
            if let Some(back) = back {
                if back.as_ref().ok() != Some(&a) {
                    ctx.fail("roundtrip:RegisterAddress", format!("{s:?} -> {a:?} -> {back:?}"));
                }
            }
            guarded(ctx, "RegisterAddress::fmt", || (format!("{a}"), format!("{a:?}")));
        }
    }
    // ScratchpadAddress
    if let Some(r) = guarded(ctx, "ScratchpadAddress::from_hex", || ScratchpadAddress::from_hex(s)) {
        if let Ok(a) = r {
            ctx.label("scratchpad_address_accepted");
            let back = guarded(ctx, "ScratchpadAddress::to_hex+from_hex", || {
                ScratchpadAddress::from_hex(&a.to_hex())
            });
            if let Some(back) = back {
                if back.as_ref().ok() != Some(&a) {
                    ctx.fail("roundtrip:ScratchpadAddress", format!("{s:?} -> {a:?} -> {back:?}"));
                }
            }
            guarded(ctx, "ScratchpadAddress::fmt", || (format!("{a}"), format!("{a:?}")));
        }
    }
    // 32-byte addresses (chunk / transaction / archive ... as typed on the command line)
    if let Some(r) = guarded(ctx, "str_to_addr", || str_to_addr(s)) {
        if let Ok(x) = r {
            ctx.label("xorname_accepted");
            check_xor_roundtrip(x, ctx);
        }
    }
    // private data map
    if let Some(r) = guarded(ctx, "DataMapChunk::from_hex", || DataMapChunk::from_hex(s)) {
        if let Ok(d) = r {
            ctx.label("datamap_accepted");
            check_datamap_roundtrip(&d, ctx);
        }
    }
}

fn check_xor_roundtrip(x: XorName, ctx: &mut Ctx) {
    let forms = [
        ("addr_to_str", addr_to_str(x)),
        ("ChunkAddress::to_hex", ChunkAddress::new(x).to_hex()),
        ("TransactionAddress::to_hex", TransactionAddress::new(x).to_hex()),
    ];
    for (name, text) in forms {
        match guarded(ctx, "str_to_addr", || str_to_addr(&text)) {
            Some(Ok(y)) if y == x => {}
            Some(other) => ctx.fail(
                format!("roundtrip:{name}"),
                format!("{x:?} -> {text:?} -> {:?}", other.map_err(|e| e.to_string())),
            ),
            None => {}
        }
    }
    guarded(ctx, "ChunkAddress::fmt", || format!("{:?}", ChunkAddress::new(x)));
    guarded(ctx, "TransactionAddress::fmt", || format!("{:?}", TransactionAddress::new(x)));
}

fn check_datamap_roundtrip(d: &DataMapChunk, ctx: &mut Ctx) {
    let back = guarded(ctx, "DataMapChunk::to_hex+from_hex", || DataMapChunk::from_hex(&d.to_hex()));
    if let Some(back) = back {
        if back.as_ref().ok() != Some(d) {
            ctx.fail("roundtrip:DataMapChunk", format!("{} bytes did not come back", d.to_hex().len() / 2));
        }
    }
    guarded(ctx, "DataMapChunk::address", || d.address());
}

// ------------------------------------------------------------------------------------------------
// parse(format(v)) == v over generated well-formed values
// ------------------------------------------------------------------------------------------------

#[derive(Clone, Debug, Serialize, Deserialize)]
pub struct Valid {
    /// BLS owner key = ChaCha(seed)
    pub key_seed: u64,
    /// 32-byte name / register meta, hex
    pub name_hex: String,
    /// data-map chunk content, hex
    pub content_hex: String,
}

pub fn valid_strategy() -> BoxedStrategy<Valid> {
    let name = prop_oneof![
        4 => proptest::collection::vec(any::<u8>(), 32),
        1 => Just(vec![0u8; 32]),
        1 => Just(vec![0xffu8; 32]),
        1 => (0usize..32, any::<u8>()).prop_map(|(i, b)| { let mut v = vec![0u8; 32]; v[i] = b; v }),
    ];
    let content = prop_oneof![
        1 => Just(vec![]),
        4 => proptest::collection::vec(any::<u8>(), 0..200),
        1 => proptest::collection::vec(any::<u8>(), 3000..5000),
    ];
    (any::<u64>(), name, content)
        .prop_map(|(key_seed, n, c)| Valid {
            key_seed,
            name_hex: hex::encode(n),
            content_hex: hex::encode(c),
        })
        .boxed()
}

pub fn check_valid(v: &Valid, ctx: &mut Ctx) {
    let pk = secret_key(v.key_seed).public_key();
    let mut nb = [0u8; 32];
    let raw = hex::decode(&v.name_hex).unwrap_or_default();
    for (i, b) in raw.iter().take(32).enumerate() {
        nb[i] = *b;
    }
    let name = XorName(nb);
    ctx.nontrivial();
    ctx.label_if(nb == [0u8; 32] || nb == [0xffu8; 32], "extreme_name");
    ctx.sample = Some(serde_json::json!({ "key_seed": v.key_seed, "name": v.name_hex }));

    let reg = RegisterAddress::new(name, pk);
    for (form, text) in [("to_hex", reg.to_hex()), ("Display", reg.to_string())] {
        match guarded(ctx, "RegisterAddress::from_hex", || RegisterAddress::from_hex(&text)) {
            Some(Ok(b)) if b == reg => {}
            Some(o) => ctx.fail(format!("roundtrip:RegisterAddress/{form}"), format!("{text:?} -> {o:?}")),
            None => {}
        }
    }
    let sp = ScratchpadAddress::new(pk);
    let text = sp.to_hex();
    match guarded(ctx, "ScratchpadAddress::from_hex", || ScratchpadAddress::from_hex(&text)) {
        Some(Ok(b)) if b == sp => {}
        Some(o) => ctx.fail("roundtrip:ScratchpadAddress", format!("{text:?} -> {o:?}")),
        None => {}
    }
    check_xor_roundtrip(name, ctx);
    check_xor_roundtrip(*TransactionAddress::from_owner(pk).xorname(), ctx);

    let content = hex::decode(&v.content_hex).unwrap_or_default();
    ctx.label_if(content.is_empty(), "empty_datamap");
    let dm = DataMapChunk::from(Chunk::new(bytes::Bytes::from(content)));
    check_datamap_roundtrip(&dm, ctx);
}
