//! C06 — register replicas converge and accept only authorised writes.
//!
//! A case is: a register identity (owner, meta, permissions), a pool of operations built directly
//! as Merkle-DAG nodes (honest, unauthorised, forged, oversized, addressed to another register,
//! causally chained, dangling, hash twins), 2–3 replicas and a schedule of deliveries (`add_op`),
//! replica-to-replica merges (`merge` / `verified_merge`, with partitions and duplication) and
//! merges of adversarial / foreign registers. The interpreter runs the schedule against the real
//! `SignedRegister` and against a model that is just "set of op ids per replica".
//!
//! Oracles (all written from the property statement, the expectations are computed from the *spec*
//! of each generated op, never by asking the code under test):
//!  1. acceptance: an op enters through `add_op` / `verified_merge` only if it is within the entry
//!     size limit, addressed to this register, and (register open, or source permitted and honestly
//!     signed); valid ops below the entry-count limit are accepted;
//!  2. merge is a set union: commutative, associative, idempotent; replicas with the same accepted
//!     set have identical `ops()` and identical `RegisterCrdt::read()` for every application order;
//!  3. closure: every state reached through accepted ops and merges passes `verify()` and is
//!     accepted by `verified_merge` on another replica; merges of different base registers are
//!     refused and change nothing.

use ant_registers::{
    Error as RegError, Permissions, Register, RegisterAddress, RegisterCrdt, RegisterOp,
    SignedRegister,
};
use bls::{PublicKey, SecretKey, Signature};
use crdts::merkle_reg::Node;
use proptest::collection::vec;
use proptest::prelude::*;
use rand::{seq::SliceRandom, Rng, SeedableRng};
use rand_chacha::ChaCha20Rng;
use serde::{Deserialize, Serialize};
use serde_json::json;
use std::collections::{BTreeMap, BTreeSet, HashMap};
use std::sync::{Arc, Mutex, OnceLock};
use vh_core::{pick_idx, Ctx, Report, RunCfg};
use xor_name::XorName;

/// entry size limit in bytes ("Arbitrary maximum size of a register entry")
const ENTRY_LIMIT: usize = 1024;
/// entry count limit ("Maximum number of entries of a register")
const COUNT_LIMIT: usize = 1024;
const NKEYS: usize = 6;
/// ids of prefill ops live above the pool ids
const Q_BASE: usize = 1_000_000;
/// number of prefill ops loaded into the cached base replica
const Q_CACHED: usize = 960;
/// prefill ops private to a replica start here
const Q_OWN: usize = 1100;
const Q_TOTAL: usize = Q_OWN + 40 + 31;

// ------------------------------------------------------------------------------------------------
// case types (small integers only: every key, signature and byte string is derived from them)
// ------------------------------------------------------------------------------------------------

#[derive(Clone, Debug, Serialize, Deserialize, PartialEq, Eq)]
pub enum Perms {
    Anyone,
    /// key indices (0..6) listed as writers; the owner is always permitted as well
    Writers(Vec<u8>),
}

#[derive(Clone, Copy, Debug, Serialize, Deserialize, PartialEq, Eq)]
pub enum Addr {
    This,
    OtherMeta,
    OtherOwner,
}

#[derive(Clone, Copy, Debug, Serialize, Deserialize, PartialEq, Eq)]
pub enum Source {
    Owner,
    /// i-th listed writer (owner when the list is empty)
    Writer(u16),
    /// any of the six keys
    Key(u8),
}

#[derive(Clone, Copy, Debug, Serialize, Deserialize, PartialEq, Eq)]
pub enum Sig {
    /// signed by the key named in `source`, over exactly this op
    Honest,
    /// signed by this key instead of the source key (honest if it happens to be the same key)
    ByKey(u8),
    /// signed by the source key, over a different value
    OtherContent,
    /// signed by the source key, over a different register address
    OtherAddr,
    /// address, source and signature copied from the op named by `twin_of` (honest when absent)
    Lifted,
    /// address, source and signature copied from an EARLIER op of the pool onto this (different) node:
    /// a genuine signature replayed on content it was never made for
    Replayed(u16),
}

#[derive(Clone, Copy, Debug, Serialize, Deserialize, PartialEq, Eq)]
pub enum Child {
    /// hash of an earlier pool op (monotone pick among the ops before this one)
    Earlier(u16),
    /// a hash nobody ever delivers
    Dangling(u8),
}

#[derive(Clone, Debug, Serialize, Deserialize, PartialEq, Eq)]
pub struct OpSpec {
    pub children: Vec<Child>,
    pub len: u16,
    pub seed: u8,
    pub source: Source,
    pub sig: Sig,
    pub addr: Addr,
    /// Some(j): the node is the "hash twin" of earlier op j: no children, value = j's children
    /// hashes followed by j's value (same Merkle hash input, different node)
    #[serde(default)]
    pub twin_of: Option<u16>,
    /// Some(j): the very same node (children and value) as earlier op j, but with this spec's own
    /// source / signature / address: a re-signed copy of a known entry
    #[serde(default)]
    pub copy_of: Option<u16>,
}

#[derive(Clone, Copy, Debug, Serialize, Deserialize, PartialEq, Eq)]
pub enum Base {
    Same,
    OtherMeta,
    OtherOwner,
    OtherPerms,
}

#[derive(Clone, Debug, Serialize, Deserialize, PartialEq, Eq)]
pub enum Step {
    /// `add_op(pool[op])` on replica `to`
    Deliver { op: u16, to: u16 },
    /// replica `into` merges the current state of replica `from`
    Merge { into: u16, from: u16, verified: bool },
    /// replica `into` merges a register built by somebody else with `SignedRegister::new`.
    /// With `Base::Same` the merge is always `verified_merge` (plain `merge` is documented as
    /// trusting its argument and is only used between honest replicas).
    Foreign { into: u16, base: Base, ops: Vec<u16>, verified: bool },
}

#[derive(Clone, Debug, Serialize, Deserialize, PartialEq, Eq)]
pub enum Sync {
    None,
    /// every replica receives every pool op, in its own order (one shuffle seed per replica)
    DeliverAll(Vec<u32>),
    /// two rounds of all-to-all merges
    MergeAll { verified: bool },
}

#[derive(Clone, Debug, Serialize, Deserialize, PartialEq, Eq)]
pub struct Prefill {
    /// every replica starts with prefill ops 0..shared
    pub shared: u16,
    /// per replica (offset, len) of private prefill ops
    pub own: Vec<(u16, u16)>,
}

#[derive(Clone, Debug, Serialize, Deserialize, PartialEq, Eq)]
pub struct Case {
    pub owner: u8,
    pub meta: u8,
    pub perms: Perms,
    pub pool: Vec<OpSpec>,
    pub replicas: u8,
    /// (isolated replica, number of leading steps during which merges across the cut are lost)
    pub partition: Option<(u16, u16)>,
    pub steps: Vec<Step>,
    pub sync: Sync,
    #[serde(default)]
    pub prefill: Option<Prefill>,
}

// ------------------------------------------------------------------------------------------------
// keys and low-level construction
// ------------------------------------------------------------------------------------------------

struct Keys {
    sk: Vec<SecretKey>,
    pk: Vec<PublicKey>,
}

fn keys() -> &'static Keys {
    static K: OnceLock<Keys> = OnceLock::new();
    K.get_or_init(|| {
        let sk: Vec<SecretKey> = (0..NKEYS)
            .map(|i| ChaCha20Rng::seed_from_u64(0x0C06_0000 + i as u64).gen::<SecretKey>())
            .collect();
        let pk = sk.iter().map(|s| s.public_key()).collect();
        Keys { sk, pk }
    })
}

/// serde mirror of `RegisterOp` (its fields are crate-private)
#[derive(Serialize, Deserialize)]
struct OpMirror {
    address: RegisterAddress,
    crdt_op: Node<Vec<u8>>,
    source: PublicKey,
    signature: Signature,
}

fn op_bytes(op: &RegisterOp) -> Vec<u8> {
    rmp_serde::to_vec(op).expect("serialise op")
}
fn to_mirror(op: &RegisterOp) -> OpMirror {
    rmp_serde::from_slice(&op_bytes(op)).expect("op -> mirror")
}
fn from_mirror(m: &OpMirror) -> RegisterOp {
    rmp_serde::from_slice(&rmp_serde::to_vec(m).expect("serialise mirror")).expect("mirror -> op")
}

fn value_bytes(len: u16, seed: u8) -> Vec<u8> {
    (0..len as usize)
        .map(|i| seed.wrapping_add((i as u8).wrapping_mul(31)) ^ ((i >> 8) as u8))
        .collect()
}

fn dangling_hash(b: u8) -> [u8; 32] {
    let mut h = [0xD0u8; 32];
    h[0] = b;
    h[31] = 0x0D;
    h
}

fn err_name(e: &RegError) -> &'static str {
    match e {
        RegError::RegisterAddrMismatch { .. } => "RegisterAddrMismatch",
        RegError::EntryTooBig { .. } => "EntryTooBig",
        RegError::AccessDenied(_) => "AccessDenied",
        RegError::TooManyEntries(_) => "TooManyEntries",
        RegError::NoSuchEntry(_) => "NoSuchEntry",
        RegError::SerialisationFailed => "SerialisationFailed",
        RegError::DifferentBaseRegister => "DifferentBaseRegister",
        RegError::InvalidSignature => "InvalidSignature",
        RegError::MissingSignature => "MissingSignature",
        RegError::InvalidSecretKey => "InvalidSecretKey",
        RegError::InvalidRegisterAddress { .. } => "InvalidRegisterAddress",
        RegError::HexDeserializeFailed => "HexDeserializeFailed",
    }
}

// ------------------------------------------------------------------------------------------------
// the world of a case: identity, real ops, expectations
// ------------------------------------------------------------------------------------------------

#[derive(Clone, Copy, Debug, PartialEq, Eq)]
enum Zone {
    MustAccept,
    MustReject,
    /// the statement does not decide (forged signature on a register that is open to anyone)
    Either,
}

#[derive(Clone, Debug)]
struct Class {
    zone: Zone,
    reasons: String,
}

struct Identity {
    owner: usize,
    open: bool,
    permitted: BTreeSet<usize>,
    writers: Vec<usize>,
    perms: Permissions,
    reg: Register,
    reg_sig: Signature,
    addr: RegisterAddress,
    addr_other_meta: RegisterAddress,
    addr_other_owner: RegisterAddress,
    other_owner: usize,
    meta: XorName,
    other_meta: XorName,
}

fn to_permissions(p: &Perms) -> (Permissions, Vec<usize>) {
    match p {
        Perms::Anyone => (Permissions::AnyoneCanWrite, vec![]),
        Perms::Writers(w) => {
            let w: Vec<usize> = w.iter().map(|k| *k as usize % NKEYS).collect();
            (Permissions::new_with(w.iter().map(|k| keys().pk[*k])), w)
        }
    }
}

fn identity(case: &Case) -> Identity {
    let k = keys();
    let owner = case.owner as usize % NKEYS;
    let other_owner = (owner + 1) % NKEYS;
    let meta = XorName([case.meta; 32]);
    let other_meta = XorName([!case.meta; 32]);
    let (perms, writers) = to_permissions(&case.perms);
    let open = matches!(case.perms, Perms::Anyone);
    let mut permitted: BTreeSet<usize> = writers.iter().copied().collect();
    permitted.insert(owner);
    let reg = Register::new(k.pk[owner], meta, perms.clone());
    let reg_sig = k.sk[owner].sign(reg.bytes().expect("register bytes"));
    Identity {
        owner,
        open,
        permitted,
        writers,
        perms,
        addr: RegisterAddress::new(meta, k.pk[owner]),
        addr_other_meta: RegisterAddress::new(other_meta, k.pk[owner]),
        addr_other_owner: RegisterAddress::new(meta, k.pk[other_owner]),
        other_owner,
        meta,
        other_meta,
        reg,
        reg_sig,
    }
}

impl Identity {
    fn fresh(&self) -> SignedRegister {
        SignedRegister::new(self.reg.clone(), self.reg_sig.clone(), BTreeSet::new())
    }
    fn address_of(&self, a: Addr) -> RegisterAddress {
        match a {
            Addr::This => self.addr,
            Addr::OtherMeta => self.addr_other_meta,
            Addr::OtherOwner => self.addr_other_owner,
        }
    }
    fn source_of(&self, s: Source) -> usize {
        match s {
            Source::Owner => self.owner,
            Source::Writer(i) => {
                if self.writers.is_empty() {
                    self.owner
                } else {
                    self.writers[pick_idx(i, self.writers.len())]
                }
            }
            Source::Key(k) => k as usize % NKEYS,
        }
    }
    /// a register somebody else could hand us, with a base different from ours
    fn foreign_base(&self, base: Base) -> (Register, Signature) {
        let k = keys();
        let (reg, signer) = match base {
            Base::Same => return (self.reg.clone(), self.reg_sig.clone()),
            Base::OtherMeta => (
                Register::new(k.pk[self.owner], self.other_meta, self.perms.clone()),
                self.owner,
            ),
            Base::OtherOwner => (
                Register::new(k.pk[self.other_owner], self.meta, self.perms.clone()),
                self.other_owner,
            ),
            Base::OtherPerms => {
                let p = if self.open {
                    Permissions::new_with([k.pk[self.other_owner]])
                } else {
                    Permissions::AnyoneCanWrite
                };
                (Register::new(k.pk[self.owner], self.meta, p), self.owner)
            }
        };
        let sig = k.sk[signer].sign(reg.bytes().expect("register bytes"));
        (reg, sig)
    }
}

/// cheap, valid, distinct root ops used to fill replicas up to the entry-count limit
struct QCache {
    ops: Vec<RegisterOp>,
    by_bytes: HashMap<Vec<u8>, usize>,
    /// replica that accepted ops 0..Q_CACHED through `add_op`, or the first refusal
    base: Result<SignedRegister, String>,
}

fn qcache(case: &Case, idn: &Identity) -> Arc<QCache> {
    static CACHE: OnceLock<Mutex<HashMap<String, Arc<QCache>>>> = OnceLock::new();
    let key = format!("{}/{}/{:?}", case.owner, case.meta, case.perms);
    let mut g = CACHE.get_or_init(|| Mutex::new(HashMap::new())).lock().unwrap();
    if let Some(c) = g.get(&key) {
        return c.clone();
    }
    let k = keys();
    let mut ops = Vec::with_capacity(Q_TOTAL);
    let mut by_bytes = HashMap::new();
    for i in 0..Q_TOTAL {
        let node = Node {
            children: BTreeSet::new(),
            value: format!("\u{1}prefill-{i:05}").into_bytes(),
        };
        let op = RegisterOp::new(idn.addr, node, &k.sk[idn.owner]);
        by_bytes.insert(op_bytes(&op), Q_BASE + i);
        ops.push(op);
    }
    let mut base = Ok(idn.fresh());
    for (i, op) in ops.iter().enumerate().take(Q_CACHED) {
        if let Ok(reg) = &mut base {
            if let Err(e) = reg.add_op(op.clone()) {
                base = Err(format!("prefill op {i} (valid, owner-signed, 14 bytes) refused at {i} entries: {e}"));
            }
        }
    }
    let c = Arc::new(QCache { ops, by_bytes, base });
    g.insert(key, c.clone());
    c
}

struct World {
    idn: Identity,
    ops: Vec<RegisterOp>,
    /// canonical id of pool op i (identical ops share one id; may be a prefill id)
    cid: Vec<usize>,
    class: Vec<Class>,
    /// canonical ids of the `Earlier` children of pool op i
    deps: Vec<Vec<usize>>,
    node_hash: Vec<[u8; 32]>,
    by_bytes: HashMap<Vec<u8>, usize>,
    q: Option<Arc<QCache>>,
    valid_class: Class,
}

impl World {
    fn build(case: &Case) -> World {
        let idn = identity(case);
        let k = keys();
        let q = case.prefill.as_ref().map(|_| qcache(case, &idn));
        let mut w = World {
            idn,
            ops: vec![],
            cid: vec![],
            class: vec![],
            deps: vec![],
            node_hash: vec![],
            by_bytes: HashMap::new(),
            q,
            valid_class: Class { zone: Zone::MustAccept, reasons: String::new() },
        };
        // effective (source key, address kind) of each built op, needed by `Lifted`
        let mut eff: Vec<(usize, Addr)> = vec![];
        for (i, spec) in case.pool.iter().enumerate() {
            let twin = match spec.twin_of {
                Some(t) if i > 0 => Some(pick_idx(t, i)),
                _ => None,
            };
            let mut deps = vec![];
            let copy = match (spec.copy_of, twin) {
                (Some(c), None) if i > 0 => Some(pick_idx(c, i)),
                _ => None,
            };
            let node: Node<Vec<u8>> = if let Some(j) = copy {
                deps = w.deps[j].clone();
                to_mirror(&w.ops[j]).crdt_op
            } else { match twin {
                Some(j) => {
                    let m = to_mirror(&w.ops[j]);
                    let mut v = vec![];
                    for c in &m.crdt_op.children {
                        v.extend_from_slice(c);
                    }
                    v.extend_from_slice(&m.crdt_op.value);
                    Node { children: BTreeSet::new(), value: v }
                }
                None => {
                    let mut children = BTreeSet::new();
                    for c in &spec.children {
                        match c {
                            Child::Earlier(x) if i > 0 => {
                                let j = pick_idx(*x, i);
                                children.insert(w.node_hash[j]);
                                if !deps.contains(&w.cid[j]) {
                                    deps.push(w.cid[j]);
                                }
                            }
                            Child::Earlier(_) => {}
                            Child::Dangling(b) => {
                                children.insert(dangling_hash(*b));
                            }
                        }
                    }
                    Node { children, value: value_bytes(spec.len, spec.seed) }
                }
            } };
            let mut source = w.idn.source_of(spec.source);
            let mut addr_kind = spec.addr;
            let mut honest;
            let mut forged_kind = "";
            let op = match (spec.sig, twin) {
                (Sig::Lifted, Some(j)) => {
                    let m = to_mirror(&w.ops[j]);
                    source = eff[j].0;
                    addr_kind = eff[j].1;
                    honest = false;
                    forged_kind = "lifted_to_hash_twin";
                    from_mirror(&OpMirror {
                        address: m.address,
                        crdt_op: node.clone(),
                        source: m.source,
                        signature: m.signature,
                    })
                }
                (Sig::Replayed(x), _) if i > 0 && w.node_hash[pick_idx(x, i)] != node.hash() => {
                    let j = pick_idx(x, i);
                    let m = to_mirror(&w.ops[j]);
                    source = eff[j].0;
                    addr_kind = eff[j].1;
                    honest = false;
                    forged_kind = "replayed_from_another_op";
                    from_mirror(&OpMirror {
                        address: m.address,
                        crdt_op: node.clone(),
                        source: m.source,
                        signature: m.signature,
                    })
                }
                (sig, _) => {
                    let address = w.idn.address_of(addr_kind);
                    honest = true;
                    let mut sign_key = source;
                    let mut sign_addr = address;
                    let mut sign_node = node.clone();
                    match sig {
                        Sig::Honest | Sig::Lifted | Sig::Replayed(_) => {}
                        Sig::ByKey(x) => {
                            sign_key = x as usize % NKEYS;
                            if sign_key != source {
                                honest = false;
                                forged_kind = "other_key";
                            }
                        }
                        Sig::OtherContent => {
                            sign_node.value.push(0x5a);
                            honest = false;
                            forged_kind = "other_content";
                        }
                        Sig::OtherAddr => {
                            sign_addr = if addr_kind == Addr::This {
                                w.idn.addr_other_meta
                            } else {
                                w.idn.addr
                            };
                            honest = false;
                            forged_kind = "other_address";
                        }
                    }
                    let signed = RegisterOp::new(sign_addr, sign_node, &k.sk[sign_key]);
                    if honest {
                        signed
                    } else {
                        let m = to_mirror(&signed);
                        from_mirror(&OpMirror {
                            address,
                            crdt_op: node.clone(),
                            source: k.pk[source],
                            signature: m.signature,
                        })
                    }
                }
            };
            // expectation, from the spec alone
            let mut reasons: Vec<String> = vec![];
            if node.value.len() > ENTRY_LIMIT {
                reasons.push("oversized".into());
            }
            if addr_kind != Addr::This {
                reasons.push("other_register".into());
            }
            let mut either = false;
            if w.idn.open {
                either = !honest;
            } else if !w.idn.permitted.contains(&source) {
                reasons.push("unauthorised_signer".into());
            } else if !honest {
                reasons.push(format!("forged_signature:{forged_kind}"));
            }
            let mut class = if !reasons.is_empty() {
                Class { zone: Zone::MustReject, reasons: reasons.join("+") }
            } else if either {
                Class { zone: Zone::Either, reasons: format!("open_register_forged_signature:{forged_kind}") }
            } else {
                w.valid_class.clone()
            };
            let bytes = op_bytes(&op);
            let cid = match w.by_bytes.get(&bytes) {
                Some(c) => *c,
                None => match w.q.as_ref().and_then(|q| q.by_bytes.get(&bytes)) {
                    Some(c) => *c,
                    None => {
                        w.by_bytes.insert(bytes, i);
                        i
                    }
                },
            };
            if cid != i {
                // byte-identical to an earlier op: it *is* that op
                class = w.class_of(cid).clone();
            }
            w.node_hash.push(node.hash());
            w.ops.push(op);
            w.cid.push(cid);
            w.class.push(class);
            w.deps.push(deps);
            eff.push((source, addr_kind));
        }
        w
    }

    fn op_of(&self, id: usize) -> &RegisterOp {
        if id >= Q_BASE {
            &self.q.as_ref().expect("prefill").ops[id - Q_BASE]
        } else {
            &self.ops[id]
        }
    }
    fn class_of(&self, id: usize) -> &Class {
        if id >= Q_BASE {
            &self.valid_class
        } else {
            &self.class[id]
        }
    }
    fn deps_of(&self, id: usize) -> &[usize] {
        if id >= Q_BASE {
            &[]
        } else {
            &self.deps[id]
        }
    }
    fn id_of(&self, op: &RegisterOp) -> Option<usize> {
        let b = op_bytes(op);
        self.by_bytes
            .get(&b)
            .or_else(|| self.q.as_ref().and_then(|q| q.by_bytes.get(&b)))
            .copied()
    }
    fn ids_of(&self, reg: &SignedRegister) -> Result<BTreeSet<usize>, String> {
        let mut out = BTreeSet::new();
        for op in reg.ops() {
            match self.id_of(op) {
                Some(i) => {
                    out.insert(i);
                }
                None => return Err(format!("{op:?}")),
            }
        }
        Ok(out)
    }
}

// ------------------------------------------------------------------------------------------------
// interpreter
// ------------------------------------------------------------------------------------------------

struct Rep {
    real: SignedRegister,
    have: BTreeSet<usize>,
    arrival: Vec<usize>,
    /// how the replica last grew while at or above the entry-count limit
    limit_cross: Option<&'static str>,
    /// ops that arrived while one of their dependencies was still missing
    waiting: Vec<(usize, usize)>,
}

#[derive(Default)]
struct Flags {
    rejected_invalid: bool,
    orphan_resolved: bool,
    limit_crossed: bool,
    count_refusal: bool,
}

struct Sim<'a> {
    w: &'a World,
    reps: Vec<Rep>,
    flags: Flags,
    either_outcome: BTreeMap<usize, bool>,
    /// verify() after every state change (cheap states only); always at merges and at the end
    eager_verify: bool,
}

fn fmt_ids(s: &BTreeSet<usize>) -> String {
    let v: Vec<String> = s
        .iter()
        .take(12)
        .map(|i| if *i >= Q_BASE { format!("q{}", i - Q_BASE) } else { format!("{i}") })
        .collect();
    format!("[{}{}]", v.join(","), if s.len() > 12 { ",…" } else { "" })
}

impl<'a> Sim<'a> {
    fn note_arrival(&mut self, ctx: &mut Ctx, r: usize, id: usize) {
        let w = self.w;
        let rep = &mut self.reps[r];
        if !rep.have.insert(id) {
            return;
        }
        rep.arrival.push(id);
        for d in w.deps_of(id) {
            if !rep.have.contains(d) {
                rep.waiting.push((id, *d));
            }
        }
        if rep.waiting.iter().any(|(_, d)| *d == id) {
            rep.waiting.retain(|(_, d)| *d != id);
            self.flags.orphan_resolved = true;
            ctx.label("dependency_arrived_after_dependent");
        }
    }

    fn closure_sig(&self, r: usize, e: &RegError) -> String {
        let rep = &self.reps[r];
        let len = rep.real.ops().len();
        match e {
            RegError::TooManyEntries(_) if len >= COUNT_LIMIT => match rep.limit_cross {
                Some("add_op") if len == COUNT_LIMIT => {
                    "closure_too_many_entries:reached_by_add_op_len_1024".into()
                }
                Some("add_op") => "closure_too_many_entries:reached_by_add_op_len_gt_1024".into(),
                Some("merge") => "closure_too_many_entries:reached_by_merge".into(),
                _ => "closure_too_many_entries:reached_otherwise".into(),
            },
            other => format!("closure_rejects_reached_state:{}", err_name(other)),
        }
    }

    /// the real replica must hold exactly the ops the model says; then closure
    fn check_state(&mut self, ctx: &mut Ctx, r: usize, how: &'static str, grew_by: Option<&'static str>) {
        let ids = self.w.ids_of(&self.reps[r].real);
        match ids {
            Err(op) => ctx.fail(
                "state_contains_unknown_op",
                format!("replica {r} after {how}: holds an op nobody delivered: {op}"),
            ),
            Ok(ids) => {
                if ids != self.reps[r].have {
                    let extra: BTreeSet<usize> = ids.difference(&self.reps[r].have).copied().collect();
                    let missing: BTreeSet<usize> = self.reps[r].have.difference(&ids).copied().collect();
                    ctx.fail(
                        format!("state_mismatch_after_{how}"),
                        format!(
                            "replica {r}: ops() differs from the set of ops it accepted: unexpected {} missing {}",
                            fmt_ids(&extra),
                            fmt_ids(&missing)
                        ),
                    );
                    // follow the real state so that one root cause is reported once
                    self.reps[r].have = ids;
                }
            }
        }
        let len = self.reps[r].real.ops().len();
        if let Some(by) = grew_by {
            if len >= COUNT_LIMIT {
                if self.reps[r].limit_cross.is_none() {
                    ctx.label(format!("limit_reached_by_{by}"));
                }
                self.reps[r].limit_cross = Some(by);
                self.flags.limit_crossed = true;
            }
            if self.eager_verify {
                self.verify_closure(ctx, r, how);
            }
        }
    }

    fn verify_closure(&mut self, ctx: &mut Ctx, r: usize, how: &str) {
        if let Err(e) = self.reps[r].real.verify() {
            let sig = self.closure_sig(r, &e);
            ctx.fail(
                sig,
                format!(
                    "replica {r} reached a state with {} entries through accepted ops/merges (last: {how}) that verify() rejects: {e}",
                    self.reps[r].real.ops().len()
                ),
            );
        }
    }

    fn deliver(&mut self, ctx: &mut Ctx, r: usize, id: usize) {
        let w = self.w;
        let op = w.op_of(id).clone();
        let class = w.class_of(id).clone();
        let before = self.reps[r].real.ops().len();
        let had = self.reps[r].have.contains(&id);
        let res = self.reps[r].real.add_op(op);
        let at_count_limit = before + 1 >= COUNT_LIMIT;
        let count_refusal = matches!(res, Err(RegError::TooManyEntries(_))) && at_count_limit;
        if count_refusal {
            self.flags.count_refusal = true;
            ctx.label("add_op_refused_at_count_limit");
        }
        match (class.zone, &res) {
            (Zone::MustReject, Ok(())) => {
                // one failure per reason: every one of these checks failed to stop the op
                for reason in class.reasons.split('+') {
                    ctx.fail(
                        format!("addop_accepts_invalid:{reason}"),
                        format!(
                            "add_op accepted op {id} ({}) on a replica with {before} entries; op = {:?}",
                            class.reasons,
                            w.op_of(id)
                        ),
                    );
                }
            }
            (Zone::MustReject, Err(_)) => {
                self.flags.rejected_invalid = true;
                ctx.label("invalid_op_rejected");
            }
            (Zone::MustAccept, Err(e)) if !count_refusal => ctx.precondition_failed(
                format!("addop_rejects_valid:{}", err_name(e)),
                format!(
                    "add_op refused valid op {id} on a replica with {before} entries: {e}; op = {:?}",
                    w.op_of(id)
                ),
            ),
            (Zone::Either, _) if !count_refusal => {
                let ok = res.is_ok();
                if let Some(prev) = self.either_outcome.insert(id, ok) {
                    if prev != ok {
                        ctx.fail(
                            "addop_inconsistent_for_same_op",
                            format!("op {id} ({}) accepted by one replica and refused by another", class.reasons),
                        );
                    }
                }
            }
            _ => {}
        }
        if had {
            ctx.label("duplicate_delivery");
        }
        let grew = res.is_ok() && !had;
        if res.is_ok() {
            self.note_arrival(ctx, r, id);
        }
        self.check_state(ctx, r, "add_op", if grew { Some("add_op") } else { None });
    }

    fn merge(&mut self, ctx: &mut Ctx, a: usize, b: usize, verified: bool) -> bool {
        let other = self.reps[b].real.clone();
        let other_arrival = self.reps[b].arrival.clone();
        let before = self.reps[a].real.ops().len();
        let res = if verified {
            self.reps[a].real.verified_merge(&other)
        } else {
            self.reps[a].real.merge(&other)
        };
        ctx.label(if verified { "replica_verified_merge" } else { "replica_merge" });
        let ok = res.is_ok();
        match res {
            Ok(()) => {
                for id in other_arrival {
                    self.note_arrival(ctx, a, id);
                }
            }
            Err(e) => {
                let union_len = self.reps[a].have.union(&self.reps[b].have).count();
                let other_valid = !verified || other.verify().is_ok();
                if other_valid && union_len >= COUNT_LIMIT && matches!(e, RegError::TooManyEntries(_)) {
                    // either-zone: a merge whose result would reach the entry-count limit may be
                    // refused (the state must stay unchanged, checked below)
                    self.flags.count_refusal = true;
                    ctx.label("merge_refused_at_count_limit");
                } else if verified && !other_valid {
                    // the other replica's state was reached through accepted ops and merges
                    let sig = self.closure_sig(b, &e);
                    ctx.fail(
                        sig,
                        format!(
                            "replica {a} verified_merge refuses the state of replica {b} ({} entries, reached through accepted ops/merges): {e}",
                            other.ops().len()
                        ),
                    );
                } else {
                    ctx.fail(
                        format!("merge_refused_same_base:{}", err_name(&e)),
                        format!("replica {a} {} of replica {b} (same base register) failed: {e}",
                            if verified { "verified_merge" } else { "merge" }),
                    );
                }
            }
        }
        let grew = self.reps[a].real.ops().len() > before;
        self.check_state(ctx, a, "merge", if grew { Some("merge") } else { None });
        ok
    }

    fn foreign(&mut self, ctx: &mut Ctx, a: usize, base: Base, ids: &BTreeSet<usize>, verified: bool) {
        let w = self.w;
        let (reg, sig) = w.idn.foreign_base(base);
        let ops: BTreeSet<RegisterOp> = ids.iter().map(|i| w.op_of(*i).clone()).collect();
        let other = SignedRegister::new(reg, sig, ops);
        let verified = verified || base == Base::Same;
        let before = self.reps[a].real.ops().len();
        let res = if verified {
            self.reps[a].real.verified_merge(&other)
        } else {
            self.reps[a].real.merge(&other)
        };
        let how = if verified { "verified_merge" } else { "merge" };
        if base != Base::Same {
            ctx.label("different_base_merge");
            if res.is_ok() {
                ctx.fail(
                    format!("merge_accepts_different_base:{base:?}"),
                    format!("replica {a}: {how} of a register with base {base:?} ({} ops) returned Ok", ids.len()),
                );
            }
        } else {
            let invalid: Vec<&usize> =
                ids.iter().filter(|i| w.class_of(**i).zone == Zone::MustReject).collect();
            let either = ids.iter().any(|i| w.class_of(*i).zone == Zone::Either);
            match (&res, invalid.first()) {
                (Ok(()), Some(_)) => {
                    // one failure per (invalid op, reason)
                    for i in &invalid {
                        for reason in w.class_of(**i).reasons.split('+') {
                            ctx.fail(
                                format!("verified_merge_accepts_invalid:{reason}"),
                                format!(
                                    "replica {a}: verified_merge accepted a same-base register holding invalid op {i} ({}): {:?}",
                                    w.class_of(**i).reasons,
                                    w.op_of(**i)
                                ),
                            );
                        }
                    }
                }
                (Err(_), Some(_)) => {
                    self.flags.rejected_invalid = true;
                    ctx.label("foreign_register_with_invalid_op_rejected");
                }
                (Err(RegError::TooManyEntries(_)), None)
                    if self.reps[a].have.union(ids).count() >= COUNT_LIMIT =>
                {
                    self.flags.count_refusal = true;
                    ctx.label("merge_refused_at_count_limit");
                }
                (Err(e), None) if !either => ctx.fail(
                    format!("verified_merge_rejects_valid_register:{}", err_name(e)),
                    format!(
                        "replica {a}: verified_merge refused a same-base register of {} valid ops {}: {e}",
                        ids.len(),
                        fmt_ids(ids)
                    ),
                ),
                (Ok(()), None) => ctx.label("foreign_valid_register_merged"),
                _ => {}
            }
        }
        if res.is_ok() {
            for id in ids {
                self.note_arrival(ctx, a, *id);
            }
        }
        let grew = self.reps[a].real.ops().len() > before;
        self.check_state(ctx, a, "foreign_merge", if grew { Some("merge") } else { None });
    }

    /// RegisterCrdt built by applying the given ops in the given order
    fn crdt(&self, order: &[usize]) -> (RegisterCrdt, usize) {
        let mut c = RegisterCrdt::new(self.w.idn.addr);
        let mut refused = 0;
        for id in order {
            if c.apply_op(self.w.op_of(*id).clone()).is_err() {
                refused += 1;
            }
        }
        (c, refused)
    }

    fn has_hash_twins(&self, have: &BTreeSet<usize>) -> bool {
        let mut seen: HashMap<[u8; 32], Node<Vec<u8>>> = HashMap::new();
        for id in have {
            if *id >= Q_BASE {
                continue;
            }
            let m = to_mirror(self.w.op_of(*id));
            let h = self.w.node_hash[*id];
            match seen.get(&h) {
                Some(n) if *n != m.crdt_op => return true,
                Some(_) => {}
                None => {
                    seen.insert(h, m.crdt_op);
                }
            }
        }
        false
    }
}

fn replica_count(case: &Case) -> usize {
    (case.replicas as usize).clamp(2, 3)
}

pub fn check(case: &Case, ctx: &mut Ctx) {
    let w = World::build(case);
    let n = replica_count(case);
    let prefilled = case.prefill.is_some();
    ctx.label(if w.idn.open { "perms_anyone" } else { "perms_writers" });
    ctx.label(format!("replicas_{n}"));
    for (i, c) in w.class.iter().enumerate() {
        if w.cid[i] != i {
            ctx.label("pool_op_identical_to_earlier");
            continue;
        }
        match c.zone {
            Zone::MustAccept => ctx.label("op_valid"),
            Zone::MustReject => ctx.label(format!("op_invalid:{}", c.reasons)),
            Zone::Either => ctx.label("op_either:open_register_forged_signature"),
        }
        if case.pool[i].twin_of.is_some() && i > 0 {
            ctx.label("op_hash_twin");
        }
        if case.pool[i].len as usize == ENTRY_LIMIT && case.pool[i].twin_of.is_none() {
            ctx.label("op_value_exactly_at_size_limit");
        }
        if !w.deps[i].is_empty() {
            ctx.label("op_with_dependencies");
        }
    }

    let mut sim = Sim {
        w: &w,
        reps: (0..n)
            .map(|_| Rep {
                real: w.idn.fresh(),
                have: BTreeSet::new(),
                arrival: vec![],
                limit_cross: None,
                waiting: vec![],
            })
            .collect(),
        flags: Flags::default(),
        either_outcome: BTreeMap::new(),
        eager_verify: w.idn.open || case.pool.len() <= 6,
    };

    // ---- prefill (near-limit mode): all through add_op
    if let (Some(p), Some(q)) = (&case.prefill, &w.q) {
        ctx.label("near_limit_mode");
        match &q.base {
            Err(e) => {
                ctx.precondition_failed("addop_rejects_valid:prefill", e.clone());
                return;
            }
            Ok(base) => {
                let eager = sim.eager_verify;
                sim.eager_verify = false;
                let shared = (p.shared as usize).clamp(Q_CACHED, COUNT_LIMIT - 1);
                for r in 0..n {
                    sim.reps[r].real = base.clone();
                    sim.reps[r].have = (0..Q_CACHED).map(|i| Q_BASE + i).collect();
                    sim.reps[r].arrival = (0..Q_CACHED).map(|i| Q_BASE + i).collect();
                    for i in Q_CACHED..shared {
                        sim.deliver(ctx, r, Q_BASE + i);
                    }
                    let (off, len) = p.own.get(r).copied().unwrap_or((0, 0));
                    let off = (off as usize).min(39);
                    let len = (len as usize).min(30);
                    for i in 0..len {
                        sim.deliver(ctx, r, Q_BASE + Q_OWN + off + i);
                    }
                }
                sim.eager_verify = eager;
                for r in 0..n {
                    sim.verify_closure(ctx, r, "prefill by add_op");
                }
            }
        }
    }

    // ---- the schedule
    let pool_n = case.pool.len();
    let cut = case.partition.map(|(iso, until)| (pick_idx(iso, n), until as usize));
    let mut dropped = false;
    let run_step = |sim: &mut Sim, ctx: &mut Ctx, idx: usize, step: &Step, dropped: &mut bool| match step {
        Step::Deliver { op, to } => {
            if pool_n > 0 {
                let i = pick_idx(*op, pool_n);
                sim.deliver(ctx, pick_idx(*to, n), w.cid[i]);
            }
        }
        Step::Merge { into, from, verified } => {
            // always another replica (x∪x is covered by the merge-law checks)
            let a = pick_idx(*into, n);
            let b = (a + 1 + pick_idx(*from, n - 1)) % n;
            if let Some((iso, until)) = cut {
                if idx < until && ((a == iso) != (b == iso)) {
                    *dropped = true;
                    ctx.label("merge_lost_to_partition");
                    return;
                }
            }
            sim.merge(ctx, a, b, *verified);
        }
        Step::Foreign { into, base, ops, verified } => {
            let ids: BTreeSet<usize> = if pool_n > 0 {
                ops.iter().map(|o| w.cid[pick_idx(*o, pool_n)]).collect()
            } else {
                BTreeSet::new()
            };
            sim.foreign(ctx, pick_idx(*into, n), *base, &ids, *verified);
        }
    };
    for (idx, step) in case.steps.iter().enumerate() {
        run_step(&mut sim, ctx, idx, step, &mut dropped);
    }

    // ---- merge laws on the (diverse) states reached so far
    check_laws(&sim, ctx, n);

    // ---- different delivery orders? (measured before the final sync as well as after)
    let mut different_orders = orders_differ(&sim.reps);

    // ---- final synchronisation
    let mut all_sync_merges_ok = true;
    match &case.sync {
        Sync::None => ctx.label("sync_none"),
        Sync::DeliverAll(seeds) => {
            ctx.label("sync_deliver_all");
            for r in 0..n {
                let mut order: Vec<usize> = (0..pool_n).collect();
                let seed = seeds.get(r).copied().unwrap_or(r as u32);
                order.shuffle(&mut ChaCha20Rng::seed_from_u64(0xC06_5EED ^ seed as u64));
                for i in order {
                    sim.deliver(ctx, r, w.cid[i]);
                }
            }
        }
        Sync::MergeAll { verified } => {
            ctx.label("sync_merge_all");
            for _round in 0..2 {
                for a in 0..n {
                    for b in 0..n {
                        if a != b {
                            all_sync_merges_ok &= sim.merge(ctx, a, b, *verified);
                        }
                    }
                }
            }
        }
    }
    different_orders |= orders_differ(&sim.reps);

    // ---- closure: every reached state is valid for every other replica
    for r in 0..n {
        sim.verify_closure(ctx, r, "end of schedule");
        // ... in particular for a replica that holds nothing yet and learns the state through a merge
        // (what a node does with a register fetched through replication): the union IS the reached state,
        // so the count-limit either-zone of merges between two diverged replicas does not apply
        if sim.reps[r].real.verify().is_ok() {
            for verified in [true, false] {
                let mut fresh = w.idn.fresh();
                let res = if verified { fresh.verified_merge(&sim.reps[r].real) } else { fresh.merge(&sim.reps[r].real) };
                match res {
                    Ok(()) => {
                        if fresh.ops() != sim.reps[r].real.ops() {
                            ctx.fail("merge_not_union", format!("an empty replica merged the reached state of replica {r} ({} entries) and holds {} entries", sim.reps[r].real.ops().len(), fresh.ops().len()));
                        }
                    }
                    Err(e) => {
                        ctx.label("reached_state_refused_by_empty_replica");
                        ctx.fail(
                            format!("closure_empty_replica_refuses_reached_state:{}", err_name(&e)),
                            format!("replica {r} reached a state of {} entries through accepted operations and merges, verify() accepts it, yet a replica holding nothing refuses to {} it: {e}", sim.reps[r].real.ops().len(), if verified { "verified_merge" } else { "merge" }),
                        );
                    }
                }
            }
            ctx.label_if(sim.reps[r].real.ops().len() >= COUNT_LIMIT, "reached_state_at_count_limit_offered_to_empty_replica");
        }
        let other = (r + 1) % n;
        let mut recv = sim.reps[other].real.clone();
        let before = recv.clone();
        match recv.verified_merge(&sim.reps[r].real) {
            Ok(()) => {
                let want: BTreeSet<usize> =
                    sim.reps[other].have.union(&sim.reps[r].have).copied().collect();
                if w.ids_of(&recv).ok() != Some(want) {
                    ctx.fail(
                        "merge_not_union",
                        format!("replica {other} verified_merge of replica {r}: result is not the union of both op sets"),
                    );
                }
            }
            Err(e) => {
                if recv != before {
                    ctx.fail(
                        "failed_merge_changed_state",
                        format!("replica {other}: refused verified_merge of replica {r} still changed the state"),
                    );
                }
                let union_len = sim.reps[other].have.union(&sim.reps[r].have).count();
                let valid = sim.reps[r].real.verify().is_ok();
                if !valid {
                    // already reported by verify_closure above
                } else if matches!(e, RegError::TooManyEntries(_)) && union_len >= COUNT_LIMIT {
                    ctx.label("merge_refused_at_count_limit");
                } else {
                    let sig = sim.closure_sig(r, &e);
                    ctx.fail(
                        sig,
                        format!("replica {other} refuses the reached state of replica {r} although verify() accepts it: {e}"),
                    );
                }
            }
        }
    }

    // ---- convergence: same accepted set => identical ops() and identical reads, in any order
    let near_count_limit = sim.reps.iter().any(|r| r.real.ops().len() + 1 >= COUNT_LIMIT)
        || sim.flags.count_refusal;
    let mut reads: Vec<BTreeSet<(ant_registers::EntryHash, Vec<u8>)>> = vec![];
    for r in 0..n {
        let set_order: Vec<usize> = match w.ids_of(&sim.reps[r].real) {
            Ok(_) => sim.reps[r].real.ops().iter().filter_map(|op| w.id_of(op)).collect(),
            Err(_) => vec![],
        };
        let rev: Vec<usize> = set_order.iter().rev().copied().collect();
        let (c_set, refused) = sim.crdt(&set_order);
        let (c_arr, _) = sim.crdt(&sim.reps[r].arrival);
        let (c_rev, _) = sim.crdt(&rev);
        if refused > 0 {
            ctx.label("state_holds_op_the_crdt_refuses");
        }
        let twins = sim.has_hash_twins(&sim.reps[r].have);
        if twins {
            ctx.label("replica_holds_hash_twins");
        }
        let suffix = if twins { ":hash_twin_ops" } else { "" };
        let same_arr = c_set.read() == c_arr.read() && c_set.size() == c_arr.size();
        let same_rev = c_set.read() == c_rev.read() && c_set.size() == c_rev.size();
        if !(same_arr && same_rev) {
            ctx.fail(
                format!("read_depends_on_application_order{suffix}"),
                format!(
                    "replica {r} holds {} ops; RegisterCrdt::read() after applying them in set order = {:?}, in arrival order = {:?}, in reverse set order = {:?}",
                    set_order.len(),
                    c_set.read(),
                    c_arr.read(),
                    c_rev.read()
                ),
            );
        }
        reads.push(c_arr.read());
    }
    for a in 0..n {
        for b in (a + 1)..n {
            if sim.reps[a].have == sim.reps[b].have {
                ctx.label("replica_pair_same_accepted_set");
                if sim.reps[a].real.ops() != sim.reps[b].real.ops() || sim.reps[a].real != sim.reps[b].real {
                    ctx.fail(
                        "same_accepted_set_different_ops",
                        format!("replicas {a} and {b} accepted the same ops but hold different ops()"),
                    );
                }
                if reads[a] != reads[b] {
                    let twins = sim.has_hash_twins(&sim.reps[a].have);
                    ctx.fail(
                        format!(
                            "converged_replicas_read_differently{}",
                            if twins { ":hash_twin_ops" } else { "" }
                        ),
                        format!(
                            "replicas {a} and {b} hold identical ops() but present {:?} vs {:?}",
                            reads[a], reads[b]
                        ),
                    );
                }
            } else {
                match &case.sync {
                    Sync::DeliverAll(_) if !prefilled && !near_count_limit && !ctx.failed() => ctx.fail(
                        "not_converged_after_same_deliveries",
                        format!(
                            "replicas {a} and {b} both received every pool op, far from the entry-count limit, but hold {} vs {}",
                            fmt_ids(&sim.reps[a].have),
                            fmt_ids(&sim.reps[b].have)
                        ),
                    ),
                    Sync::MergeAll { .. } if all_sync_merges_ok && !ctx.failed() => ctx.fail(
                        "not_converged_after_full_merge",
                        format!(
                            "two rounds of all-to-all merges succeeded but replicas {a} and {b} hold {} vs {}",
                            fmt_ids(&sim.reps[a].have),
                            fmt_ids(&sim.reps[b].have)
                        ),
                    ),
                    _ => {}
                }
            }
        }
    }

    // ---- accounting
    let unresolved = sim.reps.iter().any(|r| !r.waiting.is_empty());
    ctx.label_if(unresolved, "dependent_op_still_waiting_at_end");
    ctx.label_if(different_orders, "different_delivery_orders");
    ctx.label_if(dropped, "partitioned");
    ctx.label_if(sim.flags.limit_crossed, "limit_crossed");
    ctx.nontrivial_if(
        different_orders
            && (sim.flags.rejected_invalid
                || sim.flags.orphan_resolved
                || sim.flags.limit_crossed
                || sim.flags.count_refusal),
    );
    let mut zones = BTreeMap::new();
    for (i, c) in w.class.iter().enumerate() {
        if w.cid[i] == i {
            let k = match c.zone {
                Zone::MustAccept => "valid".to_string(),
                Zone::Either => "either".to_string(),
                Zone::MustReject => c.reasons.clone(),
            };
            *zones.entry(k).or_insert(0u32) += 1;
        }
    }
    ctx.sample = Some(json!({
        "owner": case.owner, "perms": format!("{:?}", case.perms), "replicas": n,
        "pool": zones, "steps": case.steps.len(), "sync": format!("{:?}", case.sync).chars().take(40).collect::<String>(),
        "prefill": prefilled,
        "final_sizes": sim.reps.iter().map(|r| r.real.ops().len()).collect::<Vec<_>>(),
        "first_steps": case.steps.iter().take(6).map(|s| format!("{s:?}")).collect::<Vec<_>>(),
    }));
}

/// do two replicas hold two common ops that arrived in a different relative order?
fn orders_differ(reps: &[Rep]) -> bool {
    for a in 0..reps.len() {
        for b in (a + 1)..reps.len() {
            let common: BTreeSet<usize> = reps[a].have.intersection(&reps[b].have).copied().collect();
            // compare only the tail that is not the shared prefill prefix
            let sa: Vec<usize> = reps[a].arrival.iter().filter(|i| common.contains(i)).copied().collect();
            let sb: Vec<usize> = reps[b].arrival.iter().filter(|i| common.contains(i)).copied().collect();
            if sa != sb {
                return true;
            }
        }
    }
    false
}

/// commutativity, associativity and idempotence of `merge` on the real replicas
fn check_laws(sim: &Sim, ctx: &mut Ctx, n: usize) {
    let w = sim.w;
    // Ok(result) | Err(true): refused in the count-limit either-zone | Err(false): failure reported
    let merged = |ctx: &mut Ctx, x: &SignedRegister, y: &SignedRegister, what: &str| -> Result<SignedRegister, bool> {
        let mut r = x.clone();
        match r.merge(y) {
            Ok(()) => Ok(r),
            Err(e) => {
                if &r != x {
                    ctx.fail(
                        "failed_merge_changed_state",
                        format!("{what}: refused merge still changed the state"),
                    );
                }
                let union_len = x.ops().union(y.ops()).count();
                if matches!(e, RegError::TooManyEntries(_)) && union_len >= COUNT_LIMIT {
                    ctx.label("merge_refused_at_count_limit");
                    return Err(true);
                }
                ctx.fail(
                    format!("merge_refused_same_base:{}", err_name(&e)),
                    format!("{what}: merge of two replicas of the same register failed: {e}"),
                );
                Err(false)
            }
        }
    };
    let empty = w.idn.fresh();
    for a in 0..n {
        let ra = &sim.reps[a].real;
        // idempotence: x ∪ x = x, x ∪ ∅ = x
        if let Ok(x) = merged(ctx, ra, ra, "x∪x") {
            if &x != ra {
                ctx.fail("merge_not_idempotent", format!("replica {a} merged with itself changed"));
            }
        }
        if let Ok(x) = merged(ctx, ra, &empty, "x∪∅") {
            if &x != ra {
                ctx.fail("merge_not_idempotent", format!("replica {a} merged with an empty replica changed"));
            }
        }
        for b in (a + 1)..n {
            let rb = &sim.reps[b].real;
            let ab = merged(ctx, ra, rb, "a∪b");
            let ba = merged(ctx, rb, ra, "b∪a");
            match (ab, ba) {
                (Ok(ab), Ok(ba)) => {
                    if ab.ops() != ba.ops() || ab != ba {
                        ctx.fail(
                            "merge_not_commutative",
                            format!("replicas {a},{b}: a∪b holds {} ops, b∪a holds {} ops", ab.ops().len(), ba.ops().len()),
                        );
                    }
                    let want: BTreeSet<usize> = sim.reps[a].have.union(&sim.reps[b].have).copied().collect();
                    if w.ids_of(&ab).ok() != Some(want) {
                        ctx.fail("merge_not_union", format!("replicas {a},{b}: a∪b is not the union of both op sets"));
                    }
                    if let Ok(abb) = merged(ctx, &ab, rb, "(a∪b)∪b") {
                        if abb != ab {
                            ctx.fail("merge_not_idempotent", format!("replicas {a},{b}: (a∪b)∪b differs from a∪b"));
                        }
                    }
                }
                (Ok(_), Err(true)) | (Err(true), Ok(_)) => ctx.fail(
                    "merge_not_commutative",
                    format!("replicas {a},{b}: one of a∪b / b∪a is refused at the count limit, the other succeeds"),
                ),
                _ => {}
            }
        }
    }
    // associativity over (r0, r1, r2 or a fresh replica)
    let r0 = &sim.reps[0].real;
    let r1 = &sim.reps[1].real;
    let r2 = if n >= 3 { &sim.reps[2].real } else { &empty };
    let left = merged(ctx, r0, r1, "a∪b").and_then(|x| merged(ctx, &x, r2, "(a∪b)∪c"));
    let right = merged(ctx, r1, r2, "b∪c").and_then(|y| merged(ctx, r0, &y, "a∪(b∪c)"));
    match (left, right) {
        (Ok(l), Ok(r)) => {
            if l.ops() != r.ops() || l != r {
                ctx.fail(
                    "merge_not_associative",
                    format!("(a∪b)∪c holds {} ops, a∪(b∪c) holds {} ops", l.ops().len(), r.ops().len()),
                );
            }
        }
        (Ok(_), Err(true)) | (Err(true), Ok(_)) => ctx.fail(
            "merge_not_associative",
            "one of (a∪b)∪c / a∪(b∪c) is refused at the count limit, the other succeeds".to_string(),
        ),
        _ => {}
    }
}

// ------------------------------------------------------------------------------------------------
// generators
// ------------------------------------------------------------------------------------------------

fn child_strategy() -> BoxedStrategy<Child> {
    prop_oneof![
        5 => Just(Child::Earlier(u16::MAX)),
        4 => any::<u16>().prop_map(Child::Earlier),
        1 => (0u8..4).prop_map(Child::Dangling),
    ]
    .boxed()
}

fn len_strategy() -> BoxedStrategy<u16> {
    prop_oneof![
        6 => 0u16..=40,
        3 => proptest::sample::select(vec![1023u16, 1024, 1025, 1100]),
        1 => 0u16..=1100,
    ]
    .boxed()
}

fn source_strategy() -> BoxedStrategy<Source> {
    prop_oneof![
        3 => Just(Source::Owner),
        4 => any::<u16>().prop_map(Source::Writer),
        3 => (0u8..NKEYS as u8).prop_map(Source::Key),
    ]
    .boxed()
}

fn sig_strategy() -> BoxedStrategy<Sig> {
    prop_oneof![
        14 => Just(Sig::Honest),
        2 => (0u8..NKEYS as u8).prop_map(Sig::ByKey),
        2 => Just(Sig::OtherContent),
        2 => Just(Sig::OtherAddr),
        2 => any::<u16>().prop_map(Sig::Replayed),
    ]
    .boxed()
}

fn addr_strategy() -> BoxedStrategy<Addr> {
    prop_oneof![
        17 => Just(Addr::This),
        2 => Just(Addr::OtherMeta),
        1 => Just(Addr::OtherOwner),
    ]
    .boxed()
}

fn op_strategy() -> BoxedStrategy<OpSpec> {
    let plain = (
        vec(child_strategy(), 0..=3),
        len_strategy(),
        prop_oneof![3 => 0u8..4, 1 => any::<u8>()],
        source_strategy(),
        sig_strategy(),
        addr_strategy(),
    )
        .prop_map(|(children, len, seed, source, sig, addr)| OpSpec {
            children,
            len,
            seed,
            source,
            sig,
            addr,
            twin_of: None,
            copy_of: None,
        });
    // a re-signed copy of an earlier op: identical node, own source / signature
    let copy = (any::<u16>(), source_strategy(), sig_strategy()).prop_map(|(c, source, sig)| OpSpec {
        children: vec![],
        len: 0,
        seed: 0,
        source,
        sig: if sig == Sig::Lifted { Sig::Honest } else { sig },
        addr: Addr::This,
        twin_of: None,
        copy_of: Some(c),
    });
    // hash twin of an earlier op: honestly signed by some source, or carrying the twin's signature
    let twin = (any::<u16>(), source_strategy(), any::<bool>()).prop_map(|(t, source, lifted)| OpSpec {
        children: vec![],
        len: 0,
        seed: 0,
        source,
        sig: if lifted { Sig::Lifted } else { Sig::Honest },
        addr: Addr::This,
        twin_of: Some(t),
        copy_of: None,
    });
    prop_oneof![12 => plain, 1 => twin, 2 => copy].boxed()
}

fn perms_strategy() -> BoxedStrategy<Perms> {
    prop_oneof![
        3 => Just(Perms::Anyone),
        7 => vec(0u8..NKEYS as u8, 0..=3).prop_map(Perms::Writers),
    ]
    .boxed()
}

fn step_strategy() -> BoxedStrategy<Step> {
    prop_oneof![
        14 => (any::<u16>(), any::<u16>()).prop_map(|(op, to)| Step::Deliver { op, to }),
        4 => (any::<u16>(), any::<u16>(), any::<bool>())
            .prop_map(|(into, from, verified)| Step::Merge { into, from, verified }),
        1 => (
            any::<u16>(),
            prop_oneof![
                2 => Just(Base::Same),
                1 => Just(Base::OtherMeta),
                1 => Just(Base::OtherOwner),
                1 => Just(Base::OtherPerms)
            ],
            vec(any::<u16>(), 0..=5),
            any::<bool>()
        )
            .prop_map(|(into, base, ops, verified)| Step::Foreign { into, base, ops, verified }),
    ]
    .boxed()
}

fn sync_strategy() -> BoxedStrategy<Sync> {
    prop_oneof![
        1 => Just(Sync::None),
        3 => vec(any::<u32>(), 3).prop_map(Sync::DeliverAll),
        2 => any::<bool>().prop_map(|verified| Sync::MergeAll { verified }),
    ]
    .boxed()
}

fn partition_strategy(max_steps: u16) -> BoxedStrategy<Option<(u16, u16)>> {
    prop_oneof![
        2 => Just(None),
        1 => (any::<u16>(), 0u16..=max_steps).prop_map(Some),
    ]
    .boxed()
}

/// Per-case switches (construction, not rejection): ops addressed to another register and hash
/// twins are only present in a minority of cases, so that most cases run clear of the findings
/// those two classes are known to hit.
fn restrict(mut pool: Vec<OpSpec>, other_addr: bool, twins: bool) -> Vec<OpSpec> {
    for op in pool.iter_mut() {
        if !other_addr {
            op.addr = Addr::This;
        }
        if !twins {
            op.twin_of = None;
            if op.sig == Sig::Lifted {
                op.sig = Sig::Honest;
            }
        }
    }
    pool
}

fn switches() -> BoxedStrategy<(bool, bool)> {
    (proptest::bool::weighted(0.3), proptest::bool::weighted(0.25)).boxed()
}

pub fn schedule_strategy() -> BoxedStrategy<Case> {
    (
        (0u8..NKEYS as u8, 0u8..4, perms_strategy(), 2u8..=3, switches()),
        vec(op_strategy(), 1..=30),
        vec(step_strategy(), 0..=60),
        partition_strategy(60),
        sync_strategy(),
    )
        .prop_map(|((owner, meta, perms, replicas, (oa, tw)), pool, steps, partition, sync)| Case {
            owner,
            meta,
            perms,
            pool: restrict(pool, oa, tw),
            replicas,
            partition,
            steps,
            sync,
            prefill: None,
        })
        .boxed()
}

/// near-limit mode: one fixed identity per permission setting (so the prefilled base replica is
/// built once per process), replicas start with 990..1023 shared entries plus private ones.
pub fn near_limit_strategy(writers_too: bool) -> BoxedStrategy<Case> {
    let perms = if writers_too {
        prop_oneof![15 => Just(Perms::Anyone), 1 => Just(Perms::Writers(vec![1]))].boxed()
    } else {
        Just(Perms::Anyone).boxed()
    };
    (
        (perms, 2u8..=3, switches()),
        vec(op_strategy(), 1..=12),
        vec(step_strategy(), 0..=40),
        partition_strategy(40),
        sync_strategy(),
        (
            prop_oneof![2 => 1010u16..=1023, 1 => 985u16..=1023],
            vec((0u16..40, prop_oneof![1 => Just(0u16), 3 => 0u16..=30]), 3),
            // 2 of 3 cases: every replica starts below the limit, so that the schedule itself
            // (deliveries, merges) does the crossing
            proptest::bool::weighted(0.67),
        )
            .prop_map(|(shared, own, below)| {
                let room = (COUNT_LIMIT as u16 - 2).saturating_sub(shared);
                let own = own
                    .into_iter()
                    .map(|(off, len)| (off, if below { len.min(room) } else { len }))
                    .collect::<Vec<_>>();
                (shared, own)
            }),
    )
        .prop_map(|((perms, replicas, (oa, tw)), pool, steps, partition, sync, (shared, own))| Case {
            owner: 0,
            meta: 0xEE,
            perms,
            pool: restrict(pool, oa, tw),
            replicas,
            partition,
            steps,
            sync,
            prefill: Some(Prefill { shared, own }),
        })
        .boxed()
}

pub fn run(cfg: RunCfg) {
    let mut rep = Report::new(cfg, "exploration");
    rep.rule = "C06: generated permissions x op pools (honest/unauthorised/forged/oversized/other-register/chained/dangling/hash-twin) x delivery+merge schedules over 2-3 real SignedRegister replicas; oracle = acceptance predicate from the statement + set-union model + verify()-closure + read() order independence.".into();
    rep.assumptions = vec![
        "entry size limit = 1024 bytes, entry-count limit = 1024 (the documented constants)".into(),
        "a valid op (in-limit, addressed to this register, honestly signed by a permitted key or register open) must be accepted while the replica holds fewer than 1023 entries; whether add_op admits the 1024th entry (TooManyEntries) is an explicit either-zone, the closure oracle decides the limit".into(),
        "an op with a forged signature delivered to a register that is open to anyone is an either-zone (the statement says both 'open to anyone' and 'forged signatures are rejected'); only consistency between replicas is required".into(),
        "a merge (between valid replicas) whose union would hold >= 1024 entries may be refused with TooManyEntries, symmetrically and without changing state; if it succeeds the resulting state falls under the closure oracle".into(),
        "an op whose address field names another register is 'against a different base register' and must be refused, also when the register is open".into(),
        "plain merge() is used only between honest replicas; adversarial same-base registers are only offered through verified_merge()".into(),
        "the owner is always a permitted writer (Register::new adds it); base registers are built with Register::new".into(),
        "a signature copied from op A onto a different node B with the same Merkle hash input is counted as forged (the signer never signed B)".into(),
        "64-bit collisions of the DefaultHasher used for the signed bytes are out of scope".into(),
    ];
    let thorough = rep.tier() == vh_core::Tier::Thorough;
    vh_core::section!(
        rep,
        "schedules",
        (600, 40_000),
        16,
        "pool 1-30 ops (other-register ops only in 30% of cases, hash twins only in 25%), 0-60 steps (deliver 74% / merge or verified_merge between replicas 21% / merge of a foreign same-base or different-base register 5%), optional partition (merges across the cut are lost), final sync (deliver-all in per-replica shuffles, or all-to-all merges). non-trivial: two replicas saw common ops in different orders AND (an invalid op was rejected OR a dependency arrived after its dependent OR the count limit was reached); distinct by whole case",
        schedule_strategy,
        check
    );
    vh_core::section!(
        rep,
        "near_limit",
        (48, 1_600),
        16,
        "fixed identity (open register; thorough: 1/16 writers-only), replicas prefilled by add_op with 990-1023 shared + 0-30 private valid entries, then pool <=12 ops and <=40 steps as above; crosses the 1024-entry limit by add_op and by merges. non-trivial as above",
        move || near_limit_strategy(thorough),
        check
    );
    vh_core::fuzz_section!(rep, "schedules", schedule_strategy, check, "sec_registers", "registers", 20_000, 300, 12);
    rep.finish();
}
