fn main() {
    vh_registers::main_entry()
}
