//! vh-registers: C06 — register replicas converge and accept only authorised writes.
mod c06;

fn main() {
    let cfg = vh_core::RunCfg::from_args();
    match cfg.prop.as_str() {
        "C06" => c06::run(cfg),
        other => {
            eprintln!("vh-registers: unknown property {other}");
            std::process::exit(2);
        }
    }
}
