//! vh-registers: C06 — register replicas converge and accept only authorised writes.
pub mod c06;

pub fn main_entry() {
    let cfg = vh_core::RunCfg::from_args();
    match cfg.prop.as_str() {
        "C06" => c06::run(cfg),
        other => {
            eprintln!("vh-registers: unknown property {other}");
            std::process::exit(2);
        }
    }
}

/// Sections that the coverage-guided campaigns of the thorough tier drive (`/verif/fuzz`).
pub fn fuzz_table() -> vh_core::secfuzz::Table {
    use vh_core::secfuzz::entry;
    vec![
        entry("C06", "schedules", c06::schedule_strategy, c06::check),
    ]
}
