//! The oracle of C18, written from the property statement. Every check is relational: it compares
//! what the public observation points (`get_all_addrs`/`peer_count`, the result of `load_cache_data`,
//! the raw JSON on disk) show before and after one operation.
//!
//! Where the limits apply and where "no loss" applies (the two sentences of the statement pull in
//! opposite directions, so the zones are made explicit):
//!  * limits (`max_peers`, `max_addrs_per_peer`) bind the in-memory store at all times, every
//!    `load_cache_data` result, and the file written by a flush *with* clean-up;
//!  * the file written by `sync_and_flush_to_disk(false)` is "the merge before clean-up": it is NOT
//!    bound by the limits; it must contain every address memory held, and every address of the file
//!    that clean-up has no licence to drop (the file is read through `load_cache_data`, whose
//!    clean-up is part of loading — sentence two itself says "apart from those clean-up removes");
//!  * clean-up has a licence to drop an address iff it is expired, has more failures than
//!    successes, or its peer / the cache is over a limit. Over a limit the statement does not say
//!    *which* entries go: everything of that peer (resp. every peer) is then an either-zone;
//!  * an address present on both sides with different counters: the statement does not define the
//!    merged counters, so it must survive a merge-with-clean-up only if it is keepable on both sides.

use crate::addrs::*;
use ant_bootstrap::{BootstrapCacheConfig, BootstrapCacheStore};
use libp2p::Multiaddr;
use std::collections::{BTreeMap, BTreeSet};
use std::time::SystemTime;
use vh_core::Ctx;

pub const SIG_OVERFLOW: &str = "panic:failure_rate_u32_sum_overflow";

/// Run `f`; a panic is a failure. The u32 `success_count + failure_count` overflow in
/// `BootstrapAddr::failure_rate` gets its own signature (it is a listed finding), every other panic
/// is `panic:<call site>`.
pub fn guard<R>(ctx: &mut Ctx, what: &str, f: impl FnOnce() -> R) -> Option<R> {
    match vh_core::catch_panic(f) {
        Ok(r) => Some(r),
        Err(msg) => {
            let sig = panic_sig(what, &msg);
            ctx.fail(sig, format!("{what}: {msg}"));
            None
        }
    }
}

pub fn panic_sig(what: &str, msg: &str) -> String {
    if msg.contains("ant-bootstrap/src/lib.rs") && msg.contains("attempt to add with overflow") {
        SIG_OVERFLOW.to_string()
    } else {
        format!("panic:{what}")
    }
}

pub fn snap_store(store: &BootstrapCacheStore) -> Snap {
    let now = SystemTime::now();
    let mut ents: Vec<Ent> = store.get_all_addrs().map(|a| ent_of(None, a, now)).collect();
    ents.sort();
    Snap {
        peers: store.peer_count(),
        ents,
        empty_keys: vec![],
    }
}

pub enum Loaded {
    Ok(Snap),
    NoFile,
    Err(String),
}

pub fn load(cfg: &BootstrapCacheConfig) -> Loaded {
    match BootstrapCacheStore::load_cache_data(cfg) {
        Ok(d) => {
            let now = SystemTime::now();
            let mut ents = vec![];
            for (k, v) in d.peers.iter() {
                for a in v.0.iter() {
                    ents.push(ent_of(Some(k), a, now));
                }
            }
            ents.sort();
            Loaded::Ok(Snap {
                peers: d.peers.len(),
                ents,
                empty_keys: vec![],
            })
        }
        Err(ant_bootstrap::Error::Io(e)) if e.kind() == std::io::ErrorKind::NotFound => Loaded::NoFile,
        Err(e) => Loaded::Err(format!("{e:?}")),
    }
}

pub fn read_raw(path: &std::path::Path) -> Option<Vec<u8>> {
    std::fs::read(path).ok()
}

pub fn parse_raw_bytes(bytes: &[u8]) -> Result<Snap, String> {
    let text = std::str::from_utf8(bytes).map_err(|e| format!("not UTF-8: {e}"))?;
    parse_raw(text, SystemTime::now())
}

// ------------------------------------------------------------------------------------------------
// classification of one entry
// ------------------------------------------------------------------------------------------------

pub fn must_go_unreliable(e: &Ent) -> bool {
    e.fail > e.succ
}
pub fn must_go_expired(e: &Ent, cfg: &Cfg) -> bool {
    e.age_s >= cfg.expiry_s() + GUARD_S
}
/// clean-up has no licence (expiry / reliability) to drop this entry
pub fn keepable(e: &Ent, cfg: &Cfg) -> bool {
    e.succ >= e.fail && e.age_s >= 0 && e.age_s <= cfg.expiry_s() - GUARD_S && e.succ <= SANE_COUNTER && e.fail <= SANE_COUNTER
}

// ------------------------------------------------------------------------------------------------
// invariants of a cache state
// ------------------------------------------------------------------------------------------------

pub struct Want {
    /// the state is the outcome of a clean-up: nothing expired, nothing with failures > successes
    pub clean: bool,
    /// addresses must be dialable + carry the peer id they are filed under
    pub wellformed: bool,
    /// limits apply
    pub bounded: bool,
}

pub fn check_state(ctx: &mut Ctx, at: &str, s: &Snap, cfg: &Cfg, want: Want) {
    let by_peer = s.by_peer();
    if want.bounded {
        let n = s.peers.max(by_peer.len());
        if n > cfg.max_peers {
            ctx.fail(format!("{at}:more_than_max_peers"), format!("{n} peers > max_peers {}: {}", cfg.max_peers, s.brief()));
        }
        for (k, v) in &by_peer {
            if v.len() > cfg.max_addrs {
                ctx.fail(
                    format!("{at}:more_than_max_addrs_per_peer"),
                    format!("peer {k} has {} addrs > max_addrs {}: {}", v.len(), cfg.max_addrs, s.brief()),
                );
                break;
            }
        }
    }
    if want.wellformed {
        for e in &s.ents {
            let parsed = e.addr.parse::<Multiaddr>();
            let Ok(addr) = parsed else {
                ctx.fail(format!("{at}:addr_unparseable"), format!("{e:?}"));
                continue;
            };
            if !structurally_dialable(&addr) {
                ctx.fail(format!("{at}:addr_not_dialable_with_peer_id"), format!("{e:?}"));
            } else if ant_bootstrap::craft_valid_multiaddr(&addr, false).as_ref() != Some(&addr) {
                ctx.fail(format!("{at}:addr_not_fixed_point_of_craft_valid_multiaddr"), format!("{e:?}"));
            } else if peer_of(&addr).map(|p| p.to_string()).as_deref() != Some(e.key.as_str()) {
                ctx.fail(format!("{at}:addr_filed_under_other_peer"), format!("{e:?}"));
            }
        }
        if s.ids().len() != s.ents.len() {
            ctx.fail(format!("{at}:duplicate_addr_in_peer"), s.brief());
        }
    }
    if want.clean {
        for e in &s.ents {
            if must_go_unreliable(e) {
                ctx.fail(format!("{at}:more_failures_than_successes_after_cleanup"), format!("{e:?}"));
            }
            if must_go_expired(e, cfg) {
                ctx.fail(format!("{at}:expired_after_cleanup"), format!("{e:?} expiry {}s", cfg.expiry_s()));
            }
        }
    }
}

// ------------------------------------------------------------------------------------------------
// "what clean-up must keep" of one side
// ------------------------------------------------------------------------------------------------

pub struct Keep {
    /// (key, addr) that have to survive
    pub addrs: BTreeSet<(String, String)>,
    /// the either-zones that were entered (for labels)
    pub over_peers: bool,
    pub over_addrs: bool,
    /// limit exceeded only when entries that must go anyway are counted (strict reading would keep)
    pub reading_differs: bool,
}

/// Entries of `s` that a clean-up under `cfg` has no licence to drop.
/// `also_keepable` restricts further (used for the both-sides rule of a merge).
pub fn must_keep(s: &Snap, cfg: &Cfg, also_keepable: &dyn Fn(&Ent) -> bool) -> Keep {
    let by_peer = s.by_peer();
    let mut keep = Keep {
        addrs: BTreeSet::new(),
        over_peers: false,
        over_addrs: false,
        reading_differs: false,
    };
    let total_peers = s.peers.max(by_peer.len());
    let live_peers = by_peer.values().filter(|v| v.iter().any(|e| keepable(e, cfg))).count();
    if total_peers > cfg.max_peers {
        keep.over_peers = true;
        if live_peers <= cfg.max_peers {
            keep.reading_differs = true;
        }
        return keep;
    }
    for (_k, v) in &by_peer {
        if v.len() > cfg.max_addrs {
            keep.over_addrs = true;
            if v.iter().filter(|e| keepable(e, cfg)).count() <= cfg.max_addrs {
                keep.reading_differs = true;
            }
            continue;
        }
        for e in v {
            if keepable(e, cfg) && also_keepable(e) {
                keep.addrs.insert((e.key.clone(), e.addr.clone()));
            }
        }
    }
    keep
}

fn report_lost(ctx: &mut Ctx, sig_addr: &str, sig_peer: &str, lost: &(String, String), after: &Snap, detail: &str) {
    let peer_gone = !after.ents.iter().any(|e| e.key == lost.0);
    let sig = if peer_gone { sig_peer } else { sig_addr };
    ctx.fail(sig, format!("lost {} of peer {} — {detail}", lost.1, lost.0));
}

// ------------------------------------------------------------------------------------------------
// per-operation checks
// ------------------------------------------------------------------------------------------------

/// `load_cache_data` returned `r` for a file whose raw content is `f`.
pub fn check_load(ctx: &mut Ctx, cfg: &Cfg, f: &Snap, f_dirt: Option<&str>, r: &Snap) {
    // nothing invented (file texts are compared in canonical form: "/tcp/0016" is "/tcp/16")
    let fid: BTreeSet<(String, String)> = f
        .ents
        .iter()
        .map(|e| {
            let canon = e.addr.parse::<Multiaddr>().map(|m| m.to_string()).unwrap_or_else(|_| e.addr.clone());
            (e.key.clone(), canon)
        })
        .collect();
    for id in r.ids() {
        if !fid.contains(&id) {
            ctx.fail("load:result_has_addr_not_in_file", format!("{id:?}; file: {}", f.brief()));
        }
    }
    check_state(
        ctx,
        "load",
        r,
        cfg,
        Want {
            clean: true,
            wellformed: f_dirt.is_none(),
            bounded: true,
        },
    );
    if f_dirt.is_none() {
        let keep = must_keep(f, cfg, &|_| true);
        ctx.label_if(keep.over_peers, "load_file_over_max_peers");
        ctx.label_if(keep.over_addrs, "load_file_peer_over_max_addrs");
        ctx.label_if(keep.reading_differs, "either_zone_limit_counts_droppable_entries");
        ctx.label_if(f.ents.iter().any(|e| must_go_expired(e, cfg)), "load_file_has_expired");
        ctx.label_if(f.ents.iter().any(must_go_unreliable), "load_file_has_unreliable");
        let rid = r.ids();
        for id in &keep.addrs {
            if !rid.contains(id) {
                report_lost(
                    ctx,
                    "load:lost_addr_cleanup_may_not_remove",
                    "load:lost_peer_cleanup_may_not_remove",
                    id,
                    r,
                    &format!("file: {} => loaded: {}", f.brief(), r.brief()),
                );
            }
        }
    }
}

pub struct FlushObs<'a> {
    pub with_cleanup: bool,
    pub mem: &'a Snap,
    /// raw file before, as read by the harness (None: no file, or the real loader rejected it)
    pub file: Option<&'a Snap>,
    /// file side cannot be judged (foreign content that the real loader accepted)
    pub file_dirt: Option<&'a str>,
    /// raw file after
    pub disk: &'a Snap,
}

pub fn check_flush(ctx: &mut Ctx, cfg: &Cfg, o: FlushObs) {
    let empty = Snap::default();
    let file = o.file.unwrap_or(&empty);
    let did = o.disk.ids();
    let mid = o.mem.ids();
    let fid = file.ids();
    let judged = o.file_dirt.is_none();

    // nothing invented
    if judged {
        for id in &did {
            if !mid.contains(id) && !fid.contains(id) {
                ctx.fail(
                    "flush:disk_has_addr_known_to_neither_side",
                    format!("{id:?}; memory: {}; file: {}", o.mem.brief(), file.brief()),
                );
            }
        }
    }
    let at = if o.with_cleanup { "flush_cleanup" } else { "flush_merge" };
    check_state(
        ctx,
        at,
        o.disk,
        cfg,
        Want {
            clean: o.with_cleanup,
            wellformed: judged,
            bounded: o.with_cleanup,
        },
    );

    let overlap_peer = o.mem.by_peer().keys().any(|k| file.ents.iter().any(|e| &e.key == k));
    let overlap_addr = mid.iter().any(|id| fid.contains(id));
    ctx.label_if(!o.mem.ents.is_empty() && !file.ents.is_empty(), "merge_both_sides_nonempty");
    ctx.label_if(overlap_peer, "merge_same_peer_both_sides");
    ctx.label_if(overlap_addr, "merge_same_addr_both_sides");

    if !o.with_cleanup {
        // memory side: no clean-up was asked for, nothing may go
        for id in &mid {
            if !did.contains(id) {
                report_lost(
                    ctx,
                    "merge:lost_memory_addr",
                    "merge:lost_memory_peer",
                    id,
                    o.disk,
                    &format!("memory: {}; file: {} => disk: {}", o.mem.brief(), file.brief(), o.disk.brief()),
                );
            }
        }
        if judged {
            let keep = must_keep(file, cfg, &|_| true);
            ctx.label_if(keep.over_peers, "merge_file_over_max_peers");
            ctx.label_if(keep.over_addrs, "merge_file_peer_over_max_addrs");
            ctx.label_if(keep.reading_differs, "either_zone_limit_counts_droppable_entries");
            ctx.label_if(!keep.addrs.is_empty() && !o.mem.ents.is_empty(), "merge_checked_both_sides");
            // the union legitimately exceeds a limit: the no-loss sentence wins for this file
            let union_peers: BTreeSet<&String> = o.mem.ents.iter().chain(file.ents.iter()).map(|e| &e.key).collect();
            ctx.label_if(union_peers.len() > cfg.max_peers, "merge_union_over_max_peers");
            for id in &keep.addrs {
                if !did.contains(id) {
                    report_lost(
                        ctx,
                        "merge:lost_file_addr",
                        "merge:lost_file_peer",
                        id,
                        o.disk,
                        &format!("memory: {}; file: {} => disk: {}", o.mem.brief(), file.brief(), o.disk.brief()),
                    );
                }
            }
        }
    } else if judged {
        // union, then one clean-up
        let mut union: BTreeMap<(String, String), Ent> = BTreeMap::new();
        for e in file.ents.iter().chain(o.mem.ents.iter()) {
            union.insert((e.key.clone(), e.addr.clone()), e.clone());
        }
        let u = Snap {
            peers: {
                let keys: BTreeSet<&String> = union.keys().map(|(k, _)| k).collect();
                keys.len().max(file.peers).max(o.mem.peers)
            },
            ents: union.values().cloned().collect(),
            empty_keys: vec![],
        };
        let both_ok = |e: &Ent| {
            let m = o.mem.get(&e.key, &e.addr);
            let f = file.get(&e.key, &e.addr);
            m.map(|x| keepable(x, cfg)).unwrap_or(true) && f.map(|x| keepable(x, cfg)).unwrap_or(true)
        };
        let keep = must_keep(&u, cfg, &both_ok);
        ctx.label_if(keep.over_peers, "flush_union_over_max_peers");
        ctx.label_if(keep.over_addrs, "flush_union_peer_over_max_addrs");
        ctx.label_if(keep.reading_differs, "either_zone_limit_counts_droppable_entries");
        ctx.label_if(!keep.addrs.is_empty() && !o.mem.ents.is_empty() && !file.ents.is_empty(), "flush_cleanup_checked_both_sides");
        for id in &keep.addrs {
            if !did.contains(id) {
                report_lost(
                    ctx,
                    "merge_cleanup:lost_addr_cleanup_may_not_remove",
                    "merge_cleanup:lost_peer_cleanup_may_not_remove",
                    id,
                    o.disk,
                    &format!("memory: {}; file: {} => disk: {}", o.mem.brief(), file.brief(), o.disk.brief()),
                );
            }
        }
    }
}

/// `perform_cleanup` on the in-memory store.
pub fn check_cleanup(ctx: &mut Ctx, cfg: &Cfg, before: &Snap, after: &Snap) {
    let bid = before.ids();
    for id in after.ids() {
        if !bid.contains(&id) {
            ctx.fail("cleanup:invented_addr", format!("{id:?}"));
        }
    }
    let keep = must_keep(before, cfg, &|_| true);
    let aid = after.ids();
    for id in &keep.addrs {
        if !aid.contains(id) {
            report_lost(
                ctx,
                "cleanup:lost_addr_cleanup_may_not_remove",
                "cleanup:lost_peer_cleanup_may_not_remove",
                id,
                after,
                &format!("before: {} => after: {}", before.brief(), after.brief()),
            );
        }
    }
    ctx.label_if(before.ents.iter().any(must_go_unreliable), "cleanup_had_unreliable");
}
