//! vh-bootstrap: checks over ant-bootstrap's on-disk peer cache (property C18). No hooks needed.
pub mod addrs;
pub mod c18;
pub mod corrupt;
pub mod history;
pub mod oracle;
pub mod stress;

pub fn main_entry() {
    // `PeersArgs::get_bootstrap_addr` reads this variable before it looks at the cache file
    std::env::remove_var("ANT_PEERS");
    let cfg = vh_core::RunCfg::from_args();
    match cfg.prop.as_str() {
        "C18" => c18::run(cfg),
        other => {
            eprintln!("vh-bootstrap: unknown property {other}");
            std::process::exit(2);
        }
    }
}

/// Sections that the coverage-guided campaigns of the thorough tier drive (`/verif/fuzz`).
pub fn fuzz_table() -> vh_core::secfuzz::Table {
    use vh_core::secfuzz::entry;
    vec![
        entry("C18", "history", history::strategy, history::check),
        entry("C18", "corrupt", corrupt::strategy, corrupt::check),
    ]
}
