//! Section "history": generated operation sequences against one real `BootstrapCacheStore` and one
//! cache file in a private directory, judged after every step by `oracle`.

use crate::addrs::*;
use crate::corrupt::{corrupt_strategy, CorruptFile};
use crate::oracle::*;
use ant_bootstrap::{BootstrapCacheStore, PeersArgs};
use libp2p::Multiaddr;
use proptest::prelude::*;
use serde::{Deserialize, Serialize};
use serde_json::json;
use vh_core::{pick_idx, Ctx};

#[derive(Clone, Debug, Serialize, Deserialize)]
pub enum Op {
    /// `add_addr` of pool address (peer, slot) rendered in `shape`
    Add { peer: u16, slot: u16, shape: Shape },
    /// `update_addr_status` ×times on a pool address in canonical form `form`
    UpdatePool { peer: u16, slot: u16, form: u8, ok: bool, times: u8 },
    /// `update_addr_status` ×times on the pick-th address currently in the store
    UpdatePresent { pick: u16, ok: bool, times: u8 },
    Cleanup,
    /// `sync_and_flush_to_disk(with_cleanup)`
    Flush { with_cleanup: bool },
    /// `sync_and_flush_to_disk(false)` while the cache path cannot be written (a directory lies in its
    /// place); the obstacle is removed and the file put back afterwards. A flush that fails must not lose
    /// what the store knew: the peers are in no file yet
    FailedFlush,
    /// `write()` followed by `load_cache_data` (save → load)
    Write,
    /// `load_cache_data` + the `PeersArgs::get_bootstrap_addr` reader
    Load,
    /// another node flushed: the file is replaced by one in the real format
    Plant(PlantedFile),
    /// the file is replaced by foreign / damaged content
    PlantCorrupt(CorruptFile),
    /// the driver's pattern at every save interval: a new empty store over the same path
    NewStore,
    /// `get_sorted_addrs`
    Sorted,
}

#[derive(Clone, Debug, Serialize, Deserialize)]
pub struct History {
    pub cfg: Cfg,
    /// pool size 3..=8
    pub n_peers: u8,
    pub ops: Vec<Op>,
}

fn op_strategy() -> BoxedStrategy<Op> {
    prop_oneof![
        40 => (any::<u16>(), any::<u16>(), shape_strategy()).prop_map(|(peer, slot, shape)| Op::Add { peer, slot, shape }),
        6 => (any::<u16>(), any::<u16>(), 0u8..=3, proptest::bool::weighted(0.35), 1u8..=4)
            .prop_map(|(peer, slot, form, ok, times)| Op::UpdatePool { peer, slot, form, ok, times }),
        12 => (any::<u16>(), proptest::bool::weighted(0.35), 1u8..=4).prop_map(|(pick, ok, times)| Op::UpdatePresent { pick, ok, times }),
        7 => Just(Op::Cleanup),
        13 => any::<bool>().prop_map(|with_cleanup| Op::Flush { with_cleanup }),
        3 => Just(Op::Write),
        3 => Just(Op::FailedFlush),
        6 => Just(Op::Load),
        11 => clean_file_strategy().prop_map(Op::Plant),
        3 => corrupt_strategy().prop_map(Op::PlantCorrupt),
        2 => Just(Op::NewStore),
        1 => Just(Op::Sorted),
    ]
    .boxed()
}

pub fn strategy() -> BoxedStrategy<History> {
    (cfg_strategy(), 3u8..=8, proptest::collection::vec(op_strategy(), 1..=60))
        .prop_map(|(cfg, n_peers, ops)| History { cfg, n_peers, ops })
        .boxed()
}

/// who produced the bytes currently at the cache path
#[derive(Clone, Copy, PartialEq, Eq, Debug)]
pub enum Prov {
    Absent,
    /// written by the real code, or planted in the real format with clean content
    Real,
    Foreign,
}

pub struct World {
    pub cfg: Cfg,
    pub n_peers: usize,
    pub dir: tempfile::TempDir,
    pub path: std::path::PathBuf,
    pub real_cfg: ant_bootstrap::BootstrapCacheConfig,
    pub prov: Prov,
}

impl World {
    pub fn new(cfg: &Cfg, n_peers: usize) -> World {
        let dir = case_dir(false);
        let path = dir.path().join("cache").join("bootstrap_cache_test.json");
        let real_cfg = cfg.real(&path);
        World {
            cfg: cfg.clone(),
            n_peers,
            dir,
            path,
            real_cfg,
            prov: Prov::Absent,
        }
    }

    pub fn n_pool(&self) -> usize {
        self.n_peers + FILE_ONLY_PEERS
    }

    pub fn plant_bytes(&mut self, bytes: &[u8], prov: Prov) {
        if let Some(parent) = self.path.parent() {
            let _ = std::fs::create_dir_all(parent);
        }
        std::fs::write(&self.path, bytes).expect("plant file");
        self.prov = prov;
    }

    /// The file as the harness reads it: (raw snapshot if it is in the documented format, dirt)
    pub fn observe_file(&self) -> (Option<Snap>, Option<&'static str>) {
        match read_raw(&self.path) {
            None => (None, None),
            Some(bytes) => match parse_raw_bytes(&bytes) {
                Ok(s) => {
                    let d = snap_dirt(&s);
                    (Some(s), d)
                }
                Err(_) => (None, Some("not_in_documented_format")),
            },
        }
    }

    /// `load_cache_data`, judged against the raw file. Returns false if a panic stopped the case.
    pub fn do_load(&mut self, ctx: &mut Ctx, label: &str) -> bool {
        let (raw, dirt) = self.observe_file();
        let real_cfg = self.real_cfg.clone();
        let Some(res) = guard(ctx, "load_cache_data", || load(&real_cfg)) else {
            return false;
        };
        match (&res, &raw) {
            (Loaded::Ok(r), Some(f)) => {
                ctx.label(format!("{label}_ok"));
                ctx.label_if(dirt.is_some(), "load_ok_on_foreign_content");
                check_load(ctx, &self.cfg, f, dirt, r);
            }
            (Loaded::Ok(r), None) => {
                // the real loader accepted what the harness's reader does not recognise: only the
                // claims that need no view of the file apply
                ctx.label("harness_reader_stricter_than_loader");
                check_state(
                    ctx,
                    "load",
                    r,
                    &self.cfg,
                    Want {
                        clean: true,
                        wellformed: false,
                        bounded: true,
                    },
                );
            }
            (Loaded::NoFile, _) => {
                ctx.label(format!("{label}_no_file"));
                if self.prov != Prov::Absent {
                    ctx.fail("load:file_reported_missing", format!("prov {:?}", self.prov));
                }
            }
            (Loaded::Err(e), f) => {
                ctx.label(format!("{label}_err"));
                if self.prov == Prov::Real {
                    ctx.fail(
                        "load:err_on_file_in_real_format",
                        format!("{e}; file: {}", f.as_ref().map(|s| s.brief()).unwrap_or_default()),
                    );
                }
            }
        }
        true
    }

    /// The reader used at start-up (`PeersArgs::get_bootstrap_addr` with everything but the cache
    /// switched off): must not crash; what it returns must come from the file and be clean.
    pub fn do_reader(&mut self, ctx: &mut Ctx) -> bool {
        let (raw, dirt) = self.observe_file();
        let real_cfg = self.real_cfg.clone();
        let args = PeersArgs {
            first: false,
            addrs: vec![],
            network_contacts_url: vec![],
            local: false,
            disable_mainnet_contacts: true,
            ignore_cache: false,
            bootstrap_cache_dir: None,
        };
        let Some(res) = guard(ctx, "PeersArgs::get_bootstrap_addr", || {
            RT.with(|rt| rt.block_on(args.get_bootstrap_addr(Some(real_cfg), None)))
        }) else {
            return false;
        };
        if let (Ok(list), Some(f), None) = (&res, &raw, dirt) {
            let now = std::time::SystemTime::now();
            for a in list {
                let e = ent_of(None, a, now);
                if !f.ents.iter().any(|x| x.addr == e.addr) {
                    ctx.fail("reader:addr_not_in_file", format!("{e:?}"));
                }
                if must_go_unreliable(&e) || must_go_expired(&e, &self.cfg) {
                    ctx.fail("reader:returned_addr_cleanup_must_remove", format!("{e:?}"));
                }
            }
        }
        true
    }

    /// `sync_and_flush_to_disk`, judged against memory + raw file before and raw file after.
    pub fn do_flush(&mut self, ctx: &mut Ctx, store: &mut BootstrapCacheStore, with_cleanup: bool) -> bool {
        let mem = snap_store(store);
        let (raw, dirt) = self.observe_file();
        // would the real loader take the file? (a pure read; it also decides "ignored")
        let real_cfg = self.real_cfg.clone();
        let Some(pre) = guard(ctx, "load_cache_data", || load(&real_cfg)) else {
            return false;
        };
        let Some(res) = guard(ctx, "sync_and_flush_to_disk", || store.sync_and_flush_to_disk(with_cleanup)) else {
            return false;
        };
        if let Err(e) = res {
            ctx.fail("flush:returned_err", format!("{e:?}"));
            return false;
        }
        let after = read_raw(&self.path);
        let disk = match after.as_deref().map(parse_raw_bytes) {
            Some(Ok(s)) => s,
            Some(Err(e)) => {
                ctx.fail("flush:written_file_not_in_documented_format", e);
                return false;
            }
            None => {
                ctx.fail("flush:no_file_after_flush", "");
                return false;
            }
        };
        // which file side applies
        let (file, file_dirt): (Option<&Snap>, Option<&str>) = match (&pre, &raw) {
            (Loaded::Ok(_), Some(f)) => (Some(f), dirt),
            (Loaded::Ok(_), None) => (None, Some("loader_accepted_unrecognised_file")),
            // rejected or absent: "ignored"
            _ => (None, None),
        };
        if matches!(pre, Loaded::Err(_)) {
            ctx.label("flush_over_rejected_file");
            if self.prov == Prov::Real {
                ctx.fail("load:err_on_file_in_real_format", "before flush".to_string());
            }
        }
        ctx.label(if with_cleanup { "flush_with_cleanup" } else { "flush_without_cleanup" });
        if mem.ents.iter().any(must_go_unreliable) {
            ctx.label(if with_cleanup { "flush_cleanup_memory_had_unreliable" } else { "flush_merge_memory_had_unreliable" });
        }
        if file.is_some() && file_dirt.is_none() && self.prov == Prov::Real {
            ctx.label("merge_with_real_format_file");
        }
        ctx.label_if(file_dirt.is_some(), "flush_over_foreign_content_not_judged");
        check_flush(
            ctx,
            &self.cfg,
            FlushObs {
                with_cleanup,
                mem: &mem,
                file,
                file_dirt,
                disk: &disk,
            },
        );
        // "the next flush replaces it with a loadable file"
        let was_foreign = self.prov == Prov::Foreign;
        self.prov = if file_dirt.is_some() { Prov::Foreign } else { Prov::Real };
        let real_cfg = self.real_cfg.clone();
        let Some(post) = guard(ctx, "load_cache_data", || load(&real_cfg)) else {
            return false;
        };
        match post {
            Loaded::Ok(r) => {
                ctx.label_if(was_foreign, "foreign_file_replaced_by_loadable_one");
                let d = snap_dirt(&disk);
                check_load(ctx, &self.cfg, &disk, d, &r);
            }
            Loaded::NoFile => ctx.fail("flush:no_file_after_flush", "load says NotFound"),
            Loaded::Err(e) => ctx.fail("flush:file_after_flush_does_not_load", e),
        }
        true
    }
}

thread_local! {
    static RT: tokio::runtime::Runtime = tokio::runtime::Builder::new_current_thread()
        .enable_time()
        .build()
        .expect("tokio runtime");
}

fn mem_state(ctx: &mut Ctx, cfg: &Cfg, store: &BootstrapCacheStore, clean: bool) -> Snap {
    let s = snap_store(store);
    check_state(
        ctx,
        "memory",
        &s,
        cfg,
        Want {
            clean,
            wellformed: true,
            bounded: true,
        },
    );
    s
}

/// A reported success must count as a success and a reported failure as a failure (the statement's
/// "more failures than successes" is about what was reported): compare the counters of `addr` before and
/// after `n` reports of `ok`. Counters that would pass u32::MAX are left alone (the code resets them).
fn judge_counters(ctx: &mut Ctx, before: &Snap, after: &Snap, addr: &str, ok: bool, n: u64) {
    let (Some(b), Some(a)) = (before.ents.iter().find(|e| e.addr == addr), after.ents.iter().find(|e| e.addr == addr)) else { return };
    if b.succ + n > u32::MAX as u64 || b.fail + n > u32::MAX as u64 {
        return;
    }
    let (want_s, want_f) = if ok { (b.succ + n, b.fail) } else { (b.succ, b.fail + n) };
    if (a.succ, a.fail) != (want_s, want_f) {
        ctx.fail(
            "update:reported_outcome_counted_wrongly",
            format!("{n} report(s) of {} for {addr}: successes {} -> {}, failures {} -> {} (expected {want_s} / {want_f})", if ok { "success" } else { "failure" }, b.succ, a.succ, b.fail, a.fail),
        );
    }
}

pub fn check(case: &History, ctx: &mut Ctx) {
    let cfg = &case.cfg;
    let n_peers = (case.n_peers as usize).clamp(1, 8);
    let mut w = World::new(cfg, n_peers);
    let real_cfg = w.real_cfg.clone();
    let Some(Ok(mut store)) = guard(ctx, "BootstrapCacheStore::new", || BootstrapCacheStore::new(real_cfg)) else {
        ctx.fail("store:new_failed", "");
        return;
    };
    let mut rendered: Vec<String> = vec![];
    let mut merges_with_planted = 0u32;
    let mut failed_flushes_with_peers = 0usize;
    let mut limit_hits = 0u32;
    let mut planted_since_flush = false;

    for op in &case.ops {
        if ctx.failed() {
            break;
        }
        match op {
            Op::Add { peer, slot, shape } => {
                let p = pick_idx(*peer, n_peers);
                let s = pick_idx(*slot, SLOTS);
                let addr = build_addr(*shape, p, s, n_peers);
                rendered.push(format!("add {addr}"));
                let before = snap_store(&store);
                if guard(ctx, "add_addr", || store.add_addr(addr.clone())).is_none() {
                    break;
                }
                let after = mem_state(ctx, cfg, &store, false);
                // nothing invented: a new entry is made of protocols of the input
                let bid = before.ids();
                let fresh: Vec<&Ent> = after.ents.iter().filter(|e| !bid.contains(&(e.key.clone(), e.addr.clone()))).collect();
                if fresh.len() > 1 {
                    ctx.fail("add:more_than_one_new_addr", format!("{fresh:?}"));
                }
                for e in &fresh {
                    let ok = e
                        .addr
                        .parse::<Multiaddr>()
                        .map(|m| m.iter().all(|pr| addr.iter().any(|q| q == pr)))
                        .unwrap_or(false);
                    if !ok {
                        ctx.fail("add:new_addr_not_made_of_input_protocols", format!("input {addr} => {e:?}"));
                    }
                }
                let canonical = CANONICAL.contains(shape) || *shape == Shape::WsPathP2p;
                ctx.label(if canonical { "add_canonical_shape" } else { "add_odd_shape" });
                if !fresh.is_empty() {
                    ctx.label(if canonical { "add_stored" } else { "add_odd_shape_stored_after_crafting" });
                } else if !canonical {
                    ctx.label("add_odd_shape_not_stored");
                }
                // limit pressure (labels only: which entry makes room is not specified)
                let new_peer = !before.ents.iter().any(|e| e.key == peer_id(p).to_string());
                if canonical && new_peer && before.peers >= cfg.max_peers {
                    ctx.label("limit_hit_max_peers_on_add");
                    limit_hits += 1;
                }
                if canonical && !new_peer && before.ents.iter().filter(|e| e.key == peer_id(p).to_string()).count() >= cfg.max_addrs {
                    ctx.label("limit_hit_max_addrs_on_add");
                    limit_hits += 1;
                }
            }
            Op::UpdatePool { peer, slot, form, ok, times } => {
                let p = pick_idx(*peer, n_peers);
                let s = pick_idx(*slot, SLOTS);
                let addr = build_addr(CANONICAL[(*form as usize).min(3)], p, s, n_peers);
                rendered.push(format!("update {addr} ok={ok} x{times}"));
                let before = snap_store(&store);
                for _ in 0..(*times).min(8) {
                    if guard(ctx, "update_addr_status", || store.update_addr_status(&addr, *ok)).is_none() {
                        return;
                    }
                }
                let after = mem_state(ctx, cfg, &store, false);
                if before.ids() != after.ids() {
                    ctx.fail("update:changed_the_set_of_addrs", format!("{} => {}", before.brief(), after.brief()));
                }
                judge_counters(ctx, &before, &after, &addr.to_string(), *ok, (*times).min(8) as u64);
            }
            Op::UpdatePresent { pick, ok, times } => {
                let before = snap_store(&store);
                if before.ents.is_empty() {
                    rendered.push("update <nothing present>".into());
                    continue;
                }
                let e = &before.ents[pick_idx(*pick, before.ents.len())];
                let Ok(addr) = e.addr.parse::<Multiaddr>() else { continue };
                rendered.push(format!("update {addr} ok={ok} x{times}"));
                for _ in 0..(*times).min(8) {
                    if guard(ctx, "update_addr_status", || store.update_addr_status(&addr, *ok)).is_none() {
                        return;
                    }
                }
                let after = mem_state(ctx, cfg, &store, false);
                if before.ids() != after.ids() {
                    ctx.fail("update:changed_the_set_of_addrs", format!("{} => {}", before.brief(), after.brief()));
                }
                judge_counters(ctx, &before, &after, &e.addr, *ok, (*times).min(8) as u64);
                ctx.label(if *ok { "update_success" } else { "update_failure" });
            }
            Op::Cleanup => {
                rendered.push("cleanup".into());
                let before = snap_store(&store);
                if guard(ctx, "perform_cleanup", || store.perform_cleanup()).is_none() {
                    break;
                }
                let after = mem_state(ctx, cfg, &store, true);
                check_cleanup(ctx, cfg, &before, &after);
                ctx.label_if(after.ents.len() < before.ents.len(), "cleanup_removed_something");
            }
            Op::Flush { with_cleanup } => {
                rendered.push(format!("sync_and_flush_to_disk({with_cleanup})"));
                let (raw, dirt) = w.observe_file();
                let mem_nonempty = store.peer_count() > 0;
                let file_nonempty = raw.as_ref().map(|s| !s.ents.is_empty()).unwrap_or(false);
                if planted_since_flush && dirt.is_none() && mem_nonempty && file_nonempty {
                    merges_with_planted += 1;
                    ctx.label("merge_against_planted_file_both_nonempty");
                    // a limit is in play for this merge
                    if let Some(f) = &raw {
                        let peers: std::collections::BTreeSet<String> =
                            f.ents.iter().map(|e| e.key.clone()).chain(snap_store(&store).ents.iter().map(|e| e.key.clone())).collect();
                        if peers.len() > cfg.max_peers || f.by_peer().values().any(|v| v.len() > cfg.max_addrs) {
                            limit_hits += 1;
                            ctx.label("limit_hit_in_merge");
                        }
                    }
                }
                planted_since_flush = false;
                if !w.do_flush(ctx, &mut store, *with_cleanup) {
                    break;
                }
                mem_state(ctx, cfg, &store, false);
            }
            Op::FailedFlush => {
                rendered.push("sync_and_flush_to_disk(false) with the cache path obstructed".into());
                let mem = snap_store(&store);
                // put the present file aside and a directory in its place
                let aside = w.path.with_extension("aside");
                let had_file = std::fs::rename(&w.path, &aside).is_ok();
                let obstructed = std::fs::create_dir_all(&w.path).is_ok();
                let res = if obstructed { guard(ctx, "sync_and_flush_to_disk", || store.sync_and_flush_to_disk(false)) } else { None };
                let _ = std::fs::remove_dir_all(&w.path);
                if had_file {
                    let _ = std::fs::rename(&aside, &w.path);
                }
                let Some(res) = res else { break };
                match res {
                    Ok(()) => {
                        // claims to have flushed although the path was a directory: where to is unknown, nothing is judged
                        ctx.label("obstructed_flush_reported_ok");
                        break;
                    }
                    Err(_) => {
                        ctx.label("flush_failed_on_obstructed_path");
                        ctx.label_if(!mem.ents.is_empty(), "flush_failed_with_peers_in_memory");
                        let after = snap_store(&store);
                        let (have, want) = (after.ids(), mem.ids());
                        if let Some(id) = want.iter().find(|id| !have.contains(*id)) {
                            ctx.fail(
                                "failed_flush:lost_memory_addr",
                                format!("the flush returned an error (path obstructed) and afterwards the store no longer knows {id:?}, which is in no file either; memory before: {}; after: {}", mem.brief(), after.brief()),
                            );
                            break;
                        }
                        failed_flushes_with_peers += !mem.ents.is_empty() as usize;
                    }
                }
            }
            Op::Write => {
                rendered.push("write + load".into());
                let mem = snap_store(&store);
                let Some(res) = guard(ctx, "write", || store.write()) else { break };
                if let Err(e) = res {
                    ctx.fail("write:returned_err", format!("{e:?}"));
                    break;
                }
                w.prov = Prov::Real;
                planted_since_flush = false;
                match w.observe_file() {
                    (Some(disk), _) => {
                        if disk.ids() != mem.ids() {
                            ctx.fail(
                                "save:written_file_differs_from_memory",
                                format!("memory: {} => disk: {}", mem.brief(), disk.brief()),
                            );
                        }
                    }
                    _ => ctx.fail("save:written_file_not_in_documented_format", ""),
                }
                ctx.label_if(!mem.ents.is_empty(), "save_load_nonempty");
                ctx.label_if(mem.ents.iter().any(must_go_unreliable), "save_load_with_unreliable");
                if !w.do_load(ctx, "save_load") {
                    break;
                }
            }
            Op::Load => {
                rendered.push("load".into());
                if !w.do_load(ctx, "load") || !w.do_reader(ctx) {
                    break;
                }
            }
            Op::Plant(f) => {
                let text = render_planted(f, cfg, n_peers, std::time::SystemTime::now());
                let snap = parse_raw(&text, std::time::SystemTime::now());
                // the taint decision is made on the rendered content, not on where the case came from
                let clean = matches!(&snap, Ok(s) if snap_dirt(s).is_none());
                rendered.push(format!(
                    "plant {}",
                    snap.as_ref().map(|s| s.brief()).unwrap_or_else(|e| format!("<{e}>"))
                ));
                w.plant_bytes(text.as_bytes(), if clean { Prov::Real } else { Prov::Foreign });
                planted_since_flush = clean;
                ctx.label(if clean { "plant_real_format" } else { "plant_foreign" });
            }
            Op::PlantCorrupt(c) => {
                let bytes = c.render(cfg, n_peers);
                rendered.push(format!("plant-corrupt {}", c.kind()));
                ctx.label(format!("corrupt_{}", c.kind()));
                w.plant_bytes(&bytes, Prov::Foreign);
                planted_since_flush = false;
            }
            Op::NewStore => {
                rendered.push("new store".into());
                let real_cfg = w.real_cfg.clone();
                match guard(ctx, "BootstrapCacheStore::new", || BootstrapCacheStore::new(real_cfg)) {
                    Some(Ok(s)) => store = s,
                    Some(Err(e)) => ctx.fail("store:new_failed", format!("{e:?}")),
                    None => break,
                }
            }
            Op::Sorted => {
                rendered.push("get_sorted_addrs".into());
                let mem = snap_store(&store);
                let Some(sorted) = guard(ctx, "get_sorted_addrs", || store.get_sorted_addrs().map(|a| a.to_string()).collect::<Vec<_>>()) else {
                    break;
                };
                for a in &sorted {
                    if !mem.ents.iter().any(|e| &e.addr == a) {
                        ctx.fail("sorted:addr_not_in_store", a.clone());
                    }
                }
            }
        }
    }

    // non-triviality (DESIGN §3 C18): a merge against a planted file and a limit hit
    ctx.nontrivial_if(merges_with_planted > 0 && limit_hits > 0);
    ctx.label_if(merges_with_planted > 0, "history_has_merge_with_planted_file");
    ctx.label_if(failed_flushes_with_peers > 0, "history_has_failed_flush_with_peers_in_memory");
    ctx.label_if(limit_hits > 0, "history_has_limit_hit");
    let shown: Vec<&String> = rendered.iter().take(14).collect();
    ctx.sample = Some(json!({
        "cfg": {"max_peers": cfg.max_peers, "max_addrs": cfg.max_addrs, "expiry_h": cfg.expiry_h},
        "pool_peers": n_peers,
        "ops": rendered.len(),
        "first_ops": shown,
    }));
}
