//! C18 — bootstrap cache stays bounded, well-formed and atomically persisted.

use crate::addrs::Cfg;
use crate::{corrupt, history, stress};
use serde_json::{json, Value};
use std::time::Instant;
use vh_core::{stable_hash, Ctx, Report, RunCfg, SectionStats, Tier};

fn replay_doc(cfg: &RunCfg) -> Option<Value> {
    let p = cfg.replay.as_ref()?;
    let txt = std::fs::read_to_string(p).ok()?;
    serde_json::from_str(&txt).ok()
}

fn wants(cfg: &RunCfg, name: &str) -> bool {
    match &cfg.only {
        Some(o) => name.contains(o.as_str()),
        None => true,
    }
}

pub fn run(cfg: RunCfg) {
    let tier = cfg.tier;
    let scale = cfg.scale;
    let run_cfg = cfg.clone();
    let mut rep = Report::new(cfg, "exploration");
    rep.rule = "C18: operation histories over a real BootstrapCacheStore + one cache file in a private directory; \
        the other side of merges, expiry and counters are driven by planting files in the real on-disk format \
        with last_seen moved into the past; every step is judged relationally (state before / after, as seen \
        through get_all_addrs/peer_count, load_cache_data and the raw JSON)."
        .into();
    rep.assumptions = vec![
        "limits (max_peers, max_addrs_per_peer) are asserted on the in-memory store at all times, on every load_cache_data result and on the file written by a flush WITH clean-up; the file written by sync_and_flush_to_disk(false) is 'the merge before clean-up' and is only held to the no-loss sentence (it may exceed the limits)".into(),
        "clean-up may drop an address iff it is expired, has failures > successes, or its peer / the cache exceeds a limit; when a limit is exceeded the statement does not say which entries go, so all entries of that peer (resp. all peers) are an either-zone; the limit is counted over all entries incl. those that must go anyway (label either_zone_limit_counts_droppable_entries shows where a stricter reading would differ)".into(),
        "the on-disk side of a merge is read through load_cache_data, whose clean-up is part of loading (sentence 2: 'apart from those clean-up removes'): expired / unreliable / over-limit entries of the FILE may be missing after sync_and_flush_to_disk(false); entries of MEMORY may not".into(),
        "an address known to both sides with different counters must survive merge+clean-up only if it is keepable on both sides (the statement does not define merged counters)".into(),
        "expiry is judged with a 300 s guard band around the configured duration; planted last_seen values stay >= 600 s away from it; last_seen in the future is an either-zone".into(),
        "files with content no add_addr can produce (address without peer id / not crafted / filed under another peer / duplicate entries / counters > 10^6 / future times) are 'foreign': only no-crash, limits, clean-ness and 'next flush leaves a loadable file' are asserted while such content is on disk (load_cache_data documents clean addresses as a precondition)".into(),
        "equal success and failure counts are not 'more failures than successes': such an address must be kept".into(),
        "overflow-checks are on in the harness build: a wrapping u32 '+' on counters read from a file is a visible panic".into(),
        "stress: threads of one process stand in for co-located node processes; interleavings are sampled by the OS scheduler, not enumerated; lost updates between concurrent flushes and flushes returning Err are counted, not judged".into(),
        "that add_addr stores a dialable address at all is not in the statement; it is measured by labels (add_stored) and by the non-triviality rule, not asserted".into(),
    ];

    vh_core::section!(
        rep,
        "history",
        (30_000, 1_000_000),
        16,
        "1..=60 ops (add 38%, status update 17%, clean-up 7%, flush 12%, write+load 3%, load 6%, plant real-format file 11%, plant corrupt 3%, new store 2%, sorted 1%) over a pool of 3..=8 peers x 4 slots x 29 multiaddr shapes; max_peers 1..=6, max_addrs 1..=3, expiry 1h/24h. non-trivial: a flush that merges non-empty memory with a non-empty planted real-format file AND a limit was hit (add at capacity or merge over a limit); distinct by case",
        history::strategy,
        history::check
    );
    vh_core::section!(
        rep,
        "corrupt",
        (40_000, 1_000_000),
        16,
        "one file per case: arbitrary bytes / truncated valid file / one-byte mutation / foreign JSON catalogue / right schema with impossible content / counters up to u32::MAX; then load, start-up reader, flush (0..=5 fresh addrs in memory), reload. non-trivial: file really damaged or foreign and memory non-empty; distinct by (file bytes, memory, cfg)",
        corrupt::strategy,
        corrupt::check
    );

    let replay = replay_doc(&run_cfg);
    let replay_section = replay.as_ref().and_then(|d| d["section"].as_str()).map(|s| s.to_string());

    // ---------------------------------------------------------------------------------------------
    // exhaustive: every byte prefix of fixed valid files
    // ---------------------------------------------------------------------------------------------
    if wants(&run_cfg, "prefixes") && (replay.is_none() || replay_section.as_deref() == Some("prefixes")) {
        let t0 = Instant::now();
        let mut st = SectionStats {
            name: "prefixes".into(),
            rule: "every byte prefix (0..=len) of fixed valid cache files (1 peer/1 addr; 3 peers/5 addrs incl. expired + unreliable), each x {flush with, without clean-up} [thorough: x 3 configs]; same scenario as 'corrupt'. non-trivial: proper prefix; distinct by (file, length, cfg, flag)".into(),
            exhaustive: true,
            ..Default::default()
        };
        let cfgs: Vec<Cfg> = match tier {
            Tier::Quick => vec![Cfg { max_peers: 2, max_addrs: 1, expiry_h: 24 }],
            Tier::Thorough => vec![
                Cfg { max_peers: 2, max_addrs: 1, expiry_h: 24 },
                Cfg { max_peers: 6, max_addrs: 3, expiry_h: 1 },
                Cfg { max_peers: 1, max_addrs: 2, expiry_h: 1 },
            ],
        };
        let mem = vec![(0u16, 0u16, 0u8), (20000, 30000, 2)];
        let only: Option<(usize, usize, usize, bool)> = replay.as_ref().filter(|_| replay_section.is_some()).and_then(|d| {
            let c = &d["case"];
            Some((
                c["cfg_index"].as_u64()? as usize,
                c["file_index"].as_u64()? as usize,
                c["prefix_len"].as_u64()? as usize,
                c["with_cleanup"].as_bool()?,
            ))
        });
        let mut stop = false;
        for (ci, c) in cfgs.iter().enumerate() {
            for (fi, bytes) in corrupt::prefix_seed_files(c).iter().enumerate() {
                for n in 0..=bytes.len() {
                    for with_cleanup in [true, false] {
                        if let Some(o) = only {
                            if o != (ci, fi, n, with_cleanup) {
                                continue;
                            }
                        }
                        if stop {
                            continue;
                        }
                        let mut ctx = Ctx::default();
                        let r = vh_core::catch_panic(|| corrupt::run_bytes(&mut ctx, c, 4, &bytes[..n], &mem, with_cleanup));
                        if let Err(msg) = r {
                            ctx.fail("panic:harness_prefixes", msg);
                        }
                        st.evaluations += 1;
                        for l in &ctx.labels {
                            *st.classes.entry(l.clone()).or_default() += 1;
                        }
                        if n < bytes.len() {
                            st.nontrivial_hashes.insert(stable_hash(&(ci, fi, n, with_cleanup)));
                        }
                        let case = json!({"cfg_index": ci, "file_index": fi, "prefix_len": n, "with_cleanup": with_cleanup,
                            "prefix_tail": String::from_utf8_lossy(&bytes[n.saturating_sub(40)..n])});
                        if st.samples.is_empty() && n == bytes.len() / 2 {
                            st.samples.push(case.clone());
                        }
                        let mut all_known = !ctx.failures.is_empty();
                        for f in ctx.failures {
                            if rep.manual_violation("prefixes", f, &case) {
                                all_known = false;
                                stop = true;
                            }
                        }
                        if all_known {
                            st.excluded_known += 1;
                        }
                    }
                }
            }
        }
        st.exhaustive = !stop && only.is_none();
        st.wall_s = t0.elapsed().as_secs_f64();
        rep.add_manual(st);
    }

    // ---------------------------------------------------------------------------------------------
    // concurrency
    // ---------------------------------------------------------------------------------------------
    if wants(&run_cfg, "stress") && (replay.is_none() || replay_section.as_deref() == Some("stress")) {
        let t0 = Instant::now();
        let mut st = SectionStats {
            name: "stress".into(),
            rule: "rounds of 2..=6 writer threads (own store each, one shared path; flush mode always/never/alternating clean-up; small limits 5x2 or large 400x6; tmpfs or real disk) x fixed iteration counts, 1 reader looping load_cache_data until the writers are done. non-trivial: round with >=2 writers and >=50 successful reads taken while writers were active; distinct by round parameters".into(),
            ..Default::default()
        };
        let rounds: Vec<stress::Round> = match (&replay, replay_section.as_deref()) {
            (Some(d), Some("stress")) => match serde_json::from_value::<stress::Round>(d["case"].clone()) {
                Ok(r) => vec![r; 5],
                Err(e) => {
                    eprintln!("replay case does not decode for section stress: {e}");
                    std::process::exit(2);
                }
            },
            _ => stress::rounds(tier == Tier::Thorough, scale),
        };
        let (mut reads, mut conc, mut nofile, mut fok, mut ferr, mut left) = (0u64, 0u64, 0u64, 0u64, 0u64, 0u64);
        let mut first_err: Option<String> = None;
        for (i, r) in rounds.iter().enumerate() {
            if rep.budget_left().is_zero() {
                st.stopped_by_budget = true;
                rep.inconclusive.push("section stress stopped by time budget".into());
                break;
            }
            let out = stress::run_round(r);
            st.evaluations += 1;
            reads += out.reads_ok;
            conc += out.reads_ok_concurrent;
            nofile += out.reads_no_file;
            fok += out.flush_ok;
            ferr += out.flush_err;
            left += out.leftover_files;
            if first_err.is_none() {
                first_err = out.first_flush_err.clone();
            }
            *st.classes.entry(format!("writers_{}", r.writers)).or_default() += 1;
            *st.classes.entry(format!("mode_{}", ["always_cleanup", "never_cleanup", "alternating"][r.mode.min(2) as usize])).or_default() += 1;
            *st.classes.entry(if r.on_disk { "on_disk".to_string() } else { "on_tmpfs".to_string() }).or_default() += 1;
            if out.reads_ok_concurrent >= 50 {
                *st.classes.entry("round_with_50_concurrent_reads".into()).or_default() += 1;
            }
            if r.writers >= 2 && out.reads_ok_concurrent >= 50 {
                st.nontrivial_hashes.insert(stable_hash(&format!("{r:?}#{i}")));
            }
            if st.samples.len() < 2 {
                st.samples.push(json!({"round": r, "reads_ok_concurrent": out.reads_ok_concurrent, "flushes": out.flush_ok, "final_peers": out.final_peers}));
            }
            let case = serde_json::to_value(r).unwrap_or(Value::Null);
            let mut stop = false;
            for f in out.failures {
                if rep.manual_violation("stress", f, &case) {
                    stop = true;
                    break; // one line per round is enough
                }
            }
            if stop {
                break;
            }
        }
        st.extra.insert("reads_ok".into(), json!(reads));
        st.extra.insert("reads_ok_while_writers_active".into(), json!(conc));
        st.extra.insert("reads_no_file_yet".into(), json!(nofile));
        st.extra.insert("flushes_ok".into(), json!(fok));
        st.extra.insert("flushes_err_not_judged".into(), json!(ferr));
        st.extra.insert("first_flush_err".into(), json!(first_err));
        st.extra.insert("leftover_temp_files_not_judged".into(), json!(left));
        st.wall_s = t0.elapsed().as_secs_f64();
        rep.add_manual(st);
    }
    vh_core::fuzz_section!(rep, "history", history::strategy, history::check, "sec_bootstrap", "bootstrap", 200_000, 240, 8);
    vh_core::fuzz_section!(rep, "corrupt", corrupt::strategy, corrupt::check, "sec_bootstrap", "bootstrap", 200_000, 150, 6);
    rep.finish();
}
